#!/bin/bash
# usage: tools/seed_eval.sh <Cnn> [other property ids to run as well]
#        SEED_SRC=/tmp/seed2 SEED_DST=/verif/seeded2 SKIP_SUITE=1 tools/seed_eval.sh <Cnn>   (second round)
# Copies a seeded change from its scratch worktree into /verif/seeded/<id>/, confirms that the
# existing suite passes with it (in the scratch worktree), applies it to /repo, runs the check(s),
# and restores /repo. /repo is never committed to.
set -u
id=$1; shift
wt=${SEED_SRC:-/tmp/seed}/$id
dst=${SEED_DST:-/verif/seeded}/$id
[ -f $wt/_seeded/patch.diff ] || { echo "no patch for $id"; exit 2; }
mkdir -p $dst
cp $wt/_seeded/patch.diff $wt/_seeded/meta.json $dst/ 2>/dev/null
rm -rf $dst/demo; cp -r $wt/_seeded/demo $dst/demo 2>/dev/null
if [ -n "$(git -C /repo status --porcelain)" ]; then echo "/repo is dirty"; exit 2; fi
git -C /repo apply --check $dst/patch.diff || { echo "patch does not apply to /repo"; exit 2; }
# 1. existing tests with the change (scratch worktree: the agent left the change applied)
if [ "${SKIP_SUITE:-0}" != "1" ]; then
  (cd $wt && timeout 2400 cargo nextest run --workspace --no-fail-fast --offline --test-threads 8 > $dst/suite.log 2>&1)
  grep -E "Summary|FAIL|SIGKILL|TIMEOUT" $dst/suite.log | grep -v "rzmq_interop" | sort -u | head -8 > $dst/suite_summary.txt
  cat $dst/suite_summary.txt
fi
# 2. the checks against /repo with the change applied
git -C /repo apply $dst/patch.diff
for p in $id "$@"; do
  (cd /verif && VERIF_OUT=$dst/evidence timeout 3000 python3 tools/check.py $p --tier quick > $dst/check_$p.log 2>&1; echo "exit=$?" >> $dst/check_$p.log)
  echo "== check $p:"; grep -E "VIOLATION|KNOWN-FINDING|TOOL-ERROR|exit=|^  " $dst/check_$p.log | cut -c1-260 | head -12
done
git -C /repo checkout -- .
git -C /repo status --porcelain | head -3
