"""Shared by C04/C05/C06/C07 (and later C18/C19): replay of Peer.tla / Script.tla behaviours
on the real ZmtpEngine through the harness, and mapping of harness issue codes to properties."""
import json
import os
import vlib

# which property each property-level issue code belongs to
CODE_PROP = {
    # Peer replay
    "incompatible-up": "C05", "compatible-fail": "C05", "disagree": "C05", "double-hc": "C05",
    "no-converge": "C05", "no-fail": "C05",
    "delivery-order": "C04", "delivery-missing": "C04", "more-flags": "C04", "deliver-before-hc": "C04",
    # Script replay
    "bypass": "C06", "v2-when-refused": "C06", "v2-verdict": "C05",
    "panic": "C07", "unbounded-buffer": "C07",
    "segmentation-dependent": "C04",
}


def _collect(ctx, pid, res, behaviours, kind, also=()):
    """Turn harness outcomes into violations of `pid` (and notes for the rest)."""
    mine = {pid} | set(also)
    for o in res["outcomes"]:
        b = behaviours[o["index"]]
        for i in o["issues"]:
            if i["class"] == "drift":
                ctx.drift += 1
                if ctx.drift <= 5:
                    ctx.note("drift (%s, behaviour %d, step %s): %s" % (i["code"], o["index"], i["step"], i["detail"][:300]))
                continue
            if i["class"] != "prop":
                continue
            owner = CODE_PROP.get(i["code"], pid)
            if i["code"] == "deliver-before-hc" and kind == "script":
                owner = "C06"
            if owner in mine:
                cfgs = (b.get("cfg") or {"a": b.get("cfgA"), "b": b.get("cfgB")})
                key = "%s:%s:%s" % (pid, i["code"], _cfg_key(cfgs))
                ctx.violation(key, "%s: %s" % (i["code"], i["detail"][:700]),
                              {"kind": "tlc-behaviour", "harness": kind, "enc": o.get("enc"),
                               "mutated": o.get("mutated"), "behaviour": b, "issue": i})
            else:
                ctx.note("issue of %s seen while checking %s: %s" % (owner, pid, i["code"]))


def _cfg_key(c):
    if "a" in c:
        a, b = c["a"], c["b"]
        return "%s/%s-%s/%s" % (a["st"], a["mech"], b["st"], b["mech"])
    return "%s/%s/%s" % (c["st"], c["mech"], "srv" if c["srv"] else "cli")


def peer_replay(ctx, pid, behaviours, tag, also=()):
    path = os.path.join(ctx.work, "peer_%s.jsonl" % tag)
    out = os.path.join(ctx.work, "peer_%s.out" % tag)
    vlib.write_jsonl(path, behaviours)
    vlib.vh(["peer", path, out], timeout=1500, env={"VERIF_SEED": str(ctx.seed)})
    r = json.load(open(out))
    ctx.traces += r["runs"]
    _collect(ctx, pid, r, behaviours, "peer", also)
    return r


def script_replay(ctx, pid, behaviours, tag, mutate=0, expand=1, also=(), bodycuts=False):
    path = os.path.join(ctx.work, "script_%s.jsonl" % tag)
    out = os.path.join(ctx.work, "script_%s.out" % tag)
    vlib.write_jsonl(path, behaviours)
    args = ["script", path, out]
    if mutate:
        args += ["--mutate", str(mutate)]
    if expand > 1:
        args += ["--expand", str(expand)]
    if bodycuts:
        args += ["--bodycuts"]
    vlib.vh(args, timeout=2400, env={"VERIF_SEED": str(ctx.seed)})
    r = json.load(open(out))
    ctx.traces += r["runs"] + r["mutated_runs"]
    ctx.extra["mutated_replays"] = ctx.extra.get("mutated_replays", 0) + r["mutated_runs"]
    _collect(ctx, pid, r, behaviours, "script", also)
    return r


def segment_check(ctx, pid, behaviours, tag, also=()):
    path = os.path.join(ctx.work, "seg_%s.jsonl" % tag)
    out = os.path.join(ctx.work, "seg_%s.out" % tag)
    vlib.write_jsonl(path, behaviours)
    vlib.vh(["segment", path, out], timeout=2400, env={"VERIF_SEED": str(ctx.seed)})
    r = json.load(open(out))
    ctx.traces += r["segmentations"]
    ctx.extra["segmentations_compared"] = ctx.extra.get("segmentations_compared", 0) + r["segmentations"]
    _collect(ctx, pid, r, behaviours, "script", also)
    return r


def selftest(ctx, sub, behaviours):
    """Binding self-test: expect one more app action than the model predicts at the last step of
    each behaviour - the replay must flag every one of them."""
    path = os.path.join(ctx.work, "self_%s.jsonl" % sub)
    out = os.path.join(ctx.work, "self_%s.out" % sub)
    sel = [b for b in behaviours if b["steps"] and b["steps"][-1].get("a") == "deliver"][:40]
    if not sel:
        return
    vlib.write_jsonl(path, sel)
    vlib.vh([sub, path, out, "--perturb"], env={"VERIF_SEED": str(ctx.seed)})
    r = json.load(open(out))
    flagged = sum(1 for o in r["outcomes"] if any(i["class"] == "selftest" for i in o["issues"]))
    ctx.selftest["%s_perturbed_expectation_rejected" % sub] = "%d/%d" % (flagged, r["runs"])
    if flagged < r["runs"]:
        raise vlib.ToolError("binding self-test failed for %s: %d/%d perturbed expectations rejected" % (sub, flagged, r["runs"]))


def need(res, what):
    if not res.replays:
        raise vlib.ToolError("TLC exported no behaviours for " + what)
    return res.replays
