"""C18 - encrypted connections keep data secret, detect tampering, and stay decodable.

Spec    : spec/SecureChannel.tla - the record layer of an encrypted connection: per-direction
          counters, records for message batches and heartbeats, size classes around the 64 KiB record
          limit, and a network that flips, drops, duplicates, swaps records or cuts the stream
          (one or two mutations). spec/Peer.tla covers the ENC handshake (C05).
TLC     : exhaustive (4 sends, 2 mutations): NoWrongDelivery, SelfDecodable, TamperCloses.
Binding : B1. Simulated behaviours are replayed on two real engines after a real CURVE and a real
          Noise_XX handshake: the model's mutations are applied to the real ciphertext records, the
          receiver's AppActions compared with the model after every record; every byte the sender
          emits is searched for the plaintext marker; two sessions with the same static keys must not
          produce the same record for the same plaintext.
"""
import json
import os
import vlib


def replay_sec(ctx, beh, tag, perturb=False):
    path = os.path.join(ctx.work, "sec_%s.jsonl" % tag)
    out = os.path.join(ctx.work, "sec_%s.out" % tag)
    vlib.write_jsonl(path, beh)
    vlib.vh(["sec", path, out] + (["--perturb"] if perturb else []), timeout=2400, env={"VERIF_SEED": str(ctx.seed)})
    return json.load(open(out))


def collect(ctx, r, beh):
    for i in r.get("fresh_issues", []):
        ctx.violation("C18:%s" % i["code"], i["detail"], {"kind": "two-sessions", "issue": i})
    for o in r["outcomes"]:
        for i in o["issues"]:
            if i["class"] == "drift":
                ctx.drift += 1
                if ctx.drift <= 5:
                    ctx.note("drift (%s behaviour %d step %s): %s %s" % (o["enc"], o["index"], i["step"], i["code"], i["detail"][:200]))
            elif i["class"] == "prop":
                ctx.violation("C18:%s:%s" % (i["code"], o["enc"]), "%s (%s): %s" % (i["code"], o["enc"], i["detail"][:500]),
                              {"kind": "tlc-behaviour", "module": "MC_SecureChannel", "enc": o["enc"], "behaviour": beh[o["index"]], "issue": i})
            elif i["class"] == "tool":
                raise vlib.ToolError("secure-channel replay setup failed: " + i["detail"])


def run(ctx):
    thorough = ctx.tier == "thorough"
    vlib.cargo_build()
    ctx.model_check("MC_SecureChannel", "MC_SecureChannel_thorough.cfg" if thorough else "MC_SecureChannel_quick.cfg", workers=8, timeout=1800)
    ctx.exhaustive = True
    sim = ctx.model_check("MC_SecureChannel", "MC_SecureChannel_sim.cfg", workers=1, simulate=4000 if thorough else 400, depth=80,
                          seed=ctx.seed, timeout=900)
    beh = sim.replays
    if not beh:
        raise vlib.ToolError("no behaviours exported")
    ctx.sample({"from": "MC_SecureChannel_sim", "behaviour": beh[0]})
    ctx.sample({"from": "MC_SecureChannel_sim", "behaviour": beh[len(beh) // 2]})
    r = replay_sec(ctx, beh, "sim")
    ctx.traces += r["runs"]
    collect(ctx, r, beh)
    st = replay_sec(ctx, [b for b in beh if b["steps"] and b["steps"][-1]["a"] == "recv"][:30], "self", perturb=True)
    flagged = sum(1 for o in st["outcomes"] if any(i["class"] == "selftest" for i in o["issues"]))
    ctx.selftest["perturbed_recv_expectation_rejected"] = "%d/%d" % (flagged, st["runs"])
    if st["runs"] and flagged < st["runs"]:
        raise vlib.ToolError("binding self-test failed")
    ctx.assumptions += [
        "the AEAD primitives (dryoc crypto_box, snow ChaChaPoly) are trusted; only the protocol around them is checked",
        "bit flips are applied to the sealed body of a record; a flip in the unauthenticated 2-byte length prefix re-frames the stream and is covered by the cut case",
        "one direction of the data phase is mutated; the reverse direction carries the PONG replies",
    ]


def replay(path):
    rp = json.load(open(path))
    ctx = vlib.Ctx("C18", "quick", rp.get("seed", 1))
    vlib.cargo_build()
    b = rp["replay"].get("behaviour") or {"steps": []}
    r = replay_sec(ctx, [b], "one")
    collect(ctx, r, [b])
    for v in ctx.violations:
        print("REPRODUCED %s" % v["what"])
    return 1 if ctx.violations else 0
