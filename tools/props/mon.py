"""Development entry for the monitor conformance alone (not a registered property):
   VERIF_OUT=/scratch/monout python3 tools/check.py MON --tier quick"""
from props import monlib


def run(ctx):
    ctx.model_check("MC_Monitor", "MC_Monitor_quick.cfg")
    monlib.check(ctx, thorough=ctx.tier == "thorough")


def replay(path):
    return 0
