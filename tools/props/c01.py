"""C01 - while connected, every accepted message arrives exactly once, in order, intact.

Spec    : spec/Delivery.tla (property level: Offer / Accept / Refuse / Deliver / Quiesce) and
          spec/Session.tla (implementation-shaped: the session actor's batch assembly - carry-over,
          count / logical / physical limits, HWM budget - refines per-connection FIFO).
TLC     : Session.tla exhaustively for abstract sizes {1,6} against the three limits (InOrder, NoLoss);
          its boundary size mixes steer the socket workloads.
Binding : B3. Real sockets (PUSH/PULL, DEALER/ROUTER, REQ/REP over tcp, ipc, inproc; both runtimes;
          HWMs 1..256; batch options hitting count / logical / physical limits; slow receivers; first
          send before / during / after the handshake) produce API histories; TLC validates every
          history against Delivery.tla (Trace_Delivery): a rejected history is a violation.
"""
import random
import vlib
from props import socklib as S


def workloads(seed, thorough):
    rnd = random.Random(seed)
    scs = []
    # 1. sizes from the Session.tla boundary analysis (counterexample of the as-is model:
    #    sizes small, BIG, small, BIG, small with BIG = the physical limit exactly). Real units:
    #    physical limit = page-rounded(SNDBATCH_BYTES + framing overhead), wire size = payload + 9.
    def phys(b, cnt):
        longf = min(cnt, b // 256)
        raw = b + longf * 9 + (cnt - longf) * 2
        return ((raw + 4095) // 4096) * 4096
    for B in ([1000, 6000] if thorough else [1000]):
        big = phys(B, 5) - 9
        for pat in ([12, big, 12, big, 12], [big, 12, 12, big], [12, 12, big], [12, big - 1, 13, big + 1]):
            for tr in ["tcp", "ipc"]:
                scs.append(S.push_pull("batch-%d-%s-%s" % (B, "_".join(map(str, pat[:3])), tr), tr, n=200, sizes=pat,
                                       tx_opts=[S.i32(S.SNDBATCH_COUNT, 5), S.i32(S.SNDBATCH_BYTES, B), S.i32(S.SNDHWM, 8)],
                                       rx_pace_us=0))
    # 2. seeded option / size mixes
    nmix = 40 if thorough else 10
    for i in range(nmix):
        tr = rnd.choice(["tcp", "ipc", "inproc"])
        hwm_t = rnd.choice([1, 2, 4, 16, 256])
        hwm_r = rnd.choice([1, 2, 4, 16, 256])
        cnt = rnd.choice([1, 2, 5, 128])
        byt = rnd.choice([64, 512, 4096, 262144])
        sizes = [rnd.choice([12, 13, 64, 255, 256, 257, 1000, 5000, 70000, 300000 if thorough else 20000]) for _ in range(rnd.randint(1, 6))]
        n = rnd.choice([40, 150]) if max(sizes) < 50000 else 25
        tx = [S.i32(S.SNDHWM, hwm_t), S.i32(S.SNDBATCH_COUNT, cnt), S.i32(S.SNDBATCH_BYTES, byt)]
        rx = [S.i32(S.RCVHWM, hwm_r), S.i32(S.RCVBATCH_COUNT, rnd.choice([1, 4, 128]))]
        if rnd.random() < 0.3:
            tx.append(S.i32(S.ADAPTIVE_THROTTLE, 1))
        if tr == "tcp" and rnd.random() < 0.3:
            tx.append(S.i32(S.TCP_CORK, 1))
        scs.append(S.push_pull("mix-%d-%s" % (i, tr), tr, n=n, sizes=sizes, tx_opts=tx, rx_opts=rx,
                               rx_pace_us=rnd.choice([0, 0, 200, 2000]), flavor=rnd.choice(["multi", "current"]),
                               when=rnd.choice(["mid", "mid", "after", "before"])))
    # 3. other patterns
    for tr in ["tcp", "ipc", "inproc"]:
        scs.append(S.dealer_router("dealer-burst-%s" % tr, tr, n=20, sizes=[40, 300], when="mid"))
        scs.append(S.dealer_router("dealer-after-%s" % tr, tr, n=40, sizes=[40, 70000], when="after"))
        scs.append(S.req_rep("reqrep-%s" % tr, tr, n=15 if not thorough else 60, sizes=[32, 300, 66000]))
    # a DEALER that starts send()ing (single frames: the non-blocking fast path first) before its connection is
    # up and keeps going while the parked backlog is drained into the new connection
    for rep, tr in enumerate((["tcp", "tcp", "tcp", "ipc", "ipc"] if thorough else ["tcp", "tcp", "ipc"])):
        n = 6000
        ep = S.endpoint(tr, "early")
        scs.append({"name": "dealerearly-%d-%s" % (rep, tr), "deadline_ms": 60000,
                    "sockets": [{"name": "tx", "type": "DEALER", "opts": [S.i32(S.SNDHWM, 100000), [S.ROUTING_ID, "str", "dealer-1"]]},
                                {"name": "rx", "type": "ROUTER", "opts": [S.i32(S.RCVHWM, 100000)]}],
                    "tasks": [{"name": "rx", "ops": [{"op": "bind", "sock": "rx", "ep": ep, "save": "ep"}, {"op": "barrier", "name": "go", "parties": 2},
                                                    {"op": "recv_n", "sock": "rx", "n": n, "timeout_ms": 5000, "multipart": True}]},
                              {"name": "tx", "ops": [{"op": "barrier", "name": "go", "parties": 2}, {"op": "connect", "sock": "tx", "ep": "$ep"},
                                                    {"op": "send_n", "sock": "tx", "prefix": "a", "n": n, "sizes": [16], "timeout_ms": 10000, "max_errs": 3}]}]})
    return scs


def classify(sc):
    n = sc["name"]
    kind = n.split("-")[0]
    return kind


def run(ctx):
    thorough = ctx.tier == "thorough"
    vlib.cargo_build()
    import os
    if os.path.exists(os.path.join(vlib.SPEC, "MC_Session_quick.cfg")):
        ctx.model_check("MC_Session", "MC_Session_quick.cfg", workers=8, timeout=1200)
        ctx.exhaustive = True
    scs = workloads(ctx.seed, thorough)
    res = S.run_scenarios(ctx, scs, "c01", timeout=3000)
    runs = []
    for sc, r in zip(scs, res):
        senders = [s["name"] for s in sc["sockets"] if s["type"] in ("PUSH", "DEALER", "REQ", "REP")]
        receivers = [s["name"] for s in sc["sockets"] if s["type"] in ("PULL", "ROUTER", "REQ", "REP")]
        ev = S.history_to_delivery_trace(r, senders, receivers)
        rp = {"kind": "recorded-trace", "scenario": sc, "events": ev[:400], "hung": r["hung"], "panics": r["panics"]}
        runs.append((sc["name"], ev, rp))
        if r["panics"]:
            ctx.violation("C01:panic:%s" % classify(sc), "panic inside rzmq during %s: %s" % (sc["name"], r["panics"][0]), rp)
    ctx.sample({"scenario": scs[0]["name"], "events": runs[0][1][:10]})
    for (label, bad, rp) in S.validate_delivery(ctx, runs, "c01"):
        kind = label.split("-")[0]
        tr = label.rsplit("-", 1)[-1]
        ctx.violation("C01:%s:%s:%s" % (S.rejection_code(bad), kind, tr), "%s: %s" % (label, S.describe_rejection(bad)), dict(rp, rejected_record=bad))
    ctx.assumptions += [
        "one sending task per connection (the order of offers is the order of the send() calls)",
        "payload integrity is checked on the driven sizes with position-dependent fill, not for arbitrary content",
        "schedules of the Tokio runtime are observed, not enumerated",
    ]


def replay(path):
    import json
    rp = json.load(open(path))
    ctx = vlib.Ctx("C01", "quick", rp.get("seed", 1))
    vlib.cargo_build()
    sc = rp["replay"]["scenario"]
    r = S.run_scenarios(ctx, [sc], "one")[0]
    senders = [s["name"] for s in sc["sockets"] if s["type"] in ("PUSH", "DEALER", "REQ", "REP")]
    receivers = [s["name"] for s in sc["sockets"] if s["type"] in ("PULL", "ROUTER", "REQ", "REP")]
    ev = S.history_to_delivery_trace(r, senders, receivers)
    bad = S.validate_delivery(ctx, [(sc["name"], ev, {})], "one")
    for (label, b, _) in bad:
        print("REPRODUCED %s: %s" % (label, S.describe_rejection(b)))
    return 1 if bad else 0
