"""C03 - ZMTP framing round-trips and is independent of how the stream is cut.

Spec      : spec/Wire.tla (frame header shape, both stateful decoders, segmentation).
TLC       : exhaustive on all streams of <= 2 (thorough: 3) frames over the boundary
            lengths, every segmentation at the decoders' interesting offsets; invariants
            RoundTrip, DecodersAgree, AllDecodedAtEnd, LimitExact, AccBound.
Binding   : B1. TLC-exported behaviours (every segmentation of every single-frame stream,
            plus simulated multi-frame streams) are executed through every encoder entry
            point and every decoder entry point of the real code; bytes are compared with
            an independent reference encoder, decoded frames with what was sent, and the
            number of frames out after every read with the model's prediction.
"""
import json
import os
import vlib


def replay_behaviours(ctx, behaviours, tag):
    path = os.path.join(ctx.work, "beh_%s.jsonl" % tag)
    out = os.path.join(ctx.work, "out_%s.json" % tag)
    vlib.write_jsonl(path, behaviours)
    vlib.vh(["wire", path, out], timeout=1200)
    r = json.load(open(out))
    ctx.traces += r["behaviours"]
    ctx.extra["encoder_decoder_combinations_run"] = ctx.extra.get("encoder_decoder_combinations_run", 0) + r["combos"]
    if r["lag_notes"]:
        ctx.drift += r["lag_notes"]
        ctx.note("drift: %d decoder runs lag behind the model mid-stream (final result correct)" % r["lag_notes"])
    for f in r["failures"]:
        b = behaviours[f["index"]]
        for m in f["mismatches"]:
            if m["kind"] == "lag":
                continue
            key = "C03:%s:%s" % (m["kind"], m["site"])
            ctx.violation(key, "%s: %s" % (m["site"], m["detail"]),
                          {"kind": "tlc-behaviour", "module": "MC_Wire", "behaviour": b, "mismatch": m,
                           "rerun": "vh wire <file with this behaviour> out.json"})
    return r


def selftest(ctx, behaviours):
    """Binding self-test: a perturbed expectation must be reported by the replay."""
    path = os.path.join(ctx.work, "beh_self.jsonl")
    out = os.path.join(ctx.work, "out_self.json")
    vlib.write_jsonl(path, behaviours[:20])
    vlib.vh(["wire", path, out, "--perturb"])
    r = json.load(open(out))
    ctx.selftest["perturbed_expectation_rejected"] = "%d/%d" % (r["failing"], r["behaviours"])
    if r["failing"] != r["behaviours"]:
        raise vlib.ToolError("binding self-test failed: perturbed expectations were accepted")


def run(ctx):
    thorough = ctx.tier == "thorough"
    vlib.cargo_build()
    # 1. the design: exhaustive model checking
    ctx.model_check("MC_Wire", "MC_Wire_thorough.cfg" if thorough else "MC_Wire_quick.cfg", workers=8, timeout=1500)
    ctx.model_check("MC_Wire", "MC_Wire_limit.cfg", workers=4, timeout=600)
    ctx.exhaustive = True
    # 2. behaviours for the real code
    ex = ctx.model_check("MC_Wire", "MC_Wire_export1.cfg", workers=4, timeout=600, coverage=False)
    sim = ctx.model_check("MC_Wire", "MC_Wire_sim.cfg", workers=1, simulate=2000 if thorough else 250, depth=80,
                          seed=ctx.seed, timeout=1500)
    siml = ctx.model_check("MC_Wire", "MC_Wire_simlimit.cfg", workers=1, simulate=1000 if thorough else 150, depth=80,
                           seed=ctx.seed + 1, timeout=900)
    if not ex.replays or not sim.replays or not siml.replays:
        raise vlib.ToolError("TLC exported no behaviours")
    ctx.sample({"from": "MC_Wire_export1", "behaviour": ex.replays[len(ex.replays) // 2]})
    ctx.sample({"from": "MC_Wire_sim", "behaviour": sim.replays[0]})
    ctx.sample({"from": "MC_Wire_simlimit", "behaviour": siml.replays[0]})
    replay_behaviours(ctx, ex.replays, "export1")
    replay_behaviours(ctx, sim.replays, "sim")
    replay_behaviours(ctx, siml.replays, "simlimit")
    selftest(ctx, sim.replays)
    ctx.assumptions += [
        "payload bytes are position-dependent pseudo-random; arbitrary payload content is not enumerated",
        "frame lengths are drawn from the boundary classes listed in the cfg files (up to 70000 bytes)",
        "the harness reference encoder (RFC 37 header layout) is trusted",
    ]


def replay(path):
    rp = json.load(open(path))
    ctx = vlib.Ctx("C03", "quick", rp.get("seed", 1))
    vlib.cargo_build()
    replay_behaviours(ctx, [rp["replay"]["behaviour"]], "one")
    for v in ctx.violations:
        print("REPRODUCED %s" % v["what"])
    return 1 if ctx.violations else 0
