"""C14 - high-water marks bound buffering and SNDTIMEO / RCVTIMEO mean what they say.

Spec    : spec/Hwm.tla - a bounded path between send() calls with SNDTIMEO in {-1, 0, T} and a consumer
          that drains when it pleases, over an integer clock: Timeo0, TimeoPos, TimeoInf, Bound,
          RefusedNotDelivered, DeliveredPrefix. spec/Session.tla: EgressBound (what the session frames
          ahead of the socket stays within SNDHWM + one batch).
TLC     : exhaustive (capacity 2, timeouts {-1, 0, 2}, 5 calls, 5 ticks); Session.tla as in C01.
Binding : B3 - real sockets with a reader that stalls and later starts: every send()/recv() call is
          recorded with its timeout option, result and duration and validated by TLC against the timeout
          clauses (Trace_Timeo: lower bound exact to 2 ms, upper bound + 2 s); the messages accepted while
          the reader stalls are counted against 2*SNDHWM + 2*RCVHWM + 16 + kernel allowance; the history
          with refusals is validated against Delivery.tla (nothing refused is delivered, nothing accepted
          is lost).
"""
import json
import math
import os
import vlib
from props import socklib as S

SNDBUF, RCVBUF = 11, 12


def send_scenario(name, tx, rx, transport, timeo, hwm, size, n, reader_start=2200, smallbuf=True, tx_binds=False, rcvtimeo=None):
    ep = S.endpoint(transport, name)
    txo = [S.i32(S.SNDHWM, hwm), S.i32(S.SNDTIMEO, timeo)] + ([S.i32(SNDBUF, 65536)] if smallbuf and transport == "tcp" else [])
    rxo = [S.i32(S.RCVHWM, hwm)] + ([S.i32(RCVBUF, 65536)] if smallbuf and transport == "tcp" else [])
    if tx == "DEALER":
        txo.append([S.ROUTING_ID, "str", "D"])
    mp = rx == "ROUTER"
    if rcvtimeo is not None:
        txo.append(S.i32(S.RCVTIMEO, rcvtimeo))      # must not leak into the send path
    if tx_binds:
        # the sender is the one that binds (an inproc binder keeps its own copy of the options)
        return {"name": name, "deadline_ms": 90000, "meta": {"timeo": timeo, "hwm": hwm, "size": size, "kind": "send", "transport": transport},
                "sockets": [{"name": "tx", "type": tx, "opts": txo}, {"name": "rx", "type": rx, "opts": rxo}],
                "tasks": [{"name": "rx", "ops": [{"op": "barrier", "name": "go", "parties": 2}, {"op": "connect", "sock": "rx", "ep": "$ep"},
                                                {"op": "sleep", "ms": reader_start}, {"op": "mark", "name": "reader_start"},
                                                {"op": "recv_n", "sock": "rx", "n": n, "timeout_ms": 1500, "multipart": mp}]},
                          {"name": "tx", "ops": [{"op": "bind", "sock": "tx", "ep": ep, "save": "ep"}, {"op": "barrier", "name": "go", "parties": 2}, {"op": "sleep", "ms": 400},
                                                {"op": "send_n", "sock": "tx", "prefix": "a", "n": n, "sizes": [size], "max_errs": 3},
                                                {"op": "mark", "name": "tx_done"}]}]}
    return {"name": name, "deadline_ms": 90000, "meta": {"timeo": timeo, "hwm": hwm, "size": size, "kind": "send", "transport": transport},
            "sockets": [{"name": "tx", "type": tx, "opts": txo}, {"name": "rx", "type": rx, "opts": rxo}],
            "tasks": [{"name": "rx", "ops": [{"op": "bind", "sock": "rx", "ep": ep, "save": "ep"}, {"op": "barrier", "name": "go", "parties": 2},
                                            {"op": "sleep", "ms": reader_start}, {"op": "mark", "name": "reader_start"},
                                            {"op": "recv_n", "sock": "rx", "n": n, "timeout_ms": 1500, "multipart": mp}]},
                      {"name": "tx", "ops": [{"op": "barrier", "name": "go", "parties": 2}, {"op": "connect", "sock": "tx", "ep": "$ep"}, {"op": "sleep", "ms": 300},
                                            {"op": "send_n", "sock": "tx", "prefix": "a", "n": n, "sizes": [size], "max_errs": 3},
                                            {"op": "mark", "name": "tx_done"}]}]}


def paced_scenario(name, transport, hwm, size, n, tx_pace_us, rx_pace_us, batch=None):
    """the reader is slower than the sender but never stops: the HWM gate of the session stays open most of the
    time, and what is buffered between the two applications must still stay within the bound"""
    ep = S.endpoint(transport, name)
    txo = [S.i32(S.SNDHWM, hwm), S.i32(S.SNDTIMEO, 0)] + ([S.i32(SNDBUF, 65536)] if transport == "tcp" else [])
    rxo = [S.i32(S.RCVHWM, hwm)] + ([S.i32(RCVBUF, 65536)] if transport == "tcp" else [])
    if batch:
        txo.append(S.i32(S.SNDBATCH_COUNT, batch))
    return {"name": name, "deadline_ms": 90000, "meta": {"timeo": 0, "hwm": hwm, "size": size, "kind": "paced", "transport": transport},
            "sockets": [{"name": "tx", "type": "PUSH", "opts": txo}, {"name": "rx", "type": "PULL", "opts": rxo}],
            "tasks": [{"name": "rx", "ops": [{"op": "bind", "sock": "rx", "ep": ep, "save": "ep"}, {"op": "barrier", "name": "go", "parties": 2},
                                            {"op": "recv_n", "sock": "rx", "n": n, "timeout_ms": 1200, "pace_us": rx_pace_us}]},
                      {"name": "tx", "ops": [{"op": "barrier", "name": "go", "parties": 2}, {"op": "connect", "sock": "tx", "ep": "$ep"}, {"op": "sleep", "ms": 300},
                                            {"op": "send_n", "sock": "tx", "prefix": "a", "n": n, "sizes": [size], "pace_us": tx_pace_us},
                                            {"op": "mark", "name": "tx_done"}]}]}


def recv_scenario(name, tx, rx, transport, timeo):
    ep = S.endpoint(transport, name)
    rxo = [S.i32(S.RCVTIMEO, timeo)] + ([[S.SUBSCRIBE, "str", ""]] if rx == "SUB" else [])
    rops = [{"op": "bind", "sock": "rx", "ep": ep, "save": "ep"}, {"op": "barrier", "name": "go", "parties": 2}, {"op": "sleep", "ms": 400},
            {"op": "recv", "sock": "rx"}, {"op": "recv", "sock": "rx"}]
    tops = [{"op": "barrier", "name": "go", "parties": 2}, {"op": "connect", "sock": "tx", "ep": "$ep"}, {"op": "sleep", "ms": 1600},
            {"op": "send", "sock": "tx", "mid": "a:1", "size": 32, "timeout_ms": 2000}, {"op": "sleep", "ms": 100},
            {"op": "send", "sock": "tx", "mid": "a:2", "size": 32, "timeout_ms": 2000}, {"op": "sleep", "ms": 400}]
    return {"name": name, "deadline_ms": 30000, "meta": {"timeo": timeo, "kind": "recv"},
            "sockets": [{"name": "tx", "type": tx, "opts": []}, {"name": "rx", "type": rx, "opts": rxo}],
            "tasks": [{"name": "rx", "ops": rops}, {"name": "tx", "ops": tops}]}


def recv_churn_scenario(name, peer, rx, transport, timeo, npeers=30, every_ms=100):
    """recv() with a positive RCVTIMEO and nothing to receive, while peers connect (and some leave again) at
    intervals shorter than the time-out: every call must still return after RCVTIMEO, however much happens
    on the socket's connections meanwhile"""
    ep = S.endpoint(transport, name)
    rxo = [S.i32(S.RCVTIMEO, timeo)] + ([[S.SUBSCRIBE, "str", ""]] if rx == "SUB" else [])
    socks = [{"name": "rx", "type": rx, "opts": rxo}]
    cops = [{"op": "barrier", "name": "go", "parties": 2}]
    for i in range(npeers):
        nm = "c%d" % i
        socks.append({"name": nm, "type": peer, "opts": [[S.ROUTING_ID, "str", "id-%02d" % i], S.i32(S.LINGER, 0), S.i32(S.SNDTIMEO, 500), S.i32(S.RCVTIMEO, 500)]})
        cops.append({"op": "connect", "sock": nm, "ep": "$ep"})
        cops.append({"op": "sleep", "ms": every_ms})
        if i % 3 == 2:
            cops.append({"op": "close", "sock": "c%d" % (i - 2), "timeout_ms": 3000})
    nrecv = max(2, (npeers * every_ms) // max(timeo, 1) - 1)
    rops = [{"op": "bind", "sock": "rx", "ep": ep, "save": "ep"}, {"op": "barrier", "name": "go", "parties": 2}, {"op": "sleep", "ms": 150}]
    rops += [{"op": "recv", "sock": "rx"} for _ in range(min(nrecv, 8))]
    return {"name": name, "deadline_ms": 60000, "meta": {"timeo": timeo, "kind": "recv", "churn": True},
            "sockets": socks, "tasks": [{"name": "rx", "ops": rops}, {"name": "churn", "ops": cops}]}


def classify(res):
    if res == "ok":
        return "ok"
    if res == "err:ResourceLimitReached":
        return "wouldblock"
    if res == "err:Timeout":
        return "timeout"
    return "other"


def run(ctx):
    thorough = ctx.tier == "thorough"
    vlib.cargo_build()
    ctx.model_check("MC_Hwm", "MC_Hwm_quick.cfg", workers=8, timeout=900)
    ctx.model_check("MC_Session", "MC_Session_quick.cfg", workers=8, timeout=900)
    ctx.exhaustive = True
    # the session's write queue: the pending-message count it compares with SNDHWM, under every split of
    # the written bytes over the queued chunks (Egress.tla, every history of <= 5/6 operations)
    eg = ctx.model_check("MC_Egress", "MC_Egress_thorough.cfg" if thorough else "MC_Egress_export.cfg", workers=8, timeout=1800)
    if not eg.replays:
        raise vlib.ToolError("no write-queue histories exported")
    ep, eo = os.path.join(ctx.work, "egress.jsonl"), os.path.join(ctx.work, "egress.out")
    vlib.write_jsonl(ep, eg.replays)
    vlib.vh(["egress", ep, eo], timeout=900)
    er = json.load(open(eo))
    ctx.traces += er["runs"]
    ctx.extra["write_queue_steps_replayed"] = er["steps"]
    ctx.sample({"from": "MC_Egress", "history": eg.replays[len(eg.replays) // 2]})
    for o in er["outcomes"][:20]:
        for i in o["issues"]:
            ctx.violation("C14:write-queue:%s" % i["code"], i["detail"], {"kind": "tlc-behaviour", "module": "MC_Egress", "behaviour": eg.replays[o["index"]], "issue": i})
    vlib.vh(["egress", ep, eo, "--perturb"], timeout=900)
    e2 = json.load(open(eo))
    ctx.selftest["perturbed_write_queue_expectation_rejected"] = "%d/%d" % (e2["with_issues"], e2["runs"])
    if e2["with_issues"] != e2["runs"]:
        raise vlib.ToolError("binding self-test failed: a wrong pending count was accepted for %d write-queue histories" % (e2["runs"] - e2["with_issues"]))
    scs = []
    for (tx, rx) in [("PUSH", "PULL"), ("DEALER", "ROUTER")]:
        for timeo in [0, 300, -1]:
            scs.append(send_scenario("send-%s-%d-tcp" % (tx.lower(), timeo), tx, rx, "tcp", timeo, 4, 100000, 120))
    scs.append(send_scenario("send-push-0-ipc", "PUSH", "PULL", "ipc", 0, 4, 100000, 120))
    scs.append(send_scenario("send-push--1-inproc", "PUSH", "PULL", "inproc", -1, 4, 100000, 120))
    # the sender binds, with a RCVTIMEO that differs from its SNDTIMEO
    for (tx, rx) in [("PUSH", "PULL"), ("DEALER", "ROUTER")]:
        for (timeo, rcvt) in [(0, -1), (300, -1), (-1, 0)]:
            for tr in (["inproc", "tcp", "ipc"] if thorough else ["inproc"]):
                scs.append(send_scenario("send-%s-binds-%d-%s" % (tx.lower(), timeo, tr), tx, rx, tr, timeo, 4, 100000, 60, tx_binds=True, rcvtimeo=rcvt))
    for hwm in ([1, 4, 32, 256] if thorough else [1, 32]):
        scs.append(send_scenario("bound-h%d-tcp" % hwm, "PUSH", "PULL", "tcp", -1, hwm, 100000, 4 * hwm + 150 if hwm < 100 else 1400))
    scs.append(send_scenario("bound-h8-small-tcp", "PUSH", "PULL", "tcp", -1, 8, 2000, 1500))
    scs.append(paced_scenario("paced-h32-tcp", "tcp", 32, 1000, 5000, 250, 1000, batch=4))
    scs.append(paced_scenario("paced-h200-ipc", "ipc", 200, 1000, 6000, 250, 800, batch=4))
    if thorough:
        scs.append(paced_scenario("paced-h8-tcp", "tcp", 8, 4000, 4000, 300, 1500))
        scs.append(paced_scenario("paced-h64-tcp-b16", "tcp", 64, 500, 8000, 150, 600, batch=16))
    for (tx, rx) in [("PUSH", "PULL"), ("PUB", "SUB"), ("ROUTER", "DEALER")]:
        for timeo in [0, 300, -1]:
            if tx == "ROUTER":
                continue
            scs.append(recv_scenario("recv-%s-%d" % (rx.lower(), timeo), tx, rx, "tcp", timeo))
    # timed recv() on every receiving socket type while connections come and go
    for (peer, rx) in [("DEALER", "ROUTER"), ("PUSH", "PULL"), ("ROUTER", "DEALER"), ("PUB", "SUB")] + ([("REQ", "REP")] if thorough else []):
        for tr in (["tcp", "ipc"] if thorough else ["tcp"]):
            scs.append(recv_churn_scenario("recv-churn-%s-300-%s" % (rx.lower(), tr), peer, rx, tr, 300))
    scs.append(recv_scenario("recv-router-300", "DEALER", "ROUTER", "tcp", 300))
    metas = [s.pop("meta") for s in scs]
    res = S.run_scenarios(ctx, scs, "c14", timeout=2400, jobs=3)
    calls = []
    owners = []
    deliv_runs = []
    for sc, meta, r in zip(scs, metas, res):
        rp = {"kind": "recorded-trace", "scenario": sc["name"], "records": [x for x in r["records"] if x.get("ev") in ("ret", "mark")][:200], "hung": r["hung"], "panics": r["panics"]}
        if r["panics"]:
            ctx.violation("C14:panic", "%s: %s" % (sc["name"], r["panics"][0]), rp)
        if meta["kind"] == "paced":
            tl = sorted([(x["t"], 1) for x in S.rets(r, "send", sock="tx") if x["res"] == "ok"] + [(x["t"], -1) for x in S.rets(r, "recv", sock="rx") if x["res"] == "ok"])
            cur = peak = 0
            for _, d in tl:
                cur += d
                peak = max(peak, cur)
            kernel = math.ceil((4 * 2 * 65536 if meta["transport"] == "tcp" else 4 * 1024 * 1024) / meta["size"])
            bound = 2 * meta["hwm"] + 2 * meta["hwm"] + 16 + kernel
            refused = sum(1 for x in S.rets(r, "send", sock="tx") if x["res"] != "ok")
            ctx.extra.setdefault("backlog_with_a_slow_reader", {})[sc["name"]] = {"peak": peak, "bound": bound, "refused": refused}
            if peak > bound:
                ctx.violation("C14:unbounded-buffering:paced:%s" % meta["transport"],
                              "%s: with SNDHWM=RCVHWM=%d and a reader slower than the sender, up to %d accepted messages of %d bytes were in flight between send() and recv() (bound 2*SNDHWM + 2*RCVHWM + 16 + kernel allowance = %d); %d sends were refused" % (
                                  sc["name"], meta["hwm"], peak, meta["size"], bound, refused), rp)
            deliv_runs.append((sc["name"], S.history_to_delivery_trace(r, ["tx"], ["rx"]), rp))
            continue
        if meta["kind"] == "send":
            sends = S.rets(r, "send", sock="tx")
            for x in sends:
                calls.append({"timeo": meta["timeo"], "res": classify(x["res"]), "dur": int(x.get("dur", 0))})
                owners.append((sc["name"], "send", x, rp))
            if r["hung"]:
                ctx.violation("C14:call-hangs:send:%d" % meta["timeo"], "%s: send() never returned: %s" % (sc["name"], r["hung"]), rp)
            rs = next((x["t"] for x in r["records"] if x.get("ev") == "mark" and x.get("name") == "reader_start"), None)
            if rs is not None:
                before = [x for x in sends if x["t"] < rs and x["res"] == "ok"]
                kernel = math.ceil((4 * 2 * 65536 if meta["transport"] == "tcp" else 4 * 1024 * 1024) / meta["size"])
                bound = 2 * meta["hwm"] + 2 * meta["hwm"] + 16 + kernel
                ctx.extra.setdefault("accepted_while_reader_stalled", {})[sc["name"]] = {"accepted": len(before), "bound": bound}
                if len(before) > bound:
                    ctx.violation("C14:unbounded-buffering:%s" % meta["transport"],
                                  "%s: with SNDHWM=RCVHWM=%d, %d messages of %d bytes were accepted while the receiver read nothing (bound 2*SNDHWM + 2*RCVHWM + 16 + kernel allowance = %d)" % (
                                      sc["name"], meta["hwm"], len(before), meta["size"], bound), rp)
            rxsock = "rx"
            ev = S.history_to_delivery_trace(r, ["tx"], [rxsock])
            deliv_runs.append((sc["name"], ev, rp))
        else:
            recvs = S.rets(r, "recv", sock="rx")
            for x in recvs:
                calls.append({"timeo": meta["timeo"], "res": classify(x["res"]), "dur": int(x.get("dur", 0))})
                owners.append((sc["name"], "recv", x, rp))
            if r["hung"]:
                ctx.violation("C14:call-hangs:recv:%d" % meta["timeo"], "%s: recv() never returned: %s" % (sc["name"], r["hung"]), rp)
            if meta["timeo"] == -1 and len([x for x in recvs if x["res"] == "ok"]) != 2:
                ctx.violation("C14:recv-inf", "%s: with RCVTIMEO=-1 recv() returned %s instead of waiting for the two messages" % (sc["name"], [x["res"] for x in recvs]), rp)
            if meta["timeo"] == 0 and recvs and recvs[0]["res"] == "ok":
                ctx.violation("C14:spurious-success", "%s: recv() succeeded although nothing had been sent yet" % sc["name"], rp)
    ctx.sample({"from": "recorded calls", "calls": calls[:6]})
    # timeout clauses by TLC
    pending = 0
    guard = 0
    while pending < len(calls) and guard < 12:
        guard += 1
        path = os.path.join(ctx.work, "timeo_%d.ndjson" % guard)
        with open(path, "w") as f:
            for c in calls[pending:]:
                f.write(json.dumps(c) + "\n")
        tres = ctx.trace_check("Trace_Timeo", "Trace_Timeo.cfg", path)
        ctx.extra["api_calls_validated"] = ctx.extra.get("api_calls_validated", 0) + max(tres.generated - 1, 0)
        if not tres.rejected:
            break
        at = pending + tres.rejected[0][1]
        name, op, x, rp = owners[at]
        c = calls[at]
        ctx.violation("C14:timeo:%s:%s:%s" % (op, "inf" if c["timeo"] < 0 else ("0" if c["timeo"] == 0 else "pos"), c["res"]),
                      "%s: %s() with %sTIMEO=%d returned %s after %d ms" % (name, op, "SND" if op == "send" else "RCV", c["timeo"], x["res"], c["dur"]), rp)
        pending = at + 1
    for (label, bad, rp) in S.validate_delivery(ctx, deliv_runs, "c14"):
        ctx.violation("C14:%s" % S.rejection_code(bad), "%s: %s" % (label, S.describe_rejection(bad)), dict(rp, rejected_record=bad))
    ctx.assumptions += [
        "timing: lower bounds exact to 2 ms, upper bounds with 2 s slack",
        "kernel socket buffers are outside rzmq: SO_SNDBUF/SO_RCVBUF are set to 64 KiB over tcp and an allowance of 4x their sum is granted",
    ]


def replay(path):
    print("socket-level replay: re-run `python3 tools/check.py C14 --tier quick`")
    return 0
