"""C12 - SUB delivers exactly the messages its current subscriptions match.

Spec    : spec/PubSub.tla - subscriptions as a counted set of byte-string prefixes; Matches(m) is the
          two-line reference. spec/Delivery.tla in fan-out mode for per-publisher order / no duplicates.
TLC     : every history of <= 4 subscribe/unsubscribe calls over topics of <= 2 symbols (exhaustive export),
          simulated histories of 10 calls over topics of <= 3 symbols; RefCount, EmptyMatchesAll,
          NothingMatchesNothing.
Binding : B1 - every exported history is replayed on the real SubscriptionTrie (two byte mappings, incl.
          0x00/0xFF), matches() compared with the model for every message of <= 3/4 symbols after every
          call; a two-thread probe of "unsubscribing an unknown topic is never observable".
          B3 - real PUB/SUB sockets: subscribe / unsubscribe phases with multipart messages (filter on the
          first frame), delivered set compared with the model's Matches; histories validated by TLC
          against Delivery.tla (fan-out); a stalled subscriber must not block the publisher.
Beyond  : spec/SubSync.tla - what the SUB puts on the wire towards each publisher (SUBSCRIBE / CANCEL, the
          synchronisation of a connection that comes up or comes back); behaviours replayed on a real SUB
          socket whose publishers are raw ZMTP peers (`vh subsync`, both backends). NOTE only.
"""
import json
import os
import vlib
from props import socklib as S


def replay_trie(ctx, beh, tag, race=0, perturb=False):
    path = os.path.join(ctx.work, "trie_%s.jsonl" % tag)
    out = os.path.join(ctx.work, "trie_%s.out" % tag)
    vlib.write_jsonl(path, beh)
    args = ["trie", path, out]
    if race:
        args += ["--race", str(race)]
    if perturb:
        args += ["--perturb"]
    vlib.vh(args, timeout=1800)
    return json.load(open(out))


def matches(subs, first_frame):
    return any(cnt > 0 and first_frame.startswith(t) for t, cnt in subs.items())


def run(ctx):
    thorough = ctx.tier == "thorough"
    vlib.cargo_build()
    ex = ctx.model_check("MC_PubSub", "MC_PubSub_quick.cfg", workers=8, timeout=900, coverage=False)
    ctx.exhaustive = True
    sim = ctx.model_check("MC_PubSub", "MC_PubSub_sim.cfg", workers=1, simulate=6000 if thorough else 600, depth=30, seed=ctx.seed, timeout=900)
    beh = ex.replays + sim.replays
    if not beh:
        raise vlib.ToolError("no histories exported")
    ctx.sample({"from": "MC_PubSub_sim", "history": [{"op": s["op"], "t": s["t"]} for s in sim.replays[0]["steps"]]})
    r = replay_trie(ctx, beh, "all", race=20000000 if thorough else 3000000)
    ctx.traces += r["runs"]
    for i in r["race_issues"]:
        ctx.violation("C12:%s" % i["code"], i["detail"], {"kind": "race-probe", "issue": i})
    for o in r["outcomes"]:
        for i in o["issues"]:
            if i["class"] == "prop":
                ctx.violation("C12:trie:%s" % i["code"], "%s (%s bytes): %s" % (i["code"], o["mapping"], i["detail"][:400]),
                              {"kind": "tlc-behaviour", "module": "MC_PubSub", "mapping": o["mapping"], "behaviour": beh[o["index"]], "issue": i})
            elif i["class"] == "drift":
                ctx.drift += 1
                ctx.note("drift: %s" % i["detail"][:200])
    st = replay_trie(ctx, sim.replays[:20], "self", perturb=True)
    flagged = sum(1 for o in st["outcomes"] if any(i["class"] == "selftest" for i in o["issues"]))
    ctx.selftest["perturbed_match_expectation_rejected"] = "%d/%d" % (flagged, st["runs"])
    if flagged < st["runs"]:
        raise vlib.ToolError("binding self-test failed")

    # ---- what the SUB tells its publishers (SubSync.tla) ----
    # Not in the words of C12 (rzmq's PUB does not filter, so it cannot be seen between two rzmq sockets),
    # but a publisher that filters at its own end only sends what it was told about: a disagreement is
    # reported as a NOTE, never as a violation.
    ctx.model_check("MC_SubSync", "MC_SubSync_quick.cfg", workers=8, timeout=900, coverage=False)
    sssim = ctx.model_check("MC_SubSync", "MC_SubSync_sim.cfg", workers=1, simulate=400 if thorough else 60, depth=12, seed=ctx.seed, timeout=900)
    if not sssim.replays:
        raise vlib.ToolError("no SubSync behaviours exported")
    sp = os.path.join(ctx.work, "subsync.jsonl")
    so = os.path.join(ctx.work, "subsync.out")
    vlib.write_jsonl(sp, sssim.replays)
    vlib.vh(["subsync", sp, so, "--both", "--limit", 400 if thorough else 60], timeout=1500)
    sr = json.load(open(so))
    ctx.traces += sr["runs"]
    ctx.sample({"from": "MC_SubSync_sim", "history": [[s["op"], s["t"] or s["p"]] for s in sssim.replays[0]["steps"]]})
    for o in sr["outcomes"]:
        for i in o["issues"]:
            if i["class"] == "tool":
                raise vlib.ToolError("subsync replay: %s" % i["detail"])
            ctx.drift += 1
            ctx.note("SubSync (%s, beyond C12): %s: %s" % (o["backend"], i["code"], i["detail"][:500]))
    stb = [b for b in sssim.replays if any(e["up"] for e in b["steps"][-1]["exp"].values())][:12]
    vlib.write_jsonl(sp + ".self", stb)
    vlib.vh(["subsync", sp + ".self", so + ".self", "--limit", 12, "--perturb"], timeout=600)
    st2 = json.load(open(so + ".self"))
    ctx.selftest["subsync_falsified_last_expectation_rejected"] = "%d/%d" % (st2["with_issues"], st2["runs"])
    if st2["with_issues"] < st2["runs"]:
        raise vlib.ToolError("SubSync binding self-test failed: %s" % ctx.selftest["subsync_falsified_last_expectation_rejected"])

    # ---- sockets ----
    A, B = b"a", b"\x00"
    phases = [
        ([("sub", A + A)], [A, A + A, A + A + B, B, A + B]),
        ([("sub", A + A)], [A + A, A]),                          # subscribed twice
        ([("unsub", A + A)], [A + A + A, A + B]),                # still once
        ([("unsub", A + A), ("unsub", B + B)], [A + A, B + B]),  # gone; unknown unsubscribe is a no-op
        ([("sub", b"")], [A, B, b"zz"]),                         # empty prefix matches everything
        ([("unsub", b""), ("sub", B)], [B + A, A + B, B]),
    ]
    scs = []
    for tr in ["tcp", "ipc", "inproc"]:
        scs.append(S.pubsub_filter("filter-%s" % tr, tr, phases))
    scs.append(S.pubsub_filter("filter-tcp-uring", "tcp", phases, uring=True))
    scs.append(S.pubsub_stall("stall-tcp", "tcp", n=500 if thorough else 300, size=262144))
    res = S.run_scenarios(ctx, scs, "c12", timeout=1500)
    fan_runs = []
    for sc, r in zip(scs, res):
        rp = {"kind": "recorded-trace", "scenario": sc["name"], "records": [x for x in r["records"] if x.get("ev") in ("ret", "mark")][:300], "hung": r["hung"], "panics": r["panics"]}
        if sc["name"].startswith("filter"):
            # expected set per phase from the reference semantics (same as PubSub!Matches)
            subs = {}
            expected = []
            k = 0
            for ops, topics in phases:
                for (o, t) in ops:
                    if o == "sub":
                        subs[t] = subs.get(t, 0) + 1
                    elif subs.get(t, 0) > 0:
                        subs[t] -= 1
                for t in topics:
                    k += 1
                    if matches(subs, t):
                        expected.append("p:%d" % k)
            got = []
            for x in S.rets(r, "recv_mp", sock="sub"):
                if x.get("res") == "ok":
                    ids = [i for i in x.get("ids", []) if not i.startswith("?") and i != ""]
                    got.append(ids[0].rsplit(".", 1)[0] if ids else "?")
            if got != expected:
                missing = [m for m in expected if m not in got]
                extra = [m for m in got if m not in expected]
                backend = "io_uring" if sc.get("uring") else "tokio"
                ctx.violation("C12:filter:%s:%s" % ("extra" if extra else "missing" if missing else "order", backend),
                              "%s: SUB received %s but its subscriptions match %s (missing %s, unexpected %s)" % (sc["name"], got, expected, missing, extra), rp)
        else:
            durs = [x.get("dur", 0) for x in S.rets(r, "send", sock="pub")]
            worst = max(durs or [0])
            if worst > 2000 or r["hung"]:
                ctx.violation("C12:publisher-blocked", "a stalled subscriber blocked the publisher: slowest PUB send() took %d ms%s" % (worst, " and the run hung: %s" % r["hung"] if r["hung"] else ""), rp)
            ev = S.history_to_delivery_trace(r, ["pub"], ["good"])
            fan_runs.append((sc["name"], ev, rp))
            got_good = [x for x in S.rets(r, "recv", sock="good") if x.get("res") == "ok"]
            nsent = len([x for x in S.rets(r, "send", sock="pub") if x.get("res") == "ok"])
            if nsent and (not got_good or int(got_good[-1]["mid"].split(":")[1]) < 0.8 * nsent):
                ctx.violation("C12:good-subscriber-starved", "with one stalled subscriber the reading subscriber got %d of %d messages (last %s)" % (
                    len(got_good), nsent, got_good[-1]["mid"] if got_good else "none"), rp)
        if r["panics"]:
            ctx.violation("C12:panic", "panic: %s" % r["panics"][0], rp)
    for (label, bad, rp) in S.validate_delivery(ctx, fan_runs, "c12", fanout=True):
        ctx.violation("C12:%s" % S.rejection_code(bad), "%s: %s" % (label, S.describe_rejection(bad)), dict(rp, rejected_record=bad))
    ctx.assumptions += [
        "socket level: a phase's messages are published 60 ms after the subscription calls returned (filtering happens at the SUB side when a message reaches it)",
        "the race probe is statistical (millions of iterations), not exhaustive",
    ]


def replay(path):
    rp = json.load(open(path))
    ctx = vlib.Ctx("C12", "quick", rp.get("seed", 1))
    vlib.cargo_build()
    if rp["replay"].get("behaviour"):
        r = replay_trie(ctx, [rp["replay"]["behaviour"]], "one")
        bad = [i for o in r["outcomes"] for i in o["issues"] if i["class"] == "prop"]
    else:
        r = replay_trie(ctx, [], "one", race=20000000)
        bad = r["race_issues"]
    for i in bad:
        print("REPRODUCED %s" % i["detail"])
    return 1 if bad else 0
