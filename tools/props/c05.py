"""C05 - handshakes converge, agree, and give one verdict on compatibility.

Spec    : spec/Engine.tla (the engine, token level) composed in spec/Peer.tla (two engines,
          two byte channels, scheduler) and spec/Script.tla (engine vs a legacy ZMTP/2.0 peer).
TLC     : MC_Peer_quick - representative socket pairs x {NULL, PLAIN good/bad password,
          ENC good/bad server key}, every delivery schedule incl. mid-token cuts; invariants
          NoStall, IncompatibleNeverUp, CompatibleNeverFails, Agree and the liveness properties
          Converge / BothFail under weak fairness.  MC_Peer_all - all 11 x 11 socket types.
          MC_Script_v2verdict - all 11 x 11 pairs against a ZMTP/2.0 peer (V2Verdict).
Binding : B1. Exported behaviours are replayed on two real ZmtpEngines (PLAIN, CURVE and
          Noise_XX for real), every step compared with the model (drift) and the property
          judged on what the real engines reported.
"""
import vlib
from props import enginelib as el


def run(ctx):
    thorough = ctx.tier == "thorough"
    vlib.cargo_build()
    ctx.model_check("MC_Peer", "MC_Peer_quick.cfg", workers=8, timeout=900)
    ctx.model_check("MC_Peer", "MC_Peer_all.cfg", workers=8, timeout=900)
    ctx.exhaustive = True
    allp = ctx.model_check("MC_Peer", "MC_Peer_allexport.cfg", workers=4, timeout=600, coverage=False)
    v2 = ctx.model_check("MC_Script", "MC_Script_v2verdict.cfg", workers=4, timeout=600, coverage=False)
    sim = ctx.model_check("MC_Peer", "MC_Peer_sim.cfg", workers=1, simulate=3000 if thorough else 300, depth=120,
                          seed=ctx.seed, timeout=1500)
    ctx.sample({"from": "MC_Peer_sim", "behaviour": el.need(sim, "Peer sim")[0]})
    ctx.sample({"from": "MC_Peer_allexport", "behaviour": el.need(allp, "Peer all")[5]})
    ctx.sample({"from": "MC_Script_v2verdict", "behaviour": el.need(v2, "v2 verdict")[7]})
    el.peer_replay(ctx, "C05", allp.replays, "all")
    el.peer_replay(ctx, "C05", sim.replays, "sim")
    # the ZMTP/2.0 verdict: a completed handshake exactly for valid pairings
    r = el.script_replay(ctx, "C05", v2.replays, "v2")
    # ... and the same verdict under every delivery schedule of the legacy peer's bytes (one read, one read per
    # token, one byte per read, random cuts): the engine must not depend on where a read ends
    el.segment_check(ctx, "C05", v2.replays, "v2seg", also=("C04",))    # here the outcome that differs is the handshake verdict itself
    ctx.extra["socket_type_pairs_v3"] = len(allp.replays)
    ctx.extra["socket_type_pairs_v2"] = len(v2.replays)
    el.selftest(ctx, "peer", sim.replays)
    inproc_verdicts(ctx, allp.replays)
    ctx.assumptions += [
        "ENC stands for CURVE and Noise_XX (both are replayed); cryptographic primitives are trusted",
        "a closed side takes the transport down (EOF at the peer) - modelled by the Eof actions",
        "inproc verdict: see known_findings (C05-b) - inproc keeps its own, narrower table",
    ]


def inproc_verdicts(ctx, behaviours):
    """The verdict of Peer.tla for every pair of the eight rzmq socket types, against what two real
    sockets do over inproc (connect() reports the refusal) and - for the pairs inproc refuses - over tcp."""
    from props import socklib as S
    real = ["PUB", "SUB", "REQ", "REP", "DEALER", "ROUTER", "PUSH", "PULL"]
    model = {}
    for b in behaviours:
        a, c = b["cfgA"]["st"], b["cfgB"]["st"]
        if a in real and c in real and b["cfgA"]["mech"] == "NULL" and b["cfgB"]["mech"] == "NULL":
            model[(a, c)] = any(x.get("a") == "hc" for st in b["steps"] for x in st.get("app", []))
    socks, ops = [], []
    for i, (a, c) in enumerate(sorted(model)):
        socks += [{"name": "c%d" % i, "type": a, "opts": []}, {"name": "b%d" % i, "type": c, "opts": []}]
        ops += [{"op": "bind", "sock": "b%d" % i, "ep": "inproc://verif_c05_%d" % i}, {"op": "connect", "sock": "c%d" % i, "ep": "inproc://verif_c05_%d" % i}]
    sc = {"name": "inproc-verdicts", "deadline_ms": 60000, "sockets": socks, "tasks": [{"name": "t", "ops": ops + [{"op": "sleep", "ms": 300}]}]}
    r = S.run_scenarios(ctx, [sc], "c05_inproc", timeout=300)[0]
    res = {x["sock"]: x["res"] for x in S.rets(r, "connect")}
    diff = 0
    for i, (a, c) in enumerate(sorted(model)):
        got = res.get("c%d" % i)
        if got is None:
            continue
        ok = got == "ok"
        if ok != model[(a, c)]:
            diff += 1
            ctx.violation("C05:inproc-table:%s-%s" % (a, c), "%s connecting to a bound %s: over ZMTP (Peer.tla, replayed on the real engines) the pair %s, over inproc connect() returns %s" % (
                a, c, "completes the handshake" if model[(a, c)] else "is refused", got),
                {"kind": "recorded-trace", "scenario": "inproc connect %s -> %s" % (a, c), "result": got})
    ctx.extra["inproc_pairs_compared"] = len(model)
    ctx.extra["inproc_pairs_differing"] = diff
    if r["panics"]:
        ctx.violation("C05:panic:inproc", "panic: %s" % r["panics"][0], {"kind": "recorded-trace", "scenario": "inproc verdicts"})


def replay(path):
    import json
    rp = json.load(open(path))
    ctx = vlib.Ctx("C05", "quick", rp.get("seed", 1))
    vlib.cargo_build()
    b = rp["replay"]["behaviour"]
    if rp["replay"]["harness"] == "peer":
        el.peer_replay(ctx, "C05", [b], "one")
    else:
        el.script_replay(ctx, "C05", [b], "one")
    for v in ctx.violations:
        print("REPRODUCED %s" % v["what"])
    return 1 if ctx.violations else 0
