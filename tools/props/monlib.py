"""Monitor conformance (Monitor.tla / MonitorObs.tla / Trace_Monitor.tla): the event streams read from
the monitor channels of real sockets are judged by the observer of the specification."""
import json, os
import vlib


def conn_of(ev):
    k, e, p = ev["event"], ev.get("endpoint", ""), ev.get("peer", "")
    if k == "Accepted":
        return p if "://" in p else e.split("://")[0] + "://" + p
    if k == "Connected":
        return p if "://" in p else e
    return e


def stream_to_trace(events, closed):
    """events: the monitor records of ONE socket in the order they were read."""
    lis, con, tgt, out = [], [], [], []
    for ev in events:
        k, e = ev["event"], ev.get("endpoint", "")
        c = conn_of(ev)
        if k in ("Listening", "Closed", "Accepted", "BindFailed", "AcceptFailed"):
            if e not in lis:
                lis.append(e)
        if k in ("Connected", "ConnectDelayed", "ConnectRetried", "ConnectFailed"):
            if e not in tgt:
                tgt.append(e)
            if e not in con:
                con.append(e)
        if c not in con and k not in ("Listening", "Closed", "BindFailed", "AcceptFailed"):
            con.append(c)
        # a Closed for something that is a connection, not a listener, is looked up in both
        if k == "Closed" and e not in con:
            con.append(e)
        out.append({"t": "ev", "k": k, "e": e, "c": c})
    tr = [{"t": "reset", "lis": lis, "con": con, "tgt": tgt}] + out
    if closed:
        tr.append({"t": "closed"})
    return tr


def socket_streams(result):
    """-> {sock: ([event records], closed?)} of one scenario result; `closed` when the socket's close()
    returned ok before the last drain of its monitor."""
    ev, closed = {}, {}
    for x in result["records"]:
        if x.get("ev") == "event":
            ev.setdefault(x["sock"], []).append(x)
        if x.get("ev") == "ret" and x.get("op") == "close" and x.get("res") == "ok":
            closed[x["sock"]] = True
    return {s: (e, closed.get(s, False)) for s, e in ev.items()}


def validate(ctx, named_streams, tag="mon"):
    """named_streams: [(name, events, closed)] -> list of (name, index of rejected record, record)"""
    pending = list(range(len(named_streams)))
    traces = [stream_to_trace(e, c) for (_, e, c) in named_streams]
    rejected, guard = [], 0
    while pending and guard < 40:
        guard += 1
        flat, starts = [], []
        for i in pending:
            starts.append((len(flat), i))
            flat += traces[i]
        path = os.path.join(ctx.work, "%s_%d.ndjson" % (tag, guard))
        vlib.write_jsonl(path, flat)
        res = ctx.trace_check("Trace_Monitor", "Trace_Monitor.cfg", path)
        ctx.extra["monitor_events_validated"] = ctx.extra.get("monitor_events_validated", 0) + max(res.generated - 1, 0)
        if not res.rejected:
            break
        at = res.rejected[0][1]
        own = max((s for s in starts if s[0] <= at), key=lambda s: s[0])
        rejected.append((named_streams[own[1]][0], at - own[0], traces[own[1]][at - own[0]], traces[own[1]]))
        pending = [i for i in pending if i > own[1]]
    return rejected


# ---------------------------------------------------------------------------------------------
# scenarios
def _drain(s, ms=400):
    return {"op": "drain_events", "sock": s, "timeout_ms": ms}


def build(thorough):
    from props import socklib as S
    from props import c17
    scs = []
    RIVL = S.i32(S.RECONNECT_IVL, 100)

    def basic(name, transport, uring=False):
        ep = S.endpoint(transport, "mon")
        u = [S.i32(S.IO_URING_SESSION_ENABLED, 1)] if uring else []
        return {"name": name, "uring": uring, "deadline_ms": 30000,
                "sockets": [{"name": "tx", "type": "PUSH", "opts": [RIVL] + u}, {"name": "rx", "type": "PULL", "opts": u}, {"name": "rx2", "type": "PULL", "opts": u}],
                "tasks": [
                    {"name": "rx", "ops": [{"op": "monitor", "sock": "rx"}, {"op": "bind", "sock": "rx", "ep": ep, "save": "ep"}, {"op": "barrier", "name": "go", "parties": 2},
                                           {"op": "recv_n", "sock": "rx", "n": 10, "timeout_ms": 3000}, {"op": "sleep", "ms": 300}, {"op": "close", "sock": "rx", "timeout_ms": 5000},
                                           _drain("rx"), {"op": "sleep", "ms": 600}, {"op": "monitor", "sock": "rx2"}, {"op": "bind", "sock": "rx2", "ep": "$ep"},
                                           {"op": "recv_n", "sock": "rx2", "n": 5, "timeout_ms": 4000}, {"op": "barrier", "name": "end", "parties": 2},
                                           {"op": "sleep", "ms": 400}, {"op": "close", "sock": "rx2", "timeout_ms": 5000}, _drain("rx2")]},
                    {"name": "tx", "ops": [{"op": "monitor", "sock": "tx"}, {"op": "barrier", "name": "go", "parties": 2}, {"op": "connect", "sock": "tx", "ep": "$ep"},
                                           {"op": "send_n", "sock": "tx", "prefix": "a", "n": 10, "sizes": [20], "timeout_ms": 3000}, {"op": "sleep", "ms": 1800},
                                           {"op": "send_n", "sock": "tx", "prefix": "b", "n": 5, "sizes": [20], "timeout_ms": 4000}, {"op": "sleep", "ms": 200},
                                           {"op": "close", "sock": "tx", "timeout_ms": 5000}, _drain("tx"), {"op": "barrier", "name": "end", "parties": 2}]}]}

    def dead(name):
        return {"name": name, "deadline_ms": 20000, "sockets": [{"name": "tx", "type": "PUSH", "opts": [RIVL]}],
                "tasks": [{"name": "tx", "ops": [{"op": "monitor", "sock": "tx"}, {"op": "connect", "sock": "tx", "ep": "tcp://127.0.0.1:9"}, {"op": "sleep", "ms": 900},
                                                 {"op": "close", "sock": "tx", "timeout_ms": 5000}, _drain("tx")]}]}

    def faults(name, kinds, hub_type="PULL", peer=b"PUSH"):
        F = c17.raw_faults(peer)
        evil = []
        for i, k in enumerate(kinds):
            rn = "e%d" % i
            evil += [{"op": "raw_connect", "raw": rn, "ep": "$ep"}] + c17.raw_fault_ops(rn, F[k]) + [{"op": "sleep", "ms": 60}]
        return {"name": name, "deadline_ms": 40000,
                "sockets": [{"name": "hub", "type": hub_type, "opts": []}, {"name": "good", "type": "PUSH" if hub_type == "PULL" else "DEALER", "opts": [RIVL]}],
                "tasks": [{"name": "h", "ops": [{"op": "monitor", "sock": "hub"}, {"op": "bind", "sock": "hub", "ep": "tcp://127.0.0.1:0", "save": "ep"},
                                                {"op": "barrier", "name": "go", "parties": 3}, {"op": "recv_n", "sock": "hub", "n": 60, "timeout_ms": 2500, "multipart": hub_type == "ROUTER"},
                                                {"op": "barrier", "name": "end", "parties": 3}, {"op": "close", "sock": "hub", "timeout_ms": 5000}, _drain("hub")]},
                          {"name": "g", "ops": [{"op": "monitor", "sock": "good"}, {"op": "barrier", "name": "go", "parties": 3}, {"op": "connect", "sock": "good", "ep": "$ep"},
                                                {"op": "send_n", "sock": "good", "prefix": "g", "n": 40, "sizes": [50], "pace_us": 20000, "timeout_ms": 3000, "max_errs": 3},
                                                {"op": "barrier", "name": "end", "parties": 3}, {"op": "sleep", "ms": 300}, {"op": "close", "sock": "good", "timeout_ms": 5000}, _drain("good")]},
                          {"name": "e", "ops": [{"op": "barrier", "name": "go", "parties": 3}, {"op": "sleep", "ms": 100}] + evil + [{"op": "barrier", "name": "end", "parties": 3}]}]}

    def midhs(name, who):
        """the socket is closed while a connection is still in its handshake (the peer is a silent raw socket)"""
        if who == "listener":
            return {"name": name, "deadline_ms": 20000, "sockets": [{"name": "hub", "type": "PULL", "opts": [S.i32(S.HANDSHAKE_IVL, 3000)]}],
                    "tasks": [{"name": "h", "ops": [{"op": "monitor", "sock": "hub"}, {"op": "bind", "sock": "hub", "ep": "tcp://127.0.0.1:0", "save": "ep"},
                                                    {"op": "barrier", "name": "go", "parties": 2}, {"op": "sleep", "ms": 300}, {"op": "close", "sock": "hub", "timeout_ms": 6000}, _drain("hub")]},
                              {"name": "e", "ops": [{"op": "barrier", "name": "go", "parties": 2}, {"op": "raw_connect", "raw": "c", "ep": "$ep"}, {"op": "sleep", "ms": 1200}]}]}
        return {"name": name, "deadline_ms": 20000, "sockets": [{"name": "tx", "type": "PUSH", "opts": [RIVL, S.i32(S.HANDSHAKE_IVL, 3000)]}],
                "tasks": [{"name": "l", "ops": [{"op": "raw_listen", "raw": "L", "save": "lep"}, {"op": "barrier", "name": "go", "parties": 2},
                                                {"op": "raw_accept_loop", "listener": "L", "n": 3, "mode": "hold", "timeout_ms": 1500}]},
                          {"name": "t", "ops": [{"op": "monitor", "sock": "tx"}, {"op": "barrier", "name": "go", "parties": 2}, {"op": "connect", "sock": "tx", "ep": "$lep"},
                                                {"op": "sleep", "ms": 400}, {"op": "close", "sock": "tx", "timeout_ms": 6000}, _drain("tx")]}]}

    def manual(name):
        """unbind() and disconnect() by the application, then the same endpoints again"""
        return {"name": name, "deadline_ms": 30000, "sockets": [{"name": "tx", "type": "PUSH", "opts": [RIVL]}, {"name": "rx", "type": "PULL", "opts": []}],
                "tasks": [{"name": "rx", "ops": [{"op": "monitor", "sock": "rx"}, {"op": "bind", "sock": "rx", "ep": "tcp://127.0.0.1:0", "save": "ep"}, {"op": "barrier", "name": "go", "parties": 2},
                                                 {"op": "recv_n", "sock": "rx", "n": 5, "timeout_ms": 3000}, {"op": "barrier", "name": "b1", "parties": 2},
                                                 {"op": "sleep", "ms": 300}, {"op": "unbind", "sock": "rx", "ep": "$ep"}, {"op": "sleep", "ms": 300}, {"op": "bind", "sock": "rx", "ep": "$ep"},
                                                 {"op": "barrier", "name": "b2", "parties": 2}, {"op": "recv_n", "sock": "rx", "n": 5, "timeout_ms": 3000},
                                                 {"op": "barrier", "name": "end", "parties": 2}, {"op": "sleep", "ms": 300}, {"op": "close", "sock": "rx", "timeout_ms": 5000}, _drain("rx")]},
                          {"name": "tx", "ops": [{"op": "monitor", "sock": "tx"}, {"op": "barrier", "name": "go", "parties": 2}, {"op": "connect", "sock": "tx", "ep": "$ep"},
                                                 {"op": "send_n", "sock": "tx", "prefix": "a", "n": 5, "sizes": [20], "timeout_ms": 3000},
                                                 {"op": "barrier", "name": "b1", "parties": 2}, {"op": "disconnect", "sock": "tx", "ep": "$ep"},
                                                 {"op": "barrier", "name": "b2", "parties": 2}, {"op": "connect", "sock": "tx", "ep": "$ep"},
                                                 {"op": "send_n", "sock": "tx", "prefix": "b", "n": 5, "sizes": [20], "timeout_ms": 3000},
                                                 {"op": "barrier", "name": "end", "parties": 2}, {"op": "close", "sock": "tx", "timeout_ms": 5000}, _drain("tx")]}]}

    def plainbad(name):
        srv = [S.i32(S.PLAIN_SERVER, 1)]
        cli = [[S.PLAIN_USERNAME, "str", "admin"], [S.PLAIN_PASSWORD, "str", "wrong"], RIVL]
        return {"name": name, "deadline_ms": 20000, "sockets": [{"name": "hub", "type": "PULL", "opts": srv}, {"name": "bad", "type": "PUSH", "opts": cli}],
                "tasks": [{"name": "h", "ops": [{"op": "monitor", "sock": "hub"}, {"op": "bind", "sock": "hub", "ep": "tcp://127.0.0.1:0", "save": "ep"},
                                                {"op": "barrier", "name": "go", "parties": 2}, {"op": "sleep", "ms": 900}, {"op": "close", "sock": "hub", "timeout_ms": 5000}, _drain("hub")]},
                          {"name": "b", "ops": [{"op": "monitor", "sock": "bad"}, {"op": "barrier", "name": "go", "parties": 2}, {"op": "connect", "sock": "bad", "ep": "$ep"},
                                                {"op": "sleep", "ms": 700}, {"op": "close", "sock": "bad", "timeout_ms": 5000}, _drain("bad")]}]}

    scs.append(basic("mon-basic-tcp", "tcp"))
    scs.append(basic("mon-basic-ipc", "ipc"))
    scs.append(dead("mon-dead"))
    kinds = list(c17.raw_faults(b"PUSH"))
    scs.append(faults("mon-faults-a", kinds[:5]))
    scs.append(faults("mon-faults-b", kinds[5:]))
    scs.append(midhs("mon-midhs-listener", "listener"))
    scs.append(midhs("mon-midhs-connecter", "connecter"))
    scs.append(manual("mon-manual"))
    if hasattr(S, "PLAIN_SERVER"):
        scs.append(plainbad("mon-plainbad"))
    scs.append(basic("mon-basic-uring", "tcp", uring=True))
    if thorough:
        scs.append(basic("mon-basic-inproc", "inproc"))
        scs.append(faults("mon-faults-router", kinds, hub_type="ROUTER", peer=b"DEALER"))
    return scs


def check(ctx, thorough=False, report="note"):
    """Runs the monitor scenarios and judges every monitored socket's event stream with Trace_Monitor.
    The monitor contract is not one of the listed properties: a rejected stream is reported as a NOTE
    (specification drift to look at), never as a VIOLATION."""
    from props import socklib as S
    scs = build(thorough)
    res = S.run_scenarios(ctx, scs, "mon", timeout=600, jobs=4)
    named = []
    for sc, r in zip(scs, res):
        if r["hung"] or r["panics"]:
            ctx.note("monitor scenario %s: hung=%s panics=%s" % (sc["name"], r["hung"], r["panics"][:1]))
        for s, (ev, closed) in sorted(socket_streams(r).items()):
            named.append(("%s/%s" % (sc["name"], s), ev, closed))
    kinds = {}
    for (n, ev, closed) in named:
        for x in ev:
            kinds[x["event"]] = kinds.get(x["event"], 0) + 1
        ctx.sample({"stream": n, "closed": closed, "events": [x["event"] for x in ev][:40]})
    ctx.extra["monitor_event_kinds"] = kinds
    rej = validate(ctx, named)
    ctx.extra["monitor_streams"] = len(named)
    ctx.extra["monitor_streams_rejected"] = [n for (n, _, _, _) in rej]
    for (n, at, recd, tr) in rej:
        ctx.note("monitor stream %s: record %d %s is not allowed by Monitor.tla after %s" % (
            n, at, json.dumps(recd), json.dumps([x.get("k", x["t"]) for x in tr[max(1, at - 6):at]])))
    # binding self-test: a stream with one announcement removed must be rejected
    for (n, ev, closed) in named:
        idx = next((i for i, x in enumerate(ev) if x["event"] in ("Accepted", "Connected")), None)
        if idx is not None and any(x["event"] == "Disconnected" for x in ev[idx:]) and n not in ctx.extra["monitor_streams_rejected"]:
            bad = validate(ctx, [(n + "/perturbed", ev[:idx] + ev[idx + 1:], closed)], tag="mon_pert")
            ctx.selftest["perturbed_monitor_stream_rejected"] = bool(bad)
            if not bad:
                raise vlib.ToolError("binding self-test failed: a monitor stream without its Accepted / Connected event was accepted")
            break
    return rej
