"""C06 - a configured security mechanism cannot be bypassed or downgraded.

Spec    : spec/Script.tla - one engine (PLAIN / ENC, listener and connector, ALLOW_ZMTP2 on/off)
          against an attacker that may send any token of the grammar (greeting revision 0..4,
          mechanism field NULL/PLAIN/ENC/unknown, as-server bit, then any sequence of READY,
          HELLO/WELCOME/INITIATE-shaped rounds without a valid secret, ERROR, unknown command,
          PING, data frames with/without MORE, oversize frames, forged records, v2 type byte).
TLC     : exhaustive to depth 6 with up to 2 unread tokens per read: NoBypass, PlainClientPath,
          NoDataBeforeHc, NoV2WhenRefused.
Binding : B1. Simulated attacker behaviours (depth 7, mid-token cuts) are concretised to bytes by
          the harness (its own token->bytes table) and fed to the real engine built through the
          real option path, with CURVE and with Noise_XX; plus byte-level mutations of each
          behaviour; and, exhaustively, the role-confusion family (MC_Script_roleflip: a well-formed
          greeting naming the configured mechanism with either as-server bit, then every sequence of
          three frames out of HELLO / WELCOME / INITIATE without a secret, READY, data - written
          blindly, read one token at a time or at once).  The property is judged on the real AppActions: no HandshakeComplete and no
          DeliverMessage from a peer that proved nothing.
"""
import vlib
from props import enginelib as el


def run(ctx):
    thorough = ctx.tier == "thorough"
    vlib.cargo_build()
    ctx.model_check("MC_Script", "MC_Script_thorough.cfg" if thorough else "MC_Script_quick.cfg", workers=8, timeout=2400)
    ctx.exhaustive = True
    sim = ctx.model_check("MC_Script", "MC_Script_simsec.cfg", workers=1, simulate=12000 if thorough else 1200, depth=80,
                          seed=ctx.seed, timeout=1500)
    beh = el.need(sim, "Script sim (secured)")
    ctx.sample({"from": "MC_Script_simsec", "behaviour": beh[0]})
    ctx.sample({"from": "MC_Script_simsec", "behaviour": beh[len(beh) // 2]})
    el.script_replay(ctx, "C06", beh, "sec", mutate=6 if thorough else 2)
    # role confusion: the family random simulation reaches about once in 10^5 runs, exported exhaustively
    rf = ctx.model_check("MC_Script", "MC_Script_roleflip.cfg", workers=8, timeout=1500, coverage=False)
    rbeh = el.need(rf, "Script role-confusion family")
    ctx.sample({"from": "MC_Script_roleflip", "behaviour": rbeh[len(rbeh) // 3]})
    el.script_replay(ctx, "C06", rbeh, "roleflip")
    ctx.extra["roleflip_behaviours"] = len(rbeh)
    el.selftest(ctx, "script", beh)
    ctx.assumptions += [
        "the attacker cannot produce a mechanism round that needs a secret (wrong password / random boxes are what it sends)",
        "an ENC client cannot be refused by the server: rzmq has no allow-list (ZAP) - completing CURVE/Noise_XX with any own key pair counts as completing the mechanism",
        "socket-level path (session actor, monitor events) is covered by the C04/C07 socket checks",
    ]


def replay(path):
    import json
    rp = json.load(open(path))
    ctx = vlib.Ctx("C06", "quick", rp.get("seed", 1))
    vlib.cargo_build()
    el.script_replay(ctx, "C06", [rp["replay"]["behaviour"]], "one", mutate=4)
    for v in ctx.violations:
        print("REPRODUCED %s" % v["what"])
    return 1 if ctx.violations else 0
