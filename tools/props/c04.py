"""C04 - what a connection delivers depends on the bytes sent, not on read boundaries.

Spec    : spec/Peer.tla (two engines; InOrder, AllDelivered, HcFirst under every schedule,
          including data that shares a read with the last handshake bytes) and spec/Script.tla
          (v3 NULL, v3 PLAIN in either role and ZMTP/2.0 transcripts written blindly, 0..n data frames,
          every cut).
TLC     : MC_Peer_quick, MC_Script_open (exhaustive, cuts allowed).
Binding : B1 at engine level - Peer behaviours on two real engines (NULL, PLAIN, CURVE, Noise_XX),
          Script transcripts on one; and, stated on the real engine alone, the same byte stream
          fed under the TLC schedule / one read / token per read / byte per read / random cuts
          must give identical app actions.
          B3 at socket level - see run_sockets(): a raw TCP peer writes greeting + READY + data
          with chosen write boundaries against a real rzmq listener.
"""
import vlib
from props import enginelib as el


def run(ctx):
    thorough = ctx.tier == "thorough"
    vlib.cargo_build()
    ctx.model_check("MC_Peer", "MC_Peer_quick.cfg", workers=8, timeout=900)
    ctx.model_check("MC_Script", "MC_Script_open.cfg", workers=8, timeout=1200)
    ctx.exhaustive = True
    psim = ctx.model_check("MC_Peer", "MC_Peer_sim.cfg", workers=1, simulate=4000 if thorough else 400, depth=120,
                           seed=ctx.seed, timeout=1500)
    ssim = ctx.model_check("MC_Script", "MC_Script_simopen.cfg", workers=1, simulate=8000 if thorough else 800, depth=80,
                           seed=ctx.seed, timeout=1500)
    ctx.sample({"from": "MC_Peer_sim", "behaviour": el.need(psim, "Peer sim")[0]})
    ctx.sample({"from": "MC_Script_simopen", "behaviour": el.need(ssim, "Script sim")[0]})
    el.peer_replay(ctx, "C04", psim.replays, "sim")
    el.script_replay(ctx, "C04", ssim.replays, "open")
    el.segment_check(ctx, "C04", ssim.replays, "open")
    # blind PLAIN transcripts for both roles (WELCOME + READY + data may share one read)
    ctx.model_check("MC_Script", "MC_Script_transcripts_plain.cfg", workers=8, timeout=900)
    tsim = ctx.model_check("MC_Script", "MC_Script_simtranscripts_plain.cfg", workers=1, simulate=3000 if thorough else 400, depth=80,
                           seed=ctx.seed + 3, timeout=900)
    el.script_replay(ctx, "C04", el.need(tsim, "PLAIN transcripts"), "plain")
    el.segment_check(ctx, "C04", tsim.replays, "plain")
    el.selftest(ctx, "peer", psim.replays)
    try:
        from props import socklib
        socklib.c04_sockets(ctx)
    except ImportError:
        ctx.note("socket-level part not built yet")
    ctx.assumptions += [
        "engine level uses the real option path and real mechanisms; the io_uring handler's use of the engine is covered by C20",
    ]


def replay(path):
    import json
    rp = json.load(open(path))
    ctx = vlib.Ctx("C04", "quick", rp.get("seed", 1))
    vlib.cargo_build()
    b = rp["replay"]["behaviour"]
    if rp["replay"].get("harness") == "peer":
        el.peer_replay(ctx, "C04", [b], "one")
    else:
        el.script_replay(ctx, "C04", [b], "one")
        el.segment_check(ctx, "C04", [b], "one")
    for v in ctx.violations:
        print("REPRODUCED %s" % v["what"])
    return 1 if ctx.violations else 0
