"""C17 - one connection's failure stays local; lost outbound connections come back.

Spec    : spec/Isolation.tla - sockets owning inbound and outbound connections, faults of every kind on any
          connection at any moment, the owner's clean-up and retry; OnlyUserStops (invariant), FaultLocal (action
          property), ComesBack (liveness).  A switch describes the pinned revision (the refusal of an incompatible
          inproc connector returned as the binder's own error): TLC must find the violation under it.
          spec/Backoff.tla - the two delay computations of rzmq (ReconnectState::on_connection_failure in the
          socket core; the TCP connecter's own loop incl. the fast-forward of inherited attempts) transcribed:
          Starts, NeverBelow, Geometric, Capped, Inherit for all (RECONNECT_IVL, RECONNECT_IVL_MAX, history).
TLC     : both exhaustive (Isolation: 2 sockets, 3 connections, 2 fault kinds incl. liveness; Backoff: 5 x 6 option
          pairs, every history of 7 failures / successes).
Binding : B1 - every Backoff history replayed on the real ReconnectState, the delay compared at every step and
          the clauses re-evaluated on the code's own numbers.
          B3 - real sockets: a hub (PULL / ROUTER bound on tcp, ipc, inproc; PUSH connecting out) with a healthy
          peer streaming numbered messages while faults are injected on another connection (garbage in each
          phase, oversize frame, RST, half-close, wrong socket type raw and by real rzmq sockets, wrong PLAIN
          credentials, bursts of aborted connects), then a late peer; lost outbound connections against a raw
          listener that drops every connection (gaps between attempts), a dead port (the connecter's intervals,
          also while other sockets of the context come and go), a listener that goes away and comes back.  The
          history sets the variables of Isolation.tla in Trace_Isolation.tla; TLC evaluates OnlyUserStops on every
          state, FaultLocal / ComesBack at the end of each run, and Backoff's clauses on every measured gap.
"""
import json
import os
import vlib
from props import socklib as S

H = S.hexs


def raw_fault_ops(name, steps, unix=False):
    ops = []
    for st in steps:
        if st[0] == "w":
            ops.append({"op": "raw_write", "raw": name, "hex": H(st[1])})
        elif st[0] == "s":
            ops.append({"op": "sleep", "ms": st[1]})
        elif st[0] == "rst":
            ops.append({"op": "raw_close", "raw": name, "rst": True})
        elif st[0] == "close":
            ops.append({"op": "raw_close", "raw": name})
        elif st[0] == "half":
            ops.append({"op": "raw_shutdown", "raw": name})
    return ops


def raw_faults(peer_type):
    ok_ready = S.ready(peer_type)
    return {
        "garbage-greeting": [("w", b"GET / HTTP/1.1\r\n\r\n" + b"\x00" * 64), ("s", 200), ("close",)],
        "partial-greeting-close": [("w", S.greeting()[:11]), ("s", 100), ("close",)],
        "bad-handshake": [("w", S.greeting()), ("s", 50), ("w", S.frame(b"\x05HELLO" + b"\xff" * 20, cmd=True)), ("s", 200), ("close",)],
        "bad-mechanism": [("w", S.greeting(mech=b"BOGUS")), ("s", 200), ("close",)],
        "bad-data-flags": [("w", S.greeting()), ("w", ok_ready), ("s", 100), ("w", b"\xf8\x05abc"), ("s", 200), ("close",)],
        "oversize-frame": [("w", S.greeting()), ("w", ok_ready), ("s", 100), ("w", b"\x02" + (2 ** 62).to_bytes(8, "big") + b"x" * 100), ("s", 200), ("close",)],
        "rst-in-greeting": [("w", S.greeting()[:20]), ("s", 30), ("rst",)],
        "rst-in-data": [("w", S.greeting()), ("w", ok_ready), ("s", 100), ("w", S.frame(S.payload("evil:1", 40))[:20]), ("rst",)],
        "half-close": [("w", S.greeting()), ("w", ok_ready), ("s", 100), ("half",), ("s", 400), ("close",)],
        "wrong-type": [("w", S.greeting()), ("w", S.ready(b"REQ" if peer_type != b"REQ" else b"PUB")), ("s", 200), ("close",)],
    }


def hub_scenario(name, hub_type, good_type, transport, evil_tasks, evil_socks=(), hub_opts=(), good_opts=(), n=150, parties_extra=None):
    ep = S.endpoint(transport, "c17")
    mp = hub_type == "ROUTER"
    P = 2 + len(evil_tasks)
    gopts = list(good_opts) + ([[S.ROUTING_ID, "str", "good"]] if good_type == "DEALER" else [])
    lopts = list(good_opts) + ([[S.ROUTING_ID, "str", "late"]] if good_type == "DEALER" else [])
    tasks = [{"name": "h", "ops": [{"op": "bind", "sock": "hub", "ep": ep, "save": "ep"}, {"op": "barrier", "name": "go", "parties": P},
                                  {"op": "recv_n", "sock": "hub", "n": n + 60, "timeout_ms": 2200, "multipart": mp},
                                  {"op": "getopt", "sock": "hub", "id": S.RCVHWM}, {"op": "opt", "sock": "hub", "id": S.RCVHWM, "kind": "i32", "value": 900}]},
             {"name": "g", "ops": [{"op": "barrier", "name": "go", "parties": P}, {"op": "connect", "sock": "good", "ep": "$ep"},
                                  {"op": "send_n", "sock": "good", "prefix": "good", "n": n, "sizes": [100], "pace_us": 7000, "timeout_ms": 3000, "max_errs": 3},
                                  {"op": "connect", "sock": "late", "ep": "$ep"},
                                  {"op": "send_n", "sock": "late", "prefix": "late", "n": 40, "sizes": [100], "timeout_ms": 3000, "max_errs": 3}]}]
    for t in evil_tasks:
        t["ops"] = [{"op": "barrier", "name": "go", "parties": P}, {"op": "sleep", "ms": 300}, {"op": "mark", "name": "fault"}] + t["ops"]
        tasks.append(t)
    return {"name": name, "deadline_ms": 30000,
            "meta": {"kind": "hub", "hub": "hub", "conns": [["good", "hub", False], ["late", "hub", False], ["evil", "hub", False]], "socks": ["hub", "good", "late"]},
            "sockets": [{"name": "hub", "type": hub_type, "opts": list(hub_opts)}, {"name": "good", "type": good_type, "opts": gopts},
                        {"name": "late", "type": good_type, "opts": lopts}] + list(evil_socks),
            "tasks": tasks}


def out_hub_scenario(name, fault_mode):
    """the hub connects out: to a healthy PULL and to a raw listener that drops whatever connects"""
    return {"name": name, "deadline_ms": 30000,
            "meta": {"kind": "outhub", "conns": [["h", "hub", True], ["evil", "hub", True]], "socks": ["hub", "rx"]},
            "sockets": [{"name": "hub", "type": "PUSH", "opts": [S.i32(S.RECONNECT_IVL, 50), S.i32(S.RECONNECT_IVL_MAX, 200)]}, {"name": "rx", "type": "PULL", "opts": []}],
            "tasks": [{"name": "r", "ops": [{"op": "bind", "sock": "rx", "ep": "tcp://127.0.0.1:0", "save": "ep"}, {"op": "barrier", "name": "go", "parties": 3},
                                           {"op": "recv_n", "sock": "rx", "n": 400, "timeout_ms": 2000}]},
                      {"name": "l", "ops": [{"op": "raw_listen", "raw": "L", "save": "lep"}, {"op": "barrier", "name": "go", "parties": 3},
                                           {"op": "mark", "name": "fault"}, {"op": "raw_accept_loop", "listener": "L", "n": 12, "mode": fault_mode, "timeout_ms": 2500}]},
                      {"name": "g", "ops": [{"op": "barrier", "name": "go", "parties": 3}, {"op": "connect", "sock": "hub", "ep": "$ep"}, {"op": "connect", "sock": "hub", "ep": "$lep"},
                                           {"op": "sleep", "ms": 200},
                                           {"op": "send_n", "sock": "hub", "prefix": "h", "n": 300, "sizes": [100], "pace_us": 5000, "timeout_ms": 3000, "max_errs": 3},
                                           {"op": "getopt", "sock": "hub", "id": S.SNDHWM}]}]}


def flap_scenario(name, ivl, mx, mode):
    return {"name": name, "deadline_ms": 40000, "meta": {"kind": "flap", "ivl": ivl, "max": mx, "conns": [["c", "tx", True]], "socks": ["tx"]},
            "sockets": [{"name": "tx", "type": "PUSH", "opts": [S.i32(S.RECONNECT_IVL, ivl), S.i32(S.RECONNECT_IVL_MAX, mx)]}],
            "tasks": [{"name": "l", "ops": [{"op": "raw_listen", "raw": "L", "save": "lep"}, {"op": "barrier", "name": "go", "parties": 2},
                                           {"op": "raw_accept_loop", "listener": "L", "n": 7, "mode": mode, "timeout_ms": 5000}]},
                      {"name": "m", "ops": [{"op": "barrier", "name": "go", "parties": 2}, {"op": "connect", "sock": "tx", "ep": "$lep"}, {"op": "sleep", "ms": 4500},
                                           {"op": "getopt", "sock": "tx", "id": S.SNDHWM}]}]}


def flapgone_scenario(name, ivl, mx, nflap=6):
    """the peer drops the connection a few times, then its port goes dead: the connecter that is respawned
    inherits the attempt count and must still respect RECONNECT_IVL_MAX"""
    return {"name": name, "deadline_ms": 40000, "meta": {"kind": "flapgone", "ivl": ivl, "max": mx, "conns": [["c", "tx", True]], "socks": ["tx"]},
            "sockets": [{"name": "tx", "type": "PUSH", "opts": [S.i32(S.RECONNECT_IVL, ivl), S.i32(S.RECONNECT_IVL_MAX, mx)]}],
            "tasks": [{"name": "l", "ops": [{"op": "raw_listen", "raw": "L", "save": "lep"}, {"op": "barrier", "name": "go", "parties": 2},
                                           {"op": "raw_accept_loop", "listener": "L", "n": nflap, "mode": "close", "timeout_ms": 4000},
                                           {"op": "raw_drop_listener", "listener": "L"}, {"op": "mark", "name": "port_dead"}, {"op": "sleep", "ms": 2500}]},
                      {"name": "m", "ops": [{"op": "barrier", "name": "go", "parties": 2}, {"op": "monitor", "sock": "tx"}, {"op": "connect", "sock": "tx", "ep": "$lep"},
                                           {"op": "drain_events", "sock": "tx", "timeout_ms": 3000, "max_events": 60}, {"op": "getopt", "sock": "tx", "id": S.SNDHWM}]}]}


def dead_scenario(name, ivl, mx, churn=False):
    tasks = [{"name": "m", "ops": [{"op": "monitor", "sock": "tx"}, {"op": "connect", "sock": "tx", "ep": "tcp://127.0.0.1:9"},
                                  {"op": "drain_events", "sock": "tx", "timeout_ms": 1500, "max_events": 14}, {"op": "getopt", "sock": "tx", "id": S.SNDHWM}]}]
    if churn:
        ops = [{"op": "sleep", "ms": 100}]
        for i in range(40):
            ops += [{"op": "new_socket", "sock": "c%d" % i, "ctx": 0, "type": "PUSH"}, {"op": "sleep", "ms": 25}, {"op": "close", "sock": "c%d" % i}, {"op": "sleep", "ms": 25}]
        tasks.append({"name": "c", "ops": ops})
    return {"name": name, "deadline_ms": 40000, "meta": {"kind": "dead", "ivl": ivl, "max": mx, "churn": churn, "conns": [["c", "tx", True]], "socks": ["tx"]},
            "sockets": [{"name": "tx", "type": "PUSH", "opts": [S.i32(S.RECONNECT_IVL, ivl), S.i32(S.RECONNECT_IVL_MAX, mx)]}], "tasks": tasks}


def comeback_scenario(name, transport, ivl, mx, down_ms):
    """the listener goes away and comes back on the same address"""
    ep = "tcp://127.0.0.1:0" if transport == "tcp" else S.endpoint(transport, "c17cb")
    return {"name": name, "deadline_ms": 40000, "meta": {"kind": "comeback", "ivl": ivl, "max": mx, "down": down_ms, "conns": [["c", "tx", True], ["back", "tx", True]], "socks": ["tx"]},
            "sockets": [{"name": "tx", "type": "PUSH", "opts": [S.i32(S.RECONNECT_IVL, ivl), S.i32(S.RECONNECT_IVL_MAX, mx), S.i32(S.SNDTIMEO, 8000)]},
                        {"name": "rx1", "type": "PULL", "opts": []}, {"name": "rx2", "type": "PULL", "opts": []}],
            "tasks": [{"name": "r", "ops": [{"op": "bind", "sock": "rx1", "ep": ep, "save": "ep"}, {"op": "barrier", "name": "go", "parties": 2},
                                           {"op": "recv_n", "sock": "rx1", "n": 20, "timeout_ms": 3000}, {"op": "close", "sock": "rx1"}, {"op": "mark", "name": "down"},
                                           {"op": "sleep", "ms": down_ms}, {"op": "bind", "sock": "rx2", "ep": "$ep"}, {"op": "mark", "name": "back"},
                                           {"op": "recv_n", "sock": "rx2", "n": 30, "timeout_ms": 6000}]},
                      {"name": "t", "ops": [{"op": "barrier", "name": "go", "parties": 2}, {"op": "connect", "sock": "tx", "ep": "$ep"},
                                           {"op": "send_n", "sock": "tx", "prefix": "c", "n": 20, "sizes": [64], "timeout_ms": 3000},
                                           {"op": "sleep", "ms": down_ms + 400},
                                           {"op": "send_n", "sock": "tx", "prefix": "back", "n": 30, "sizes": [64], "max_errs": 2},
                                           {"op": "getopt", "sock": "tx", "id": S.SNDHWM}]}]}


def wrongpeer_scenario(name, ivl, mx, mode, nwrong=6):
    """whatever listens on the port answers every connection wrongly (garbage / FIN at once) - then a real PULL
    takes the port: the chain of retries must still be alive and traffic must start"""
    return {"name": name, "deadline_ms": 40000, "meta": {"kind": "comeback", "ivl": ivl, "max": mx, "down": 0, "conns": [["c", "tx", True], ["back", "tx", True]], "socks": ["tx"]},
            "sockets": [{"name": "tx", "type": "PUSH", "opts": [S.i32(S.RECONNECT_IVL, ivl), S.i32(S.RECONNECT_IVL_MAX, mx), S.i32(S.SNDTIMEO, 8000)]},
                        {"name": "rx2", "type": "PULL", "opts": []}],
            "tasks": [{"name": "r", "ops": [{"op": "raw_listen", "raw": "L", "save": "ep"}, {"op": "barrier", "name": "go", "parties": 2},
                                           {"op": "raw_accept_loop", "listener": "L", "n": nwrong, "mode": mode, "timeout_ms": 2500}, {"op": "raw_drop_listener", "listener": "L"},
                                           {"op": "mark", "name": "down"}, {"op": "sleep", "ms": 50}, {"op": "bind", "sock": "rx2", "ep": "$ep"}, {"op": "mark", "name": "back"},
                                           {"op": "barrier", "name": "isback", "parties": 2}, {"op": "recv_n", "sock": "rx2", "n": 30, "timeout_ms": 6000}]},
                      {"name": "t", "ops": [{"op": "barrier", "name": "go", "parties": 2}, {"op": "connect", "sock": "tx", "ep": "$ep"},
                                           # nothing is sent before the real peer is there (what is handed to a connection that never
                                           # completes its handshake is C13-d)
                                           {"op": "barrier", "name": "isback", "parties": 2}, {"op": "sleep", "ms": 700},
                                           {"op": "send_n", "sock": "tx", "prefix": "back", "n": 30, "sizes": [64], "max_errs": 2},
                                           {"op": "getopt", "sock": "tx", "id": S.SNDHWM}]}]}


def build(thorough):
    scs = []
    # --- inbound hub, raw faults over tcp
    for (hub, good, peer) in ([("PULL", "PUSH", b"PUSH"), ("ROUTER", "DEALER", b"DEALER")] if thorough else [("PULL", "PUSH", b"PUSH")]):
        faults = raw_faults(peer)
        names = sorted(faults) if thorough or hub == "PULL" else ["bad-data-flags", "rst-in-data"]
        for f in names:
            t = {"name": "evil", "ops": [{"op": "raw_connect", "raw": "evil", "ep": "$ep"}] + raw_fault_ops("evil", faults[f])}
            scs.append(hub_scenario("hub-%s-tcp-%s" % (hub.lower(), f), hub, good, "tcp", [t]))
    if not thorough:
        t = {"name": "evil", "ops": [{"op": "raw_connect", "raw": "evil", "ep": "$ep"}] + raw_fault_ops("evil", raw_faults(b"DEALER")["bad-data-flags"])}
        scs.append(hub_scenario("hub-router-tcp-bad-data-flags", "ROUTER", "DEALER", "tcp", [t]))
    # --- bursts
    for mode in ["rst", "garbage", "close"]:
        evil = []
        for j in range(3):
            ops = []
            for i in range(40 if thorough else 20):
                nm = "e%d_%d" % (j, i)
                ops.append({"op": "raw_connect", "raw": nm, "ep": "$ep"})
                if mode == "garbage":
                    ops.append({"op": "raw_write", "raw": nm, "hex": H(b"\x00" * 12)})
                ops.append({"op": "raw_close", "raw": nm, "rst": mode != "close"})
            evil.append({"name": "evil%d" % j, "ops": ops})
        scs.append(hub_scenario("hub-pull-tcp-burst-%s" % mode, "PULL", "PUSH", "tcp", evil))
    # --- a storm: enough short-lived connections to overrun the context's event bus (256 entries)
    evil = []
    for j in range(8):
        ops = []
        for i in range(80):
            nm = "s%d_%d" % (j, i)
            ops += [{"op": "raw_connect", "raw": nm, "ep": "$ep"}, {"op": "raw_write", "raw": nm, "hex": H(b"\x00" * 12)}, {"op": "raw_close", "raw": nm, "rst": True}]
        evil.append({"name": "evil%d" % j, "ops": ops})
    scs.append(hub_scenario("hub-pull-tcp-storm", "PULL", "PUSH", "tcp", evil))
    # --- real rzmq sockets of an incompatible type, over every transport
    for tr in ["tcp", "ipc", "inproc"]:
        for et in (["REQ", "SUB", "PULL"] if thorough else ["REQ"]):
            t = {"name": "evil", "ops": [{"op": "connect", "sock": "evil", "ep": "$ep"}, {"op": "sleep", "ms": 400}]}
            scs.append(hub_scenario("hub-pull-%s-rzmq-%s" % (tr, et.lower()), "PULL", "PUSH", tr, [t], evil_socks=[{"name": "evil", "type": et, "opts": []}]))
    # --- wrong credentials
    plain_srv = [[S.PLAIN_SERVER, "i32", 1], [S.PLAIN_USERNAME, "str", "user"], [S.PLAIN_PASSWORD, "str", "pass"]]
    plain_ok = [[S.PLAIN_USERNAME, "str", "user"], [S.PLAIN_PASSWORD, "str", "pass"]]
    plain_bad = [[S.PLAIN_USERNAME, "str", "user"], [S.PLAIN_PASSWORD, "str", "nope"]]
    for tr in (["tcp", "ipc"] if thorough else ["tcp"]):
        t = {"name": "evil", "ops": [{"op": "connect", "sock": "evil", "ep": "$ep"}, {"op": "send", "sock": "evil", "mid": "evil:1", "size": 30, "timeout_ms": 800}]}
        scs.append(hub_scenario("hub-pull-%s-plain-badpass" % tr, "PULL", "PUSH", tr, [t], evil_socks=[{"name": "evil", "type": "PUSH", "opts": plain_bad}],
                                hub_opts=plain_srv, good_opts=plain_ok))
    # --- the hub connects out
    for mode in (["close", "rst", "hold"] if thorough else ["close", "rst"]):
        scs.append(out_hub_scenario("outhub-%s" % mode, mode))
    # --- back-off
    pairs = [(50, 0), (50, 400), (100, 100), (20, 1000), (200, 300)] if thorough else [(50, 400), (100, 100)]
    for (ivl, mx) in pairs:
        for mode in (["close", "rst"] if thorough else ["close"]):
            scs.append(flap_scenario("flap-%s-%d-%d" % (mode, ivl, mx), ivl, mx, mode))
        scs.append(dead_scenario("dead-%d-%d" % (ivl, mx), ivl, mx))
    scs.append(flapgone_scenario("flapgone-50-200", 50, 200))
    if thorough:
        scs.append(flapgone_scenario("flapgone-100-150", 100, 150, nflap=3))
    scs.append(dead_scenario("deadchurn-300-0", 300, 0, churn=True))
    scs.append(dead_scenario("deadchurn-100-400", 100, 400, churn=True))
    for (tr, ivl, mx, down) in ([("tcp", 50, 200, 700), ("tcp", 100, 0, 400), ("ipc", 50, 200, 700), ("ipc", 100, 0, 400)] if thorough else [("tcp", 50, 200, 700), ("ipc", 50, 200, 700)]):
        scs.append(comeback_scenario("comeback-%s-%d-%d" % (tr, ivl, mx), tr, ivl, mx, down))
    for mode in ["garbage", "close"]:
        for rep in range(3 if thorough else 2):
            scs.append(wrongpeer_scenario("wrongpeer-%s-50-200-%d" % (mode, rep), 50, 200, mode))
    return scs


def classify(res):
    if res == "ok":
        return "ok"
    if res in ("err:InvalidState",) or res.startswith("err:Internal"):
        return "stopped"
    return "err"


def mid_of(x):
    if x.get("op") == "recv":
        return x.get("mid", "?")
    ids = [i for i in x.get("ids", []) if ":" in i and not i.startswith("?")]
    return ids[-1] if ids else "?"


def to_events(sc, meta, r):
    recs = r["records"]
    ev = [{"e": "reset", "socks": meta["socks"], "conns": meta["conns"]}]
    kind = meta["kind"]
    conn_names = [c[0] for c in meta["conns"]]
    sent = {}
    upped = set()
    closed = set()
    prev_attempt = None
    lost_at = None
    first_attempt_after_loss = True
    retried = []
    for x in recs:
        e, op = x.get("ev"), x.get("op")
        if e == "mark" and x.get("name") == "fault":
            ev.append({"e": "fault", "conn": "evil", "kind": sc["name"]})
        elif e == "ret" and op in ("recv", "recv_mp") and x.get("res") == "ok":
            mid = mid_of(x)
            tag, _, k = mid.rpartition(":")
            k = k.split(".")[0]
            conn = {"good": "good", "late": "late", "h": "h", "c": "c", "back": "back"}.get(tag)
            if conn in conn_names and k.isdigit():
                if conn not in upped:
                    upped.add(conn)
                    ev.append({"e": "up", "conn": conn})
                ev.append({"e": "deliver", "conn": conn, "k": int(k), "shared": kind == "outhub"})
            elif tag == "evil":
                pass
        elif e == "ret" and op == "close" and x.get("res") == "ok":
            closed.add(x["sock"])
            if x["sock"] in meta["socks"]:
                ev.append({"e": "close", "sock": x["sock"]})
        elif e == "ret" and op in ("send", "send_mp", "recv", "recv_mp", "getopt", "opt", "connect", "bind") and x.get("sock") in meta["socks"] and x["sock"] not in closed:
            res = x.get("res", "ok")
            if op in ("send", "send_mp") and res == "ok":
                tag = x["mid"].rpartition(":")[0]
                sent[tag] = sent.get(tag, 0) + 1
            if res != "ok" or op in ("getopt", "opt"):
                ev.append({"e": "op", "sock": x["sock"], "op": op, "res": classify(res), "detail": res})
        elif e == "ret" and op == "raw_accepted" and kind == "flap":
            t = x["t"]
            if prev_attempt is not None:
                ev.append({"e": "attempt", "conn": "c", "gap": t - prev_attempt, "ivl": meta["ivl"], "max": meta["max"], "first": first_attempt_after_loss, "k": x["k"]})
                first_attempt_after_loss = False
            prev_attempt = t
        elif e == "event" and x.get("event") == "ConnectRetried" and kind == "dead":
            retried.append(x)
        elif e == "event" and x.get("event") == "ConnectRetried" and kind == "flapgone":
            # the interval a (respawned) connecter announces is the delay it is about to sleep
            ev.append({"e": "attempt", "conn": "c", "gap": x["interval_ms"], "ivl": meta["ivl"], "max": meta["max"], "first": False, "k": len(ev), "nominal": True})
    if kind == "dead":
        for i, x in enumerate(retried[:12]):
            if meta.get("churn"):
                if i == 0:
                    continue
                ev.append({"e": "attempt", "conn": "c", "gap": x["t"] - retried[i - 1]["t"], "ivl": meta["ivl"], "max": meta["max"], "first": False, "k": i + 1, "measured": True})
            else:
                ev.append({"e": "attempt", "conn": "c", "gap": x["interval_ms"], "ivl": meta["ivl"], "max": meta["max"], "first": i == 0, "k": i + 1, "nominal": True})
    if kind == "comeback":
        marks = {x["name"]: x["t"] for x in recs if x.get("ev") == "mark"}
        firstback = next((x for x in recs if x.get("ev") == "ret" and x.get("op") == "recv" and x.get("sock") == "rx2" and x.get("res") == "ok"), None)
        # the clock starts when both are true: the listener is back and the application has begun to send again
        firstcall = next((x["t"] for x in recs if x.get("ev") == "call" and x.get("op") == "send" and str(x.get("mid", "")).startswith("back:")), None)
        if "back" in marks and firstcall is not None:
            marks["back"] = max(marks["back"], firstcall)
        if "back" in marks and firstback is not None:
            # ComesBack in time: the first message arrives within one (capped) delay of the listener's return
            cap = meta["max"] if meta["max"] > 0 else max(meta["ivl"] * 2 ** 5, 1000)
            ev.append({"e": "attempt", "conn": "back", "gap": firstback["t"] - marks["back"], "ivl": 0, "max": cap, "first": False, "k": 0, "resume": True})
        elif "back" in marks:
            # nothing at all arrived after the listener was back: ComesBack fails outright
            cap = meta["max"] if meta["max"] > 0 else max(meta["ivl"] * 2 ** 5, 1000)
            last_t = max([x.get("t", 0) for x in recs if isinstance(x.get("t"), int)] + [marks["back"]])
            ev.append({"e": "attempt", "conn": "back", "gap": max(last_t - marks["back"], cap + 451), "ivl": 0, "max": cap, "first": False, "k": 0, "resume": True, "never": True})
    for tag, conn in (("good", "good"), ("late", "late"), ("back", "back")):
        if conn in conn_names and tag in sent:
            ev.append({"e": "sent", "conn": conn, "n": sent[tag]})
    ev.append({"e": "end"})
    return ev, sent, retried


def describe(ev, at, meta):
    x = ev[at]
    if x["e"] == "op":
        return "socket-stopped-by-peer:%s" % meta["kind"], "%s() on %s failed with %s although nobody closed that socket: it was shut down by what another connection did" % (x["op"], x["sock"], x["detail"])
    if x["e"] == "deliver":
        return "healthy-connection-disturbed", "connection %s: message %s arrived out of sequence" % (x["conn"], x["k"])
    if x["e"] == "attempt":
        if x.get("resume"):
            if x.get("never"):
                return "no-comeback", "traffic never resumed although the listener had been back for %d ms (bound %d ms)" % (x["gap"], x["max"] + 450)
            return "no-comeback", "traffic resumed %d ms after the listener was back (bound %d ms)" % (x["gap"], x["max"] + 450)
        what = "RECONNECT_IVL=%d RECONNECT_IVL_MAX=%d attempt %s: %s %d ms" % (x["ivl"], x["max"], x.get("k"), "nominal interval" if x.get("nominal") else "measured gap", x["gap"])
        fl = min(x["ivl"], x["max"]) if x["max"] > 0 else x["ivl"]
        if x["gap"] + 15 < fl:
            return "retry-too-soon", what + " is shorter than RECONNECT_IVL"
        if x["max"] > 0 and x["gap"] > x["max"] + 450:
            return "retry-exceeds-max", what + " exceeds RECONNECT_IVL_MAX"
        return "retry-not-geometric", what + " does not follow the back-off rule"
    if x["e"] == "end":
        acc = {e["conn"]: e["n"] for e in ev[:at] if e["e"] == "sent"}
        got = {}
        for e in ev[:at]:
            if e["e"] == "deliver":
                got[e["conn"]] = got.get(e["conn"], 0) + 1
        worst = [(c, got.get(c, 0), n) for c, n in acc.items() if got.get(c, 0) != n]
        return "healthy-connection-lost-messages", "connections that were never faulted delivered (conn, got, accepted): %s" % worst
    return "other-" + x["e"], json.dumps(x)


def validate(ctx, runs, tag):
    out = []
    pending = list(range(len(runs)))
    guard = 0
    while pending and guard < 40:
        guard += 1
        flat, starts = [], []
        for i in pending:
            starts.append((len(flat), i))
            flat += runs[i]
        path = os.path.join(ctx.work, "iso_%s_%d.ndjson" % (tag, guard))
        with open(path, "w") as f:
            for e in flat:
                f.write(json.dumps(e) + "\n")
        res = ctx.trace_check("Trace_Isolation", "Trace_Isolation.cfg", path)
        ctx.extra["events_validated"] = ctx.extra.get("events_validated", 0) + max(res.generated - 1, 0)
        if not res.rejected:
            if res.violated and res.violated != "<postcondition>":
                raise vlib.ToolError("Trace_Isolation failed: %s" % res.error)
            break
        at = res.rejected[0][1]
        owner = max((s for s in starts if s[0] <= at), key=lambda s: s[0])
        out.append((owner[1], at - owner[0]))
        pending = [i for i in pending if i > owner[1]]
    return out


def run(ctx):
    thorough = ctx.tier == "thorough"
    vlib.cargo_build()
    ctx.model_check("MC_Isolation", "MC_Isolation_quick.cfg", workers=8, timeout=1800)
    res = vlib.tlc("MC_Isolation", "MC_Isolation_asis.cfg", os.path.join(ctx.work, "tlc_asis"), workers=4, timeout=600, coverage=False)
    if not res.violated:
        raise vlib.ToolError("Isolation.tla no longer shows the pinned defect under RefusalFatal")
    ctx.selftest["model_finds_pinned_defect"] = {"RefusalFatal": res.violated}
    beh = []
    for impl in ("core", "conn"):
        r = ctx.model_check("MC_Backoff", "MC_Backoff_%s.cfg" % impl, workers=4, timeout=900)
        beh += r.replays
    ctx.exhaustive = True
    if not beh:
        raise vlib.ToolError("no back-off histories exported")
    core = [b for b in beh if b["impl"] == "core"]
    conn = [b for b in beh if b["impl"] == "conn"]
    ctx.sample({"from": "MC_Backoff_core", "history": core[0]})
    path, out = os.path.join(ctx.work, "bo.jsonl"), os.path.join(ctx.work, "bo.out")
    vlib.write_jsonl(path, core)
    vlib.vh(["backoff", path, out], timeout=600)
    r = json.load(open(out))
    ctx.traces += r["runs"]
    ctx.extra["backoff_steps_replayed"] = r["steps"]
    for o in r["outcomes"]:
        for i in o["issues"]:
            if i["class"] == "prop":
                ctx.violation("C17:backoff-core:%s" % i["code"], i["detail"], {"kind": "tlc-behaviour", "module": "MC_Backoff", "behaviour": core[o["index"]], "issue": i})
            else:
                ctx.drift += 1
                if ctx.drift <= 5:
                    ctx.note("drift: %s" % i["detail"])
    vlib.vh(["backoff", path, out, "--perturb"], timeout=600)
    r2 = json.load(open(out))
    ctx.selftest["perturbed_backoff_expectation_rejected"] = "%d/%d" % (r2["with_issues"], r2["runs"])
    if r2["with_issues"] < len([b for b in core if b["steps"] and b["steps"][-1]["a"] == "fail"]):
        raise vlib.ToolError("binding self-test failed (back-off replay)")

    scs = build(thorough)
    metas = [s.pop("meta") for s in scs]
    res = S.run_scenarios(ctx, scs, "c17", timeout=3000, jobs=4)
    runs, owners = [], []
    for sc, meta, r0 in zip(scs, metas, res):
        ev, sent, retried = to_events(sc, meta, r0)
        rp = {"kind": "recorded-trace", "scenario": sc, "hung": r0["hung"], "panics": r0["panics"],
              "events": [e for e in ev if e["e"] not in ("deliver",)][:80],
              "records": [x for x in r0["records"] if x.get("ev") == "ret" and x.get("res", "ok") != "ok"][:60]}
        if r0["panics"]:
            ctx.violation("C17:panic", "%s: %s" % (sc["name"], r0["panics"][0]), rp)
        if meta["kind"] == "dead" and not meta.get("churn"):
            # the connecter's nominal intervals against the model's transcription (drift, not a verdict)
            want = next((b for b in conn if b["ivl"] == meta["ivl"] and b["max"] == meta["max"] and all(s["a"] == "fail" for s in b["steps"])), None)
            got = [x["interval_ms"] for x in retried[:7]]
            if want and got != [s["d"] for s in want["steps"]][:len(got)]:
                ctx.drift += 1
                ctx.note("drift: connecter intervals %s, Backoff.tla says %s (ivl=%d max=%d)" % (got, [s["d"] for s in want["steps"]], meta["ivl"], meta["max"]))
            if len(got) < 4:
                ctx.note("%s: only %d ConnectRetried events seen" % (sc["name"], len(got)))
        if meta["kind"] == "outhub":
            got = len([e for e in ev if e["e"] == "deliver" and e["conn"] == "h"])
            if got * 3 < sent.get("h", 0):
                ctx.violation("C17:healthy-connection-starved:outhub", "%s: the healthy peer received %d of %d messages while the other endpoint kept failing" % (sc["name"], got, sent.get("h", 0)), rp)
        if meta["kind"] == "flap" and len([e for e in ev if e["e"] == "attempt"]) < 3:
            ctx.note("%s: fewer than 3 reconnect attempts observed" % sc["name"])
        runs.append(ev)
        owners.append((sc, meta, rp))
        ctx.extra.setdefault("runs", {})[sc["name"]] = {"delivered": len([e for e in ev if e["e"] == "deliver"]), "attempt_gaps": [e["gap"] for e in ev if e["e"] == "attempt"][:10]}
    ctx.sample({"from": "recorded fault run", "scenario": scs[0]["name"], "events": [e for e in runs[0] if e["e"] != "deliver"][:12]})
    rejected = validate(ctx, runs, "main")
    for (i, at) in rejected:
        sc, meta, rp = owners[i]
        code, what = describe(runs[i], at, meta)
        ctx.violation("C17:%s:%s" % (code, sc["name"].split("-")[0]), "%s: %s" % (sc["name"], what), dict(rp, rejected_event=runs[i][at]))

    bad_idx = set(i for i, _ in rejected)
    pert = []
    for i, ev in enumerate(runs):
        if i in bad_idx or len(pert) >= 12:
            continue
        if owners[i][1]["kind"] == "hub":
            ev2 = [dict(e) for e in ev]
            j = max((k for k, e in enumerate(ev2) if e["e"] == "deliver" and e["conn"] == "good"), default=None)
            if j is not None:
                pert.append(ev2[:j] + ev2[j + 1:])                        # a healthy connection lost a message
            ev3 = [dict(e) for e in ev]
            j = next((k for k, e in enumerate(ev3) if e["e"] == "op"), None)
            if j is not None:
                ev3[j]["res"] = "stopped"                                 # the hub was shut down
                pert.append(ev3)
        if owners[i][1]["kind"] in ("flap", "dead"):
            ev4 = [dict(e) for e in ev]
            j = next((k for k, e in enumerate(ev4) if e["e"] == "attempt" and e["ivl"] > 20), None)
            if j is not None:
                ev4[j]["gap"] = 1                                         # retried at once
                pert.append(ev4)
    flagged = sum(1 for p in pert if validate(ctx, [p], "pert"))
    ctx.selftest["perturbed_histories_rejected"] = "%d/%d" % (flagged, len(pert))
    if pert and flagged != len(pert):
        raise vlib.ToolError("binding self-test failed: %d of %d corrupted histories accepted" % (len(pert) - flagged, len(pert)))
    # the monitor channel: what an application watching its connections come and go is told (Monitor.tla).
    # Not part of the statement of C17: a rejected stream is a NOTE (model drift), never a VIOLATION.
    from props import monlib
    ctx.model_check("MC_Monitor", "MC_Monitor_thorough.cfg" if thorough else "MC_Monitor_quick.cfg", workers=8, timeout=2400)
    monlib.check(ctx, thorough=thorough)
    ctx.assumptions += [
        "a measured gap may fall 15 ms short of its nominal delay and exceed its bound by 450 ms (100 ms maintenance tick, connect and handshake time, scheduling)",
        "RECONNECT_IVL_MAX below RECONNECT_IVL counts as not set (libzmq ignores such a value); those pairs are not explored",
        "'this socket was shut down' is read off InvalidState / Internal results of calls on a socket nobody closed",
    ]


def replay(path):
    print("socket-level replay: re-run `python3 tools/check.py C17 --tier quick`")
    return 0
