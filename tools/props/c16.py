"""C16 - close() and term() always finish and leave nothing running or hanging.

Spec    : spec/Lifecycle.tla - one context, sockets with their actors (core, listener, connecter, session in
          handshake / waiting for pipes / operational), the event bus and mailboxes as separate delivery steps,
          application tasks that may be blocked in a call, WaitGroup::wait as arm / check / sleep.  Invariants
          WgExact, AfterCloseErr, NoBlockedOnStopped, NamesFree, TermMeansAllGone; liveness Terminates and
          CloseCleans under fairness of the actors only (no peer is ever assumed to answer).  Three switches
          describe the pinned revision (HandshakeDeaf, CheckThenWait, LateBlind): TLC must find the violation
          under each and none with all off.
TLC     : exhaustive incl. liveness (1 socket, 2 tasks); thorough adds 2 sockets without application tasks (safety, 3.7 M states).
Binding : B2 - WaitGroup::wait against the last done() at every scheduling point of the real code
          (controlled scheduler, hooks wg.wait.check / wg.wait.await).
          B3 - API histories on real sockets with close()/term() injected: blocked recv / send (no peer, full
          pipe), connect retries, handshakes that never complete (outbound and inbound), connections accepted at
          the moment of the close, streaming traffic with option / monitor calls from other tasks, scripted
          histories with the shutdown injected before every operation.  Afterwards: every operation on every
          closed socket, the live-actor count, a re-bind of every name.  The history is validated by TLC against
          Trace_Lifecycle.tla (the application-visible part of Lifecycle.tla with time bounds).
"""
import json
import os
import random
import vlib
from props import socklib as S

SNDBUF, RCVBUF = 11, 12


def after_ops(sock, can_recv=True):
    ops = [{"op": "send", "sock": sock, "mid": "z:1", "size": 16}, {"op": "recv", "sock": sock},
           {"op": "opt", "sock": sock, "id": S.SNDHWM, "kind": "i32", "value": 5}, {"op": "getopt", "sock": sock, "id": S.SNDHWM},
           {"op": "bind", "sock": sock, "ep": "tcp://127.0.0.1:0"}, {"op": "connect", "sock": sock, "ep": "tcp://127.0.0.1:9"},
           {"op": "monitor", "sock": sock}, {"op": "close", "sock": sock}]
    return ops


def shutdown_op(how, sock):
    return {"op": "close", "sock": sock} if how == "close" else {"op": "term", "ctx": 0}


def mk(name, socks, tasks, meta=None, deadline=25000):
    return {"name": name, "deadline_ms": deadline, "sockets": socks, "tasks": tasks, "meta": meta or {}}


def chk_sock(i, tr):
    # re-binding a tcp port / ipc path is tried from a second context; an inproc name from the same one
    return {"name": "chk%d" % i, "type": "PULL", "ctx": 0 if tr == "inproc" else 1, "opts": []}


def blocked_recv(tr, how, ty):
    ep = S.endpoint(tr, "c16")
    opts = [[S.SUBSCRIBE, "str", ""]] if ty == "SUB" else []
    tail = [{"op": "sleep", "ms": 300}] + after_ops("rx")
    if not (tr == "inproc" and how == "term"):
        tail.append({"op": "bind", "sock": "chk0", "ep": "$ep"})
    tail.append({"op": "live_actors", "ctx": 0})
    return mk("blockedrecv-%s-%s-%s" % (ty.lower(), tr, how),
              [{"name": "rx", "type": ty, "opts": opts}, chk_sock(0, tr)],
              [{"name": "a", "ops": [{"op": "bind", "sock": "rx", "ep": ep, "save": "ep"}, {"op": "barrier", "name": "go", "parties": 2},
                                    {"op": "recv_mp" if ty == "ROUTER" else "recv", "sock": "rx"}]},
               {"name": "b", "ops": [{"op": "barrier", "name": "go", "parties": 2}, {"op": "sleep", "ms": 250}, shutdown_op(how, "rx")] + tail}],
              {"closed": ["rx"], "how": how})


def blocked_send_nopeer(how, ty, tr="tcp"):
    ep = {"tcp": "tcp://127.0.0.1:9", "ipc": "ipc:///tmp/rzmq_verif_nobody_%d" % os.getpid(), "inproc": "inproc://verif_nobody"}[tr]
    return mk("blockedsend-nopeer-%s-%s-%s" % (ty.lower(), tr, how), [{"name": "tx", "type": ty, "opts": []}],
              [{"name": "a", "ops": [{"op": "connect", "sock": "tx", "ep": ep}, {"op": "barrier", "name": "go", "parties": 2},
                                    {"op": "send", "sock": "tx", "mid": "a:1", "size": 16}]},
               {"name": "b", "ops": [{"op": "barrier", "name": "go", "parties": 2}, {"op": "sleep", "ms": 400}, shutdown_op(how, "tx"), {"op": "sleep", "ms": 300}]
                + after_ops("tx") + [{"op": "live_actors", "ctx": 0}]}],
              {"closed": ["tx"], "how": how})


def blocked_send_hwm(how, tr, linger=0):
    ep = S.endpoint(tr, "c16")
    return mk("blockedsend-hwm-%s-%s-l%d" % (tr, how, linger),
              [{"name": "tx", "type": "PUSH", "opts": [S.i32(S.SNDHWM, 2), S.i32(SNDBUF, 65536), S.i32(S.LINGER, linger)]},
               {"name": "rx", "type": "PULL", "ctx": 1, "opts": [S.i32(S.RCVHWM, 2), S.i32(RCVBUF, 65536)]}],
              [{"name": "r", "ops": [{"op": "bind", "sock": "rx", "ep": ep, "save": "ep"}, {"op": "barrier", "name": "go", "parties": 3}, {"op": "sleep", "ms": 3500 + linger}]},
               {"name": "a", "ops": [{"op": "barrier", "name": "go", "parties": 3}, {"op": "connect", "sock": "tx", "ep": "$ep"}, {"op": "sleep", "ms": 300},
                                    {"op": "send_n", "sock": "tx", "prefix": "a", "n": 200, "sizes": [100000], "max_errs": 1}]},
               {"name": "b", "ops": [{"op": "barrier", "name": "go", "parties": 3}, {"op": "sleep", "ms": 1200}, shutdown_op(how, "tx"), {"op": "sleep", "ms": 300}]
                + after_ops("tx") + [{"op": "live_actors", "ctx": 0}]}],
              {"closed": ["tx"], "how": how})


def handshake_out(how, off_ms, linger=0):
    """an outbound connection whose peer accepts but never speaks (with a finite LINGER the handshake may go on
    for that long, not longer)"""
    return mk("handshake-out-%s-%d%s" % (how, off_ms, "-l%d" % linger if linger else ""),
              [{"name": "tx", "type": "DEALER", "opts": [S.i32(S.LINGER, linger), S.i32(S.HANDSHAKE_IVL, 8000)] if linger else []}],
              [{"name": "l", "ops": [{"op": "raw_listen", "raw": "L", "save": "lep"}, {"op": "barrier", "name": "go", "parties": 2},
                                    {"op": "raw_accept", "listener": "L", "raw": "c", "timeout_ms": 3000}, {"op": "sleep", "ms": 2500}]},
               {"name": "b", "ops": [{"op": "barrier", "name": "go", "parties": 2}, {"op": "connect", "sock": "tx", "ep": "$lep"}, {"op": "sleep", "ms": off_ms},
                                    shutdown_op(how, "tx"), {"op": "sleep", "ms": 300 + linger}] + after_ops("tx") + [{"op": "live_actors", "ctx": 0}, {"op": "sleep", "ms": 1200}, {"op": "live_actors", "ctx": 0}]}],
              {"closed": ["tx"], "how": how, "expect_no_actors": True})


def handshake_in(how, off_ms, nraw=4, part=10):
    """raw clients connect around the moment of the shutdown and stall in the greeting"""
    tasks = [{"name": "b", "ops": [{"op": "bind", "sock": "rx", "ep": "tcp://127.0.0.1:0", "save": "ep"}, {"op": "barrier", "name": "go", "parties": nraw + 1},
                                  {"op": "sleep", "ms": 100}, shutdown_op(how, "rx"), {"op": "sleep", "ms": 400}, {"op": "live_actors", "ctx": 0}]
              + after_ops("rx") + [{"op": "sleep", "ms": 1200}, {"op": "live_actors", "ctx": 0}, {"op": "bind", "sock": "chk0", "ep": "$ep"}]}]
    for i in range(nraw):
        tasks.append({"name": "r%d" % i, "ops": [{"op": "barrier", "name": "go", "parties": nraw + 1}, {"op": "sleep", "ms": max(0, 100 + off_ms + i)},
                                                {"op": "raw_connect", "raw": "c%d" % i, "ep": "$ep"},
                                                {"op": "raw_write", "raw": "c%d" % i, "hex": S.hexs(S.greeting()[:part])}, {"op": "sleep", "ms": 2200}]})
    return mk("handshake-in-%s-%d" % (how, off_ms), [{"name": "rx", "type": "PULL", "opts": []}, chk_sock(0, "tcp")], tasks,
              {"closed": ["rx"], "how": how, "expect_no_actors": True})


def traffic(how, which, tr, off_ms, pair=("PUSH", "PULL")):
    """streaming traffic, option / monitor calls from other tasks, shutdown in the middle"""
    ep = S.endpoint(tr, "c16")
    txt, rxt = pair
    rxo = [[S.SUBSCRIBE, "str", ""]] if rxt == "SUB" else []
    target = which
    closed = [which] if how == "close" else ["tx", "rx"]
    tail = []
    for s in closed:
        tail += after_ops(s)
    if "rx" in closed and not (tr == "inproc" and how == "term"):
        tail.append({"op": "bind", "sock": "chk0", "ep": "$ep"})
    tail.append({"op": "live_actors", "ctx": 0})
    fiddle = []
    for i in range(12):
        fiddle += [{"op": "opt", "sock": "tx", "id": S.SNDHWM, "kind": "i32", "value": 100 + i}, {"op": "getopt", "sock": "rx", "id": S.RCVHWM}, {"op": "sleep", "ms": 15}]
    return mk("traffic-%s-%s-%s-%s-%d" % (txt.lower(), tr, how, which, off_ms),
              [{"name": "tx", "type": txt, "opts": []}, {"name": "rx", "type": rxt, "opts": rxo}, chk_sock(0, tr)],
              [{"name": "r", "ops": [{"op": "bind", "sock": "rx", "ep": ep, "save": "ep"}, {"op": "barrier", "name": "go", "parties": 4},
                                    {"op": "recv_n", "sock": "rx", "n": 4000, "multipart": rxt == "ROUTER", "timeout_ms": 1500}]},
               {"name": "t", "ops": [{"op": "barrier", "name": "go", "parties": 4}, {"op": "connect", "sock": "tx", "ep": "$ep"}, {"op": "monitor", "sock": "tx"},
                                    {"op": "send_n", "sock": "tx", "prefix": "a", "n": 4000, "sizes": [2000], "max_errs": 2, "pace_us": 100, "timeout_ms": 1500}]},
               {"name": "f", "ops": [{"op": "barrier", "name": "go", "parties": 4}] + fiddle},
               {"name": "b", "ops": [{"op": "barrier", "name": "go", "parties": 4}, {"op": "sleep", "ms": off_ms}, shutdown_op(how, target), {"op": "sleep", "ms": 400}] + tail}],
              {"closed": closed, "how": how})


def connect_retry(how, off_ms, tr="tcp"):
    ep = {"tcp": "tcp://127.0.0.1:9", "ipc": "ipc:///tmp/rzmq_verif_nobody_%d" % os.getpid()}[tr]
    return mk("retry-%s-%s-%d" % (tr, how, off_ms), [{"name": "tx", "type": "PUSH", "opts": [S.i32(S.RECONNECT_IVL, 20), S.i32(S.RECONNECT_IVL_MAX, 80)]}],
              [{"name": "b", "ops": [{"op": "connect", "sock": "tx", "ep": ep}, {"op": "sleep", "ms": off_ms}, shutdown_op(how, "tx"), {"op": "sleep", "ms": 300}]
                + after_ops("tx") + [{"op": "live_actors", "ctx": 0}, {"op": "sleep", "ms": 600}, {"op": "live_actors", "ctx": 0}]}],
              {"closed": ["tx"], "how": how, "expect_no_actors": True})


SCRIPT = [
    {"op": "bind", "sock": "s1", "ep": "tcp://127.0.0.1:0", "save": "e1"},
    {"op": "opt", "sock": "s2", "id": S.SNDHWM, "kind": "i32", "value": 10},
    {"op": "connect", "sock": "s2", "ep": "$e1"},
    {"op": "monitor", "sock": "s1"},
    {"op": "send", "sock": "s2", "mid": "a:1", "size": 64, "timeout_ms": 2000},
    {"op": "recv_mp", "sock": "s1", "timeout_ms": 2000},
    {"op": "bind", "sock": "s2", "ep": "ipc:///tmp/rzmq_verif_c16_%d_%%d" % os.getpid(), "save": "e2"},
    {"op": "send_mp", "sock": "s2", "mid": "a:2", "sizes": [10, 2000], "timeout_ms": 2000},
    {"op": "getopt", "sock": "s1", "id": S.RCVHWM},
    {"op": "recv_mp", "sock": "s1", "timeout_ms": 2000},
]


def scripted(k, how, which, uid):
    """the shutdown injected before operation k of a fixed script over two sockets"""
    ops = []
    for i, o in enumerate(SCRIPT):
        o = dict(o)
        if "%d" in o.get("ep", ""):
            o["ep"] = o["ep"] % uid
        ops.append(o)
    closed = [which] if how == "close" else ["s1", "s2"]
    head = ops[:k] + [shutdown_op(how, which)] + ops[k:]
    tail = [{"op": "sleep", "ms": 300}]
    for s in closed:
        tail += after_ops(s)
    if k >= 1 and "s1" in closed:
        tail.append({"op": "bind", "sock": "chk0", "ep": "$e1"})
    if k >= 7 and "s2" in closed:
        tail.append({"op": "bind", "sock": "chk1", "ep": "$e2"})
    tail.append({"op": "live_actors", "ctx": 0})
    return mk("script-%s-%s-at%d" % (how, which, k),
              [{"name": "s1", "type": "ROUTER", "opts": []}, {"name": "s2", "type": "DEALER", "opts": [[S.ROUTING_ID, "str", "d"]]}, chk_sock(0, "tcp"), chk_sock(1, "tcp")],
              [{"name": "b", "ops": head + tail}], {"closed": closed, "how": how})


def inproc_connect_race(how, off):
    """connect() calls to an inproc name race with the binder's close() / the context's term(): every call
    returns (Inproc.tla ConnectReturns), and the name is free afterwards"""
    ep = S.endpoint("inproc", "c16race")
    socks = [{"name": "rx", "type": "PULL", "opts": []}, chk_sock(0, "inproc")] + [{"name": "tx%d" % i, "type": "PUSH", "opts": []} for i in range(3)]
    tail = [{"op": "sleep", "ms": 300}]
    if how == "close":
        tail.append({"op": "bind", "sock": "chk0", "ep": ep})
    tail.append({"op": "live_actors", "ctx": 0})
    tasks = [{"name": "b", "ops": [{"op": "bind", "sock": "rx", "ep": ep}, {"op": "barrier", "name": "go", "parties": 4}, {"op": "sleep", "ms": 30},
                                  shutdown_op(how, "rx")] + tail}]
    for i in range(3):
        tasks.append({"name": "c%d" % i, "ops": [{"op": "barrier", "name": "go", "parties": 4}, {"op": "sleep", "ms": max(0, 30 + off + i - 1)},
                                                 {"op": "connect", "sock": "tx%d" % i, "ep": ep}, {"op": "sleep", "ms": 100}, {"op": "close", "sock": "tx%d" % i}]})
    return mk("inprocrace-%s-%d" % (how, off), socks, tasks, {"closed": ["rx", "tx0", "tx1", "tx2"], "how": how})


def api_race(how, op, off):
    """an API call that goes through the socket's mailbox, issued within a millisecond of close() / term() of
    that very socket: it must return (Mailbox.tla AllReturn), with whatever result"""
    ops = {"connect": {"op": "connect", "sock": "s", "ep": "tcp://127.0.0.1:9"}, "bind": {"op": "bind", "sock": "s", "ep": "tcp://127.0.0.1:0"},
           "opt": {"op": "opt", "sock": "s", "id": S.SNDHWM, "kind": "i32", "value": 7}, "getopt": {"op": "getopt", "sock": "s", "id": S.SNDHWM},
           "monitor": {"op": "monitor", "sock": "s"}}
    tasks = [{"name": "b", "ops": [{"op": "barrier", "name": "go", "parties": 4}, {"op": "sleep", "ms": 30}, shutdown_op(how, "s"), {"op": "sleep", "ms": 300},
                                  {"op": "live_actors", "ctx": 0}]}]
    for i in range(3):
        tasks.append({"name": "c%d" % i, "ops": [{"op": "barrier", "name": "go", "parties": 4}, {"op": "sleep", "ms": max(0, 30 + off + i - 1)}, dict(ops[op])]})
    return mk("apirace-%s-%s-%d" % (how, op, off), [{"name": "s", "type": "PUSH", "opts": []}], tasks, {"closed": ["s"], "how": how})


def build(thorough, rng):
    scs = []
    for tr in ["tcp", "ipc", "inproc"]:
        for how in ["close", "term"]:
            for ty in (["PULL", "SUB", "DEALER", "ROUTER", "REP"] if thorough else (["PULL", "ROUTER"] if tr == "tcp" else ["PULL"])):
                scs.append(blocked_recv(tr, how, ty))
    for how in ["close", "term"]:
        for ty in (["PUSH", "DEALER", "REQ"] if thorough else ["PUSH", "REQ"]):
            for tr in (["tcp", "ipc", "inproc"] if thorough else ["tcp"]):
                scs.append(blocked_send_nopeer(how, ty, tr))
        for tr in (["tcp", "ipc"] if thorough else ["tcp"]):
            scs.append(blocked_send_hwm(how, tr))
        scs.append(blocked_send_hwm(how, "tcp", linger=500))
        for off in ([0, 1, 5, 50, 500] if thorough else [1, 200]):
            scs.append(handshake_out(how, off))
        for off in ([5, 200] if thorough else [200]):
            scs.append(handshake_out(how, off, linger=300))
        for off in ([-30, -10, -3, -1, 0, 1, 2, 5] if thorough else [-10, -1, 0, 1]):
            scs.append(handshake_in(how, off))
        for off in ([0, 5, 25, 60, 200] if thorough else [5, 60]):
            scs.append(connect_retry(how, off))
            if thorough:
                scs.append(connect_retry(how, off, "ipc"))
        offs = [50, 120, 250, 400] if thorough else [120]
        for off in offs:
            for tr in (["tcp", "ipc", "inproc"] if thorough else ["tcp", "inproc"]):
                for which in (["tx", "rx"] if how == "close" else ["tx"]):
                    scs.append(traffic(how, which, tr, off))
        if thorough:
            for pair in [("DEALER", "ROUTER"), ("PUB", "SUB")]:
                for which in (["tx", "rx"] if how == "close" else ["tx"]):
                    scs.append(traffic(how, which, "tcp", 150, pair))
    for how in ["close", "term"]:
        for off in ([-3, -1, 0, 1, 2, 4] if thorough else [-1, 0, 1]):
            scs.append(inproc_connect_race(how, off))
    for how in ["close", "term"]:
        for op in (["connect", "bind", "opt", "getopt", "monitor"] if thorough else ["connect", "opt", "monitor"]):
            for off in ([-1, 0, 1] if thorough else [0]):
                scs.append(api_race(how, op, off))
    uid = 0
    for k in range(len(SCRIPT) + 1):
        for (how, which) in ([("close", "s1"), ("close", "s2"), ("term", "s1")] if thorough else [("close", "s1" if k % 2 else "s2"), ("term", "s1")]):
            uid += 1
            scs.append(scripted(k, how, which, uid))
    return scs


OPS = ("bind", "connect", "opt", "getopt", "send", "send_mp", "recv", "recv_mp", "monitor", "close")


def to_events(sc, r, closed=()):
    socks = [[s["name"], s.get("ctx", 0), next((o[2] for o in s["opts"] if o[0] == S.LINGER), 0)] for s in sc["sockets"]]
    ev = [{"e": "reset", "socks": socks}]
    names = set(s[0] for s in socks)
    for x in r["records"]:
        e, op = x.get("ev"), x.get("op")
        if e == "call" and op in OPS and x.get("sock") in names:
            if op == "bind" and x["sock"].startswith("chk"):
                continue
            ev.append({"e": "call", "task": x["task"], "sock": x["sock"], "op": op, "t": x["t"]})
        elif e == "ret" and op in OPS and x.get("sock") in names:
            res = "ok" if x.get("res") == "ok" else "err"
            if op == "bind" and x["sock"].startswith("chk"):
                ev.append({"e": "rebind", "res": res, "t": x["t"], "ep": x.get("ep", ""), "detail": x.get("res")})
            else:
                ev.append({"e": "ret", "task": x["task"], "sock": x["sock"], "op": op, "res": res, "dur": int(x.get("dur", 0)), "t": x["t"], "detail": x.get("res")})
        elif e == "call" and op == "term":
            ev.append({"e": "term", "ctx": x["ctx"], "t": x["t"]})
        elif e == "ret" and op == "term":
            ev.append({"e": "termret", "ctx": x["ctx"], "dur": int(x.get("dur", 0)), "t": x["t"]})
        elif e == "ret" and op == "live_actors":
            ev.append({"e": "live", "ctx": x["ctx"], "n": x["n"], "t": x["t"]})
    for h in r["hung"]:
        task, _, what = h.partition(": ")
        # a call that waits on a socket nobody closed is not this property's business
        w = what.split(" ")
        if w[0] == "term" or (w[0] in OPS + ("send_n", "recv_n") and len(w) > 1 and w[1] in closed):
            ev.append({"e": "hung", "task": task, "what": what})
    for p in r["panics"]:
        ev.append({"e": "panic", "what": p})
    return ev


def describe(ev, at):
    x = ev[at]
    if x["e"] == "hung":
        return "call-hangs:%s" % x["what"].split(" ")[0], "%s never returned (task %s)" % (x["what"], x["task"])
    if x["e"] == "panic":
        return "panic", "panic: %s" % x["what"]
    if x["e"] == "termret":
        return "term-slow", "Context::term() took %d ms%s" % (x["dur"], " (its internal 10 s straggler timeout)" if x["dur"] >= 9900 else "")
    if x["e"] == "live":
        return "actors-left-after-term", "%d actor(s) of the context still running after term() returned" % x["n"]
    if x["e"] == "rebind":
        return "name-not-free", "binding %s again after the shutdown failed: %s" % (x.get("ep"), x.get("detail"))
    if x["e"] == "ret":
        closed_before = any(e["e"] in ("ret",) and e.get("op") == "close" and e.get("sock") == x["sock"] and e.get("res") == "ok" for e in ev[:at]) or any(e["e"] == "termret" for e in ev[:at])
        if x["op"] == "close" and x["dur"] > 1000:
            return "close-slow", "close() of %s took %d ms" % (x["sock"], x["dur"])
        if closed_before and x["res"] == "ok":
            return "op-succeeds-on-closed:%s" % x["op"], "%s() on the closed socket %s returned ok" % (x["op"], x["sock"])
        if closed_before:
            return "op-slow-on-closed:%s" % x["op"], "%s() on the closed socket %s only failed after %d ms" % (x["op"], x["sock"], x["dur"])
        return "inflight-slow:%s" % x["op"], "%s() on %s, in flight when the shutdown began, only returned %d ms later (%s)" % (x["op"], x["sock"], x["dur"], x.get("detail"))
    return "other-" + x["e"], "record not explained: %s" % json.dumps(x)


def validate(ctx, runs, tag):
    out = []
    pending = list(range(len(runs)))
    guard = 0
    while pending and guard < 40:
        guard += 1
        flat, starts = [], []
        for i in pending:
            starts.append((len(flat), i))
            flat += runs[i]
        path = os.path.join(ctx.work, "life_%s_%d.ndjson" % (tag, guard))
        with open(path, "w") as f:
            for e in flat:
                f.write(json.dumps(e) + "\n")
        res = ctx.trace_check("Trace_Lifecycle", "Trace_Lifecycle.cfg", path)
        ctx.extra["api_events_validated"] = ctx.extra.get("api_events_validated", 0) + max(res.generated - 1, 0)
        if not res.rejected:
            if res.violated and res.violated != "<postcondition>":
                raise vlib.ToolError("Trace_Lifecycle failed: %s" % res.error)
            break
        at = res.rejected[0][1]
        owner = max((s for s in starts if s[0] <= at), key=lambda s: s[0])
        out.append((owner[1], at - owner[0]))
        pending = [i for i in pending if i > owner[1]]
    return out


def run(ctx):
    thorough = ctx.tier == "thorough"
    vlib.cargo_build()
    ctx.model_check("MC_Lifecycle", "MC_Lifecycle_quick.cfg", workers=8, timeout=1800)
    if thorough:
        ctx.model_check("MC_Lifecycle", "MC_Lifecycle_two.cfg", workers=12, timeout=3600, coverage=False)
    ctx.exhaustive = True
    seen = {}
    for sw, cfg in [("HandshakeDeaf", "MC_Lifecycle_asis_deaf.cfg"), ("CheckThenWait", "MC_Lifecycle_asis_wg.cfg"), ("LateBlind", "MC_Lifecycle_asis_late.cfg")]:
        res = vlib.tlc("MC_Lifecycle", cfg, os.path.join(ctx.work, "tlc_" + sw), workers=4, timeout=900, coverage=False)
        seen[sw] = res.violated
        if not res.violated:
            raise vlib.ToolError("Lifecycle.tla no longer shows the pinned defect under %s" % sw)
    # the inproc connect protocol (registry, request over the bus, one-shot reply, binder closing at any moment)
    ctx.model_check("MC_Inproc", "MC_Inproc_quick.cfg", workers=8, timeout=1800)
    res = vlib.tlc("MC_Inproc", "MC_Inproc_asis.cfg", os.path.join(ctx.work, "tlc_InprocDeaf"), workers=4, timeout=900, coverage=False)
    seen["DeafSubscriber(Inproc)"] = res.violated
    if not res.violated:
        raise vlib.ToolError("Inproc.tla no longer shows connect() hanging when a subscriber holds the bus slot without reading")
    # API calls through the mailbox against the end of the command loop
    ctx.model_check("MC_Mailbox", "MC_Mailbox_quick.cfg", workers=4, timeout=900)
    res = vlib.tlc("MC_Mailbox", "MC_Mailbox_asis.cfg", os.path.join(ctx.work, "tlc_MailboxKeepQueue"), workers=2, timeout=600, coverage=False)
    seen["KeepQueue(Mailbox)"] = res.violated
    if not res.violated:
        raise vlib.ToolError("Mailbox.tla no longer shows the call that never returns when the queue outlives the receiver")
    ctx.selftest["model_finds_pinned_defects"] = seen

    # B2: WaitGroup::wait against the last done() under the controlled scheduler
    empty = os.path.join(ctx.work, "nobeh.jsonl")
    open(empty, "w").close()
    out = os.path.join(ctx.work, "lb.out")
    vlib.vh(["lb", empty, out], timeout=600)
    wins = [w for w in json.load(open(out))["windows"] if w["what"] == "WaitGroup::wait"]
    ctx.traces += len(wins)
    ctx.extra["waitgroup_schedules"] = len(wins)
    if not wins:
        raise vlib.ToolError("no WaitGroup schedules were run")
    for w in wins:
        for i in w["issues"]:
            ctx.violation("C16:%s" % i["code"], i["detail"], {"kind": "schedule", "what": w["what"], "schedule": w["schedule"]})

    rng = random.Random(ctx.seed)
    scs = build(thorough, rng)
    metas = [s.pop("meta") for s in scs]
    res = S.run_scenarios(ctx, scs, "c16", timeout=3000, jobs=6)
    runs, owners = [], []
    for sc, meta, r in zip(scs, metas, res):
        ev = to_events(sc, r, meta["closed"])
        rp = {"kind": "recorded-trace", "scenario": sc, "hung": r["hung"], "panics": r["panics"],
              "records": [x for x in r["records"] if x.get("ev") in ("call", "ret") and x.get("op") not in ("send", "recv") or x.get("res", "ok") != "ok"][-150:]}
        # actors left behind by close() alone (no term): the count must fall back to the sockets that are still open
        if meta.get("expect_no_actors") and meta["how"] == "close":
            lives = [e for e in ev if e["e"] == "live"]
            open_socks = len([s for s in sc["sockets"] if s.get("ctx", 0) == 0 and s["name"] not in meta["closed"]])
            if lives and lives[-1]["n"] > open_socks:
                ctx.violation("C16:actors-left-after-close", "%s: %d actor(s) still running %d ms after close() of the only socket with connections (expected %d)" % (
                    sc["name"], lives[-1]["n"], lives[-1]["t"] - next(e["t"] for e in ev if e["e"] == "ret" and e["op"] == "close"), open_socks), rp)
        runs.append(ev)
        owners.append((sc, meta, rp))
    ctx.sample({"from": "recorded history", "scenario": scs[0]["name"], "events": runs[0][:14]})
    rejected = validate(ctx, runs, "main")
    for (i, at) in rejected:
        sc, meta, rp = owners[i]
        code, what = describe(runs[i], at)
        ctx.violation("C16:%s:%s" % (code, meta["how"]), "%s: %s" % (sc["name"], what), dict(rp, rejected_event=runs[i][at]))
    ctx.extra["scenarios"] = len(scs)
    ctx.extra["ops_on_closed_sockets"] = sum(1 for ev in runs for e in ev if e["e"] == "ret" and e.get("detail", "ok") != "ok")

    # binding self-test
    bad_idx = set(i for i, _ in rejected)
    good = [ev for i, ev in enumerate(runs) if i not in bad_idx]
    pert = []
    for ev in good[:8]:
        ev2 = [dict(e) for e in ev]
        j = next((i for i in range(len(ev2) - 1, -1, -1) if ev2[i]["e"] == "ret" and ev2[i]["res"] == "err" and ev2[i]["op"] != "close"), None)
        if j is not None:
            ev2[j]["res"] = "ok"                   # an operation on a closed socket succeeds
            pert.append(ev2)
        ev3 = [dict(e) for e in ev]
        j = next((i for i, e in enumerate(ev3) if e["e"] == "termret"), None)
        if j is not None:
            ev3[j]["dur"] = 10001                  # term() came back through its straggler timeout
            pert.append(ev3)
        ev4 = [dict(e) for e in ev]
        j = next((i for i, e in enumerate(ev4) if e["e"] == "live" and any(x["e"] == "termret" for x in ev4[:i])), None)
        if j is not None:
            ev4[j]["n"] = 1
            pert.append(ev4)
    flagged = sum(1 for p in pert if validate(ctx, [p], "pert"))
    ctx.selftest["perturbed_histories_rejected"] = "%d/%d" % (flagged, len(pert))
    if pert and flagged != len(pert):
        raise vlib.ToolError("binding self-test failed: %d of %d corrupted histories accepted" % (len(pert) - flagged, len(pert)))
    ctx.assumptions += [
        "bounded means: close()/term() and calls in flight return within LINGER + 3 s; an operation on a closed socket fails within 1 s",
        "names are bound again 300-400 ms after close()/term() returned (close() only initiates the shutdown)",
        "term() hides stragglers behind a 10 s timeout: its duration and the live-actor count afterwards are checked, not its Ok",
    ]


def replay(path):
    print("socket-level replay: re-run `python3 tools/check.py C16 --tier quick`")
    return 0
