"""C02 - multipart messages stay whole, contiguous and correctly flagged.

Spec    : spec/Ingress.tla - whole messages arriving from several connections, read frame by frame
          (recv) or whole (recv_multipart) in any mix while connections detach; the local cache of a
          half-read message (Whole, InOrderOnce). spec/Engine.tla covers the wire side: MORE-flag
          assembly and the frame cap (PartialBounded, C07).
TLC     : exhaustive (2 connections, 3 messages of <= 3 frames, 6 operations); simulated longer histories.
Binding : B1 - histories replayed on the real AnonymousIngressEngine; which connection is served next is
          the real queue's choice, everything else is compared; the frames handed out must always be a
          sequence of whole messages.
          B3 - real sockets: payload shapes (1..255 frames, empty frames anywhere, sizes across 255/256,
          frames without pre-set MORE flags), recv-only / recv_multipart-only / mixed reading, PUSH->PULL,
          DEALER<->ROUTER, PUB->SUB, several peers sending concurrently, a peer detaching while another
          peer's message is half read, 256 frames refused at the sender.
"""
import json
import os
import vlib
from props import socklib as S


def replay_ingress(ctx, beh, tag, perturb=False):
    path = os.path.join(ctx.work, "ing_%s.jsonl" % tag)
    out = os.path.join(ctx.work, "ing_%s.out" % tag)
    vlib.write_jsonl(path, beh)
    vlib.vh(["ingress", path, out] + (["--perturb"] if perturb else []), timeout=900)
    return json.load(open(out))


def frame_stream(result, sock):
    """[(id, size, more)] in the order the application got the frames."""
    fs = []
    for x in result["records"]:
        if x.get("ev") != "ret" or x.get("sock") != sock or x.get("res") != "ok":
            continue
        if x.get("op") == "recv":
            fs.append((x.get("mid"), x.get("size"), bool(x.get("more")), bool(x.get("intact"))))
        elif x.get("op") == "recv_mp":
            n = len(x.get("ids", []))
            for i in range(n):
                fs.append((x["ids"][i], x["sizes"][i], x["mores"][i], True))
            if n and x["mores"][-1]:
                fs.append(("!recv_multipart returned a message whose last frame has MORE", 0, False, False))
    return fs


def check_whole(fs, sent, strip_prefix=0):
    """fs: frame stream; sent: {mid: sizes}. Returns (problem or None, messages_seen)."""
    msgs = []
    cur = []
    for f in fs:
        cur.append(f)
        if not f[2]:
            msgs.append(cur)
            cur = []
    if cur:
        return "the last message handed to the application is incomplete: %s" % [c[0] for c in cur], msgs
    for m in msgs:
        body = m[strip_prefix:]
        tagged = [f for f in body if f[0] and ":" in f[0] and not f[0].startswith("?")]
        if not tagged:
            continue
        mid = tagged[0][0].rsplit(".", 1)[0]
        want = sent.get(mid)
        if want is None:
            return "frames of an unknown message %s" % mid, msgs
        got_sizes = [f[1] for f in body]
        if got_sizes != want:
            return "message %s was sent as frames of sizes %s and handed out as %s (%s)" % (mid, want[:12], got_sizes[:12], [f[0] for f in body][:8]), msgs
        for i, f in enumerate(body):
            if f[1] > 0 and f[0] != "%s.%d" % (mid, i + 1):
                return "message %s: frame %d is %s" % (mid, i + 1, f[0]), msgs
            if f[1] > 0 and not f[3]:
                return "message %s: frame %d arrived corrupted" % (mid, i + 1), msgs
    return None, msgs


SHAPES = [[24], [0], [0, 0, 24], [24, 0], [255, 256, 24], [24] * 7, [13] * 50, [24, 0, 24, 0], [300]]


def mp_scenario(name, tx_type, rx_type, transport, style, shapes, set_more=True, uring=False):
    ep = S.endpoint(transport, name)
    o_ = [S.i32(S.IO_URING_SESSION_ENABLED, 1)] if uring else []
    tx_ops = [{"op": "barrier", "name": "go", "parties": 2}, {"op": "connect", "sock": "tx", "ep": "$ep"}, {"op": "sleep", "ms": 250}]
    sent = {}
    prefix = []
    if tx_type == "ROUTER":
        # the ROUTER addresses the DEALER by its routing id
        prefix = [b"DLR".hex()]
    for k, sh in enumerate(shapes, 1):
        mid = "m:%d" % k
        sent[mid] = list(sh)
        tx_ops.append({"op": "send_mp", "sock": "tx", "mid": mid, "sizes": list(sh), "set_more": set_more, "prefix_hex": prefix, "timeout_ms": 4000})
    total_frames = sum(len(s) for s in shapes)
    rx_ops = [{"op": "bind", "sock": "rx", "ep": ep, "save": "ep"}, {"op": "barrier", "name": "go", "parties": 2}]
    if rx_type == "SUB":
        pass
    if style == "recv":
        rx_ops.append({"op": "recv_n", "sock": "rx", "n": total_frames + len(shapes) * 2 + 4, "timeout_ms": 1500})
    elif style == "recv_mp":
        rx_ops.append({"op": "recv_n", "sock": "rx", "n": len(shapes) + 2, "timeout_ms": 1500, "multipart": True})
    else:
        for i in range(total_frames + len(shapes) + 4):
            rx_ops.append({"op": "recv" if i % 3 else "recv_mp", "sock": "rx", "timeout_ms": 1200})
    rx_opts = o_ + ([[S.SUBSCRIBE, "str", ""]] if rx_type == "SUB" else []) + ([[S.ROUTING_ID, "str", "DLR"]] if rx_type == "DEALER" else [])
    return {"name": name, "uring": uring, "deadline_ms": 90000, "sent": sent, "strip": 1 if rx_type == "ROUTER" else 0,
            "sockets": [{"name": "tx", "type": tx_type, "opts": o_ + [S.i32(S.SNDTIMEO, 4000)]},
                        {"name": "rx", "type": rx_type, "opts": rx_opts}],
            "tasks": [{"name": "rx", "ops": rx_ops}, {"name": "tx", "ops": tx_ops}]}


def router_to_dealer(name, transport, shapes, set_more):
    """ROUTER binds, DEALER (id DLR) connects and says hello, then the ROUTER sends multipart messages to it."""
    ep = S.endpoint(transport, name)
    sent = {}
    r_ops = [{"op": "bind", "sock": "tx", "ep": ep, "save": "ep"}, {"op": "barrier", "name": "go", "parties": 2},
             {"op": "recv_mp", "sock": "tx", "timeout_ms": 3000}]
    for k, sh in enumerate(shapes, 1):
        mid = "m:%d" % k
        sent[mid] = list(sh)
        r_ops.append({"op": "send_mp", "sock": "tx", "mid": mid, "sizes": list(sh), "set_more": set_more, "prefix_hex": [b"DLR".hex()], "timeout_ms": 4000})
    d_ops = [{"op": "barrier", "name": "go", "parties": 2}, {"op": "connect", "sock": "rx", "ep": "$ep"}, {"op": "sleep", "ms": 200},
             {"op": "send_mp", "sock": "rx", "mid": "hello:1", "sizes": [24], "timeout_ms": 3000},
             {"op": "recv_n", "sock": "rx", "n": len(shapes) + 2, "timeout_ms": 1500, "multipart": True}]
    return {"name": name, "deadline_ms": 60000, "sent": sent, "strip": 0,
            "sockets": [{"name": "tx", "type": "ROUTER", "opts": [S.i32(S.SNDTIMEO, 4000), S.i32(S.ROUTER_MANDATORY, 1)]},
                        {"name": "rx", "type": "DEALER", "opts": [[S.ROUTING_ID, "str", "DLR"]]}],
            "tasks": [{"name": "router", "ops": r_ops}, {"name": "dealer", "ops": d_ops}]}


def detach_scenario(name, transport, pair=("PUSH", "PULL")):
    """Peer A's 3-frame message is half read (frame by frame) when peer B disconnects."""
    ep = S.endpoint(transport, name)
    txt, rxt = pair
    strip = 1 if rxt == "ROUTER" else 0
    rxo = [[S.SUBSCRIBE, "str", ""]] if rxt == "SUB" else ([[S.ROUTING_ID, "str", "rx"]] if rxt == "DEALER" else [])
    tao = [[S.ROUTING_ID, "str", "ta"]] if txt == "DEALER" else []
    tbo = [S.i32(S.LINGER, 100)] + ([[S.ROUTING_ID, "str", "tb"]] if txt == "DEALER" else [])
    pre = {"prefix_hex": [b"rx".hex()]} if txt == "ROUTER" else {}
    first_reads = [{"op": "recv", "sock": "rx", "timeout_ms": 3000} for _ in range(1 + strip)]
    more_reads = [{"op": "recv", "sock": "rx", "timeout_ms": 1500} for _ in range(2 + (2 + strip))]
    return {"name": name, "deadline_ms": 40000, "sent": {"a:1": [24, 24, 24], "a:2": [24, 24]}, "strip": strip,
            "sockets": [{"name": "rx", "type": rxt, "opts": rxo}, {"name": "ta", "type": txt, "opts": tao}, {"name": "tb", "type": txt, "opts": tbo}],
            "tasks": [{"name": "rx", "ops": [{"op": "bind", "sock": "rx", "ep": ep, "save": "ep"}, {"op": "barrier", "name": "go", "parties": 3}] + first_reads +
                                            [{"op": "barrier", "name": "half", "parties": 2}, {"op": "sleep", "ms": 700}] + more_reads +
                                            [{"op": "recv", "sock": "rx", "timeout_ms": 300}]},
                      {"name": "ta", "ops": [{"op": "barrier", "name": "go", "parties": 3}, {"op": "connect", "sock": "ta", "ep": "$ep"}, {"op": "sleep", "ms": 350},
                                            dict({"op": "send_mp", "sock": "ta", "mid": "a:1", "sizes": [24, 24, 24], "timeout_ms": 3000}, **pre),
                                            dict({"op": "send_mp", "sock": "ta", "mid": "a:2", "sizes": [24, 24], "timeout_ms": 3000}, **pre),
                                            {"op": "sleep", "ms": 2500}]},
                      {"name": "tb", "ops": [{"op": "barrier", "name": "go", "parties": 3}, {"op": "connect", "sock": "tb", "ep": "$ep"}, {"op": "sleep", "ms": 350},
                                            {"op": "barrier", "name": "half", "parties": 2},
                                            {"op": "close", "sock": "tb", "timeout_ms": 3000}]}]}


def framewise_send(name, tx_type, rx_type, transport, shapes, nrx=2):
    """The sender passes each message part by part (send() with MORE) while several peers are attached."""
    sent = {}
    rx_opts = [[S.SUBSCRIBE, "str", ""]] if rx_type == "SUB" else []
    socks = [{"name": "tx", "type": tx_type, "opts": [S.i32(S.SNDTIMEO, 4000)]}]
    tasks = []
    P = nrx + 1
    for j in range(nrx):
        ep = S.endpoint(transport, name)
        socks.append({"name": "rx%d" % j if j else "rx", "type": rx_type, "opts": list(rx_opts)})
        nm = "rx%d" % j if j else "rx"
        tasks.append({"name": nm, "ops": [{"op": "bind", "sock": nm, "ep": ep, "save": "ep%d" % j}, {"op": "barrier", "name": "go", "parties": P},
                                          {"op": "recv_n", "sock": nm, "n": len(shapes) + 2, "timeout_ms": 1500, "multipart": True}]})
    tx_ops = [{"op": "barrier", "name": "go", "parties": P}] + [{"op": "connect", "sock": "tx", "ep": "$ep%d" % j} for j in range(nrx)] + [{"op": "sleep", "ms": 350}]
    for k, sh in enumerate(shapes, 1):
        mid = "m:%d" % k
        sent[mid] = list(sh)
        for i, sz in enumerate(sh, 1):
            tx_ops.append({"op": "send", "sock": "tx", "mid": "%s.%d" % (mid, i), "size": sz, "more": i < len(sh), "timeout_ms": 4000})
    tasks.append({"name": "tx", "ops": tx_ops})
    return {"name": name, "deadline_ms": 60000, "sent": sent, "strip": 1 if rx_type == "ROUTER" else 0, "receivers": ["rx"] + ["rx%d" % j for j in range(1, nrx)],
            "sockets": socks, "tasks": tasks}


def rep_frames_scenario(name, transport):
    """A DEALER sends multi-frame requests to a REP that reads them frame by frame / mixed."""
    ep = S.endpoint(transport, name)
    sent = {"m:1": [24, 24, 24], "m:2": [24, 24], "m:3": [24, 24, 24, 24]}
    rep = [{"op": "bind", "sock": "rx", "ep": ep, "save": "ep"}, {"op": "barrier", "name": "go", "parties": 2}]
    rep += [{"op": "recv", "sock": "rx", "timeout_ms": 2000}] * 3 + [{"op": "send", "sock": "rx", "mid": "p:1", "size": 10, "timeout_ms": 2000}]
    rep += [{"op": "recv", "sock": "rx", "timeout_ms": 2000}, {"op": "recv_mp", "sock": "rx", "timeout_ms": 2000}, {"op": "send", "sock": "rx", "mid": "p:2", "size": 10, "timeout_ms": 2000}]
    rep += [{"op": "recv", "sock": "rx", "timeout_ms": 2000}, {"op": "recv", "sock": "rx", "timeout_ms": 2000}, {"op": "recv_mp", "sock": "rx", "timeout_ms": 2000},
            {"op": "send", "sock": "rx", "mid": "p:3", "size": 10, "timeout_ms": 2000}]
    dl = [{"op": "barrier", "name": "go", "parties": 2}, {"op": "connect", "sock": "tx", "ep": "$ep"}, {"op": "sleep", "ms": 250}]
    for mid, sh in sent.items():
        dl += [{"op": "send_mp", "sock": "tx", "mid": mid, "sizes": sh, "timeout_ms": 3000}, {"op": "recv_mp", "sock": "tx", "timeout_ms": 3000}]
    return {"name": name, "deadline_ms": 40000, "sent": sent, "strip": 0,
            "sockets": [{"name": "rx", "type": "REP", "opts": []}, {"name": "tx", "type": "DEALER", "opts": []}],
            "tasks": [{"name": "rep", "ops": rep}, {"name": "dealer", "ops": dl}]}


def concurrent_scenario(name, transport, npeers=3, nmsgs=30):
    ep = S.endpoint(transport, name)
    socks = [{"name": "rx", "type": "PULL", "opts": []}]
    sent = {}
    tasks = [{"name": "rx", "ops": [{"op": "bind", "sock": "rx", "ep": ep, "save": "ep"}, {"op": "barrier", "name": "go", "parties": npeers + 1},
                                    {"op": "recv_n", "sock": "rx", "n": npeers * nmsgs * 4 + 5, "timeout_ms": 1500}]}]
    for p in range(npeers):
        nm = "t%d" % p
        socks.append({"name": nm, "type": "PUSH", "opts": []})
        ops = [{"op": "barrier", "name": "go", "parties": npeers + 1}, {"op": "connect", "sock": nm, "ep": "$ep"}, {"op": "sleep", "ms": 200}]
        for k in range(1, nmsgs + 1):
            sh = [24, 13, 300][: 1 + (k + p) % 3] + [0] * ((k + p) % 2)
            mid = "%s:%d" % (nm, k)
            sent[mid] = sh
            ops.append({"op": "send_mp", "sock": nm, "mid": mid, "sizes": sh, "timeout_ms": 3000})
        tasks.append({"name": nm, "ops": ops})
    return {"name": name, "deadline_ms": 60000, "sent": sent, "strip": 0, "sockets": socks, "tasks": tasks}


def cap_scenario(name, tx_type, rx_type, nframes):
    ep = S.endpoint("tcp", name)
    rx_opts = [[S.SUBSCRIBE, "str", ""]] if rx_type == "SUB" else []
    return {"name": name, "deadline_ms": 40000, "sent": {"big:1": [13] * nframes, "after:1": [24]}, "strip": 1 if rx_type == "ROUTER" else 0, "nframes": nframes,
            "sockets": [{"name": "tx", "type": tx_type, "opts": [S.i32(S.SNDTIMEO, 3000)]}, {"name": "rx", "type": rx_type, "opts": rx_opts}],
            "tasks": [{"name": "rx", "ops": [{"op": "bind", "sock": "rx", "ep": ep, "save": "ep"}, {"op": "barrier", "name": "go", "parties": 2},
                                            {"op": "recv_n", "sock": "rx", "n": 3, "timeout_ms": 1500, "multipart": True}]},
                      {"name": "tx", "ops": [{"op": "barrier", "name": "go", "parties": 2}, {"op": "connect", "sock": "tx", "ep": "$ep"}, {"op": "sleep", "ms": 250},
                                            {"op": "send_mp", "sock": "tx", "mid": "big:1", "sizes": [13] * nframes, "timeout_ms": 3000},
                                            {"op": "sleep", "ms": 300},
                                            {"op": "send_mp", "sock": "tx", "mid": "after:1", "sizes": [24], "timeout_ms": 3000}]}]}


def run(ctx):
    thorough = ctx.tier == "thorough"
    vlib.cargo_build()
    ctx.model_check("MC_Ingress", "MC_Ingress_quick.cfg", workers=8, timeout=900)
    ctx.exhaustive = True
    sim = ctx.model_check("MC_Ingress", "MC_Ingress_sim.cfg", workers=1, simulate=6000 if thorough else 700, depth=40, seed=ctx.seed, timeout=900)
    beh = sim.replays
    if not beh:
        raise vlib.ToolError("no histories exported")
    ctx.sample({"from": "MC_Ingress_sim", "history": beh[0]["steps"][:10]})
    r = replay_ingress(ctx, beh, "sim")
    ctx.traces += r["runs"]
    for o in r["outcomes"]:
        for i in o["issues"]:
            if i["class"] == "drift":
                ctx.drift += 1
                if ctx.drift <= 5:
                    ctx.note("drift (history %d step %s): %s" % (o["index"], i["step"], i["detail"][:200]))
            elif i["class"] == "prop":
                ctx.violation("C02:ingress:%s" % i["code"], i["detail"][:500], {"kind": "tlc-behaviour", "module": "MC_Ingress", "behaviour": beh[o["index"]], "issue": i})
    st = replay_ingress(ctx, [b for b in beh if b["steps"] and b["steps"][-1]["op"] == "recv"][:30], "self", perturb=True)
    flagged = sum(1 for o in st["outcomes"] if any(i["class"] == "selftest" for i in o["issues"]))
    ctx.selftest["perturbed_recv_expectation_rejected"] = "%d/%d" % (flagged, st["runs"])
    if st["runs"] and flagged < st["runs"]:
        raise vlib.ToolError("binding self-test failed")

    # ---- sockets ----
    scs = []
    for style in ["recv", "recv_mp", "mixed"]:
        scs.append(mp_scenario("mp-pushpull-tcp-%s" % style, "PUSH", "PULL", "tcp", style, SHAPES))
    scs.append(mp_scenario("mp-pushpull-ipc-mixed", "PUSH", "PULL", "ipc", "mixed", SHAPES))
    scs.append(mp_scenario("mp-pushpull-inproc-recv", "PUSH", "PULL", "inproc", "recv", SHAPES))
    scs.append(mp_scenario("mp-pubsub-tcp-recv_mp", "PUB", "SUB", "tcp", "recv_mp", [[24, 24], [24, 0, 24], [24] * 5]))
    scs.append(mp_scenario("mp-dealerrouter-tcp-recv_mp", "DEALER", "ROUTER", "tcp", "recv_mp", SHAPES))
    scs.append(mp_scenario("mp-pushpull-tcp-nomore", "PUSH", "PULL", "tcp", "recv_mp", [[24, 24, 24], [24, 0], [13] * 6], set_more=False))
    scs.append(mp_scenario("mp-dealerrouter-tcp-nomore", "DEALER", "ROUTER", "tcp", "recv_mp", [[24, 24, 24], [24, 0]], set_more=False))
    scs.append(mp_scenario("mp-pubsub-tcp-nomore", "PUB", "SUB", "tcp", "recv_mp", [[24, 24, 24], [24, 24]], set_more=False))
    scs.append(router_to_dealer("mp-routerdealer-tcp", "tcp", [[24], [24, 0, 24], [0, 24], [13] * 9], True))
    scs.append(router_to_dealer("mp-routerdealer-tcp-nomore", "tcp", [[24, 24, 24], [24, 0, 24]], False))
    scs.append(mp_scenario("mp-pushpull-tcp-uring-mixed", "PUSH", "PULL", "tcp", "mixed", SHAPES, uring=True))
    scs.append(detach_scenario("mp-detach-tcp", "tcp"))
    scs.append(detach_scenario("mp-detach-ipc", "ipc"))
    # the same for every socket type that can be read frame by frame
    for pair in [("ROUTER", "DEALER"), ("DEALER", "ROUTER"), ("PUB", "SUB"), ("DEALER", "DEALER")]:
        for tr in (["tcp", "ipc", "inproc"] if thorough else ["tcp"]):
            if tr == "inproc" and pair == ("DEALER", "DEALER"):
                continue      # refused by inproc's own socket-type table (known finding C05-b)
            scs.append(detach_scenario("mp-detach%s-%s" % (pair[1].lower(), tr), tr, pair))
    scs.append(concurrent_scenario("mp-concurrent-tcp", "tcp"))
    # every way of reading x every receiver that takes multipart; parts passed one by one at the sender
    for style in ["recv", "mixed"]:
        scs.append(mp_scenario("mp-dealerrouter-tcp-%s" % style, "DEALER", "ROUTER", "tcp", style, SHAPES))
        scs.append(mp_scenario("mp-routerdealer2-tcp-%s" % style, "ROUTER", "DEALER", "tcp", style, [[24], [24, 0, 24], [13] * 9, [255, 256]]))
        if thorough:
            scs.append(mp_scenario("mp-pubsub-tcp-%s" % style, "PUB", "SUB", "tcp", style, [[24, 24, 24], [24, 0], [13] * 6]))
            scs.append(mp_scenario("mp-dealerrouter-inproc-%s" % style, "DEALER", "ROUTER", "inproc", style, SHAPES))
    scs.append(rep_frames_scenario("mp-repframes-tcp", "tcp"))
    for (t, rcv) in [("PUSH", "PULL"), ("DEALER", "ROUTER"), ("PUB", "SUB")]:
        scs.append(framewise_send("mp-framewise%s-tcp" % t.lower(), t, rcv, "tcp", [[24, 24, 24], [24, 24], [24], [13] * 6, [24, 0, 24]]))
    # a DEALER message of 257 parts passed one by one: refused at some part, never a panic
    big = framewise_send("mp-framewisedealer-toomany", "DEALER", "ROUTER", "tcp", [[5] * 257, [24, 24]], nrx=1)
    big["toomany"] = True
    scs.append(big)
    for (t, rcv) in [("PUSH", "PULL"), ("DEALER", "ROUTER"), ("PUB", "SUB")]:
        for nf in ([249, 250, 251, 253, 255, 256, 300] if thorough else [250, 251, 255, 256]):
            scs.append(cap_scenario("cap-%s-%d" % (t.lower(), nf), t, rcv, nf))
    extra = [(s.pop("receivers", ["rx"]), s.pop("toomany", False)) for s in scs]
    meta = [(s.pop("sent"), s.pop("strip"), s.pop("nframes", None)) for s in scs]
    res = S.run_scenarios(ctx, scs, "c02", timeout=2400, jobs=4)
    for sc, (sent, strip, nframes), (receivers, toomany), r0 in zip(scs, meta, extra, res):
        backend = "io_uring" if sc.get("uring") else "tokio"
        rp = {"kind": "recorded-trace", "scenario": sc["name"], "records": [x for x in r0["records"] if x.get("ev") == "ret"][:250], "hung": r0["hung"], "panics": r0["panics"]}
        kind = sc["name"].split("-")[1] if not sc["name"].startswith("cap") else "cap-" + sc["name"].split("-")[1]
        if r0["panics"]:
            ctx.violation("C02:panic:%s" % kind, "%s: panic inside rzmq: %s" % (sc["name"], r0["panics"][0][:300]), rp)
        if toomany:
            # the over-long message must have been refused at some part; what follows a refusal is up to the
            # application, so only the absence of a panic (above) and the refusal are judged
            refused = [x for x in S.rets(r0, "send", sock="tx") if x.get("res") != "ok"]
            if not refused:
                ctx.violation("C02:cap:accepted:framewise", "%s: 257 parts passed one by one were all accepted" % sc["name"], rp)
            continue
        problem, msgs = None, []
        for rcv in receivers:
            problem, m1 = check_whole(frame_stream(r0, rcv), sent, strip)
            msgs += m1
            if problem:
                problem = "%s: %s" % (rcv, problem)
                break
        if problem:
            ctx.violation("C02:not-whole:%s:%s" % (kind, backend), "%s: %s" % (sc["name"], problem), rp)
            continue
        seen = set()
        for m in msgs:
            tagged = [f for f in m[strip:] if f[0] and ":" in f[0] and not f[0].startswith("?")]
            if tagged:
                seen.add(tagged[0][0].rsplit(".", 1)[0])
        sends = {x["mid"]: x["res"] for x in S.rets(r0, "send_mp", sock="tx")}
        for x in S.rets(r0, "send", sock="tx"):
            m = x.get("mid", "").rsplit(".", 1)[0]
            if x.get("res") != "ok" or m not in sends:
                sends[m] = x["res"] if x.get("res") != "ok" else sends.get(m, "ok")
        for p in range(3):
            sends.update({x["mid"]: x["res"] for x in S.rets(r0, "send_mp", sock="t%d" % p)})
        sends.update({x["mid"]: x["res"] for x in S.rets(r0, "send_mp", sock="ta")})
        if sc["name"].startswith("cap"):
            big = sends.get("big:1")
            if nframes > 250 and big == "ok":
                ctx.violation("C02:cap:accepted:%s" % kind, "%s: a %d-frame message was accepted by send_multipart()" % (sc["name"], nframes), rp)
            if nframes <= 250 and big != "ok":
                ctx.violation("C02:cap:refused:%s" % kind, "%s: a %d-frame message (within the documented limit of 250) was refused: %s" % (sc["name"], nframes, big), rp)
            if big == "ok" and "big:1" not in seen and sc["name"].split("-")[1] != "pub":
                # accepted but not delivered whole: allowed only if the receiver closed the offending connection
                if "after:1" in seen:
                    ctx.violation("C02:cap:lost:%s" % kind, "%s: a %d-frame message was accepted, never delivered, and the connection stayed up" % (sc["name"], nframes), rp)
            continue
        expected = [m for m in sent if sends.get(m, "ok") == "ok" and not all(s == 0 for s in sent[m])]
        missing = [m for m in expected if m not in seen]
        refused = [x for x in r0["records"] if x.get("ev") == "ret" and x.get("op") == "connect" and x.get("res", "ok") != "ok"]
        if missing and refused:
            # no connection, nothing to judge: the pair is refused over this transport (inproc's own table, see C05-b)
            ctx.note("%s: not judged, connect() was refused (%s)" % (sc["name"], refused[0].get("res")))
            continue
        if missing and not sc["name"].startswith("mp-pubsub"):
            ctx.violation("C02:lost:%s:%s" % (kind, backend), "%s: multipart messages %s were accepted and never delivered" % (sc["name"], missing[:5]), rp)
    ctx.sample({"from": "real sockets", "scenario": scs[2]["name"], "frames": frame_stream(res[2], "rx")[:12]})
    ctx.assumptions += [
        "all-empty messages cannot be attributed to a sender and are checked by their sizes only",
        "PUB may drop whole messages under back-pressure; for PUB only wholeness and flags are checked",
    ]


def replay(path):
    rp = json.load(open(path))
    ctx = vlib.Ctx("C02", "quick", rp.get("seed", 1))
    vlib.cargo_build()
    if rp["replay"].get("behaviour"):
        r = replay_ingress(ctx, [rp["replay"]["behaviour"]], "one")
        bad = [i for o in r["outcomes"] for i in o["issues"] if i["class"] == "prop"]
        for i in bad:
            print("REPRODUCED %s" % i["detail"])
        return 1 if bad else 0
    print("socket-level replay: re-run `python3 tools/check.py C02 --tier quick` (scenario %s)" % rp["replay"].get("scenario"))
    return 0
