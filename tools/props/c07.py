"""C07 - no byte stream from a peer can crash rzmq or make it buffer without bound.

Spec    : spec/Script.tla (engine total on every token in every phase, closed stays closed,
          partial message bounded by the frame cap) and spec/Wire.tla (MAXMSGSIZE: LimitExact,
          AccBound).
TLC     : MC_Script_quick (all secured roles), MC_Script_open (NULL, v2/v3, cuts), MC_Script_more
          (runs of MORE frames against the frame cap), MC_Wire_limit.
Binding : B1. Behaviours are concretised and fed to the real engine under catch_unwind with
          MAXMSGSIZE set; every behaviour is also replayed with seeded byte-level mutations
          (bit flips, truncation, length-field extremes 0/255/256/2^31/2^63/2^64-1, invalid
          UTF-8, random bytes, duplication).  MORE-runs are expanded so that the model's frame
          cap (3) lines up with the code's (255).  Oracles: no panic, buffer_len() bounded by
          MAXMSGSIZE + header + one read, exact limit verdict (Wire replay).
"""
import json
import os
import vlib
from props import enginelib as el
from props import c03


def run(ctx):
    thorough = ctx.tier == "thorough"
    vlib.cargo_build()
    ctx.model_check("MC_Script", "MC_Script_quick.cfg", workers=8, timeout=1200)
    ctx.model_check("MC_Script", "MC_Script_open.cfg", workers=8, timeout=1200)
    ctx.model_check("MC_Wire", "MC_Wire_limit.cfg", workers=4, timeout=600)
    ctx.exhaustive = True
    more = ctx.model_check("MC_Script", "MC_Script_more.cfg", workers=4, timeout=900, coverage=False)
    sim = ctx.model_check("MC_Script", "MC_Script_sim.cfg", workers=1, simulate=10000 if thorough else 1000, depth=80,
                          seed=ctx.seed, timeout=1500)
    siml = ctx.model_check("MC_Wire", "MC_Wire_simlimit.cfg", workers=1, simulate=1500 if thorough else 150, depth=80,
                           seed=ctx.seed + 1, timeout=900)
    beh = el.need(sim, "Script sim")
    ctx.sample({"from": "MC_Script_sim", "behaviour": beh[0]})
    ctx.sample({"from": "MC_Script_more", "behaviour": el.need(more, "more runs")[-1]})
    el.script_replay(ctx, "C07", beh, "all", mutate=8 if thorough else 3, bodycuts=True)   # + every command body ending early, at every byte
    el.script_replay(ctx, "C07", more.replays, "more", expand=84)
    # valid transcripts (NULL, v2, PLAIN with the right password, in either role): every command of a handshake that
    # gets that far, with its body ending early at every byte - the parsers behind the happy path
    tv = ctx.model_check("MC_Script", "MC_Script_simopen.cfg", workers=1, simulate=1500 if thorough else 300, depth=80, seed=ctx.seed + 5, timeout=900)
    tp = ctx.model_check("MC_Script", "MC_Script_simtranscripts_plain.cfg", workers=1, simulate=1500 if thorough else 300, depth=80, seed=ctx.seed + 6, timeout=900)
    el.script_replay(ctx, "C07", el.need(tv, "open transcripts") + el.need(tp, "PLAIN transcripts"), "cuts", bodycuts=True)
    # MAXMSGSIZE verdicts through every decoder entry point (C03's replay, limit kinds only)
    path = os.path.join(ctx.work, "wire_limit.jsonl")
    out = os.path.join(ctx.work, "wire_limit.out")
    vlib.write_jsonl(path, el.need(siml, "Wire limit"))
    vlib.vh(["wire", path, out], timeout=900)
    r = json.load(open(out))
    ctx.traces += r["behaviours"]
    for f in r["failures"]:
        for m in f["mismatches"]:
            if m["kind"] in ("limit", "panic"):
                ctx.violation("C07:%s:%s" % (m["kind"], m["site"]), "%s: %s" % (m["site"], m["detail"]),
                              {"kind": "tlc-behaviour", "module": "MC_Wire", "behaviour": siml.replays[f["index"]], "mismatch": m})
    el.selftest(ctx, "script", beh)
    from props import socklib
    socklib.c07_sockets(ctx)
    ctx.assumptions += [
        "engine level: the session actor's handshake timer and connection-slot accounting are covered by the socket-level part of this check when present",
        "mutations are seeded samples, not an enumeration of all byte strings",
    ]


def replay(path):
    rp = json.load(open(path))
    ctx = vlib.Ctx("C07", "quick", rp.get("seed", 1))
    vlib.cargo_build()
    if rp["replay"].get("module") == "MC_Wire":
        c03.replay_behaviours(ctx, [rp["replay"]["behaviour"]], "one")
    else:
        el.script_replay(ctx, "C07", [rp["replay"]["behaviour"]], "one", mutate=8)
    for v in ctx.violations:
        print("REPRODUCED %s" % v["what"])
    return 1 if ctx.violations else 0
