"""C10 - REQ and REP enforce strict alternation for every call history.

Spec    : spec/ReqRep.tla - each API call is a process (Enter serialiser / Check state / Act / Set) on
          clones of one socket; request and reply channels; the stored requester.
TLC     : 3 concurrent callers x 3 calls each, every interleaving, every call sequence:
          ReqAlternates, RepAlternates, RepliesMatch.
Binding : B2 - real REQ / REP sockets whose calling tasks run under the controlled scheduler: two calls
          racing on clones are held exactly at the point after the state check (verif_point) in every
          order; exactly one may succeed, the other must fail with InvalidState, the reply must reach
          the requester whose request was taken.
          B3 - every sequence of <= 5 send/recv calls on a real REQ (echo peer) and on a real REP (feeding
          peer) over tcp and inproc; the recorded call results are validated by TLC against the state
          machines (Trace_ReqRep): InvalidState exactly when the model's check fails, nothing changes.
"""
import itertools
import json
import os
import vlib
from props import socklib as S


def seq_scenarios(maxlen):
    scs = []
    for tr in ["tcp", "inproc"]:
        for n in range(1, maxlen + 1):
            for seq in itertools.product(["send", "recv"], repeat=n):
                if n > 3 and seq[0] == seq[1] == seq[2]:
                    continue
                ep = S.endpoint(tr, "c10")
                # REQ under test against an echo REP
                req_ops = [{"op": "barrier", "name": "go", "parties": 2}, {"op": "connect", "sock": "req", "ep": "$ep"}, {"op": "sleep", "ms": 120}]
                k = 0
                for o in seq:
                    if o == "send":
                        k += 1
                        req_ops.append({"op": "send", "sock": "req", "mid": "q:%d" % k, "size": 24, "timeout_ms": 1500})
                    else:
                        req_ops.append({"op": "recv", "sock": "req", "timeout_ms": 1500})
                req_ops.append({"op": "mark", "name": "done"})
                echo = [{"op": "bind", "sock": "rep", "ep": ep, "save": "ep"}, {"op": "barrier", "name": "go", "parties": 2}]
                for _ in range(seq.count("send")):
                    echo += [{"op": "recv", "sock": "rep", "timeout_ms": 700}, {"op": "send", "sock": "rep", "mid": "r:1", "size": 24, "timeout_ms": 700}]
                scs.append({"name": "req-%s-%s" % (tr, "".join(o[0] for o in seq)), "deadline_ms": 20000, "under_test": "req", "seq": seq,
                            "sockets": [{"name": "req", "type": "REQ", "opts": [S.i32(S.RCVTIMEO, 400), S.i32(S.SNDTIMEO, 400)]},
                                        {"name": "rep", "type": "REP", "opts": []}],
                            "tasks": [{"name": "echo", "ops": echo}, {"name": "req", "ops": req_ops}]})
                # REP under test against a feeding REQ (keeps a request pending whenever it may)
                rep_ops = [{"op": "bind", "sock": "rep", "ep": ep + "x" if tr != "tcp" else ep, "save": "ep2"}, {"op": "barrier", "name": "go2", "parties": 2}, {"op": "sleep", "ms": 200}]
                for o in seq:
                    if o == "send":
                        rep_ops.append({"op": "send", "sock": "rep", "mid": "r:1", "size": 24, "timeout_ms": 1500})
                    else:
                        rep_ops.append({"op": "recv", "sock": "rep", "timeout_ms": 1500})
                feed = [{"op": "barrier", "name": "go2", "parties": 2}, {"op": "connect", "sock": "req", "ep": "$ep2"}]
                for j in range(seq.count("recv") + 1):
                    feed += [{"op": "send", "sock": "req", "mid": "q:%d" % (j + 1), "size": 24, "timeout_ms": 1500}, {"op": "recv", "sock": "req", "timeout_ms": 600}]
                scs.append({"name": "rep-%s-%s" % (tr, "".join(o[0] for o in seq)), "deadline_ms": 25000, "under_test": "rep", "seq": seq,
                            "sockets": [{"name": "req", "type": "REQ", "opts": []},
                                        {"name": "rep", "type": "REP", "opts": [S.i32(S.RCVTIMEO, 600), S.i32(S.SNDTIMEO, 600)]}],
                            "tasks": [{"name": "feed", "ops": feed}, {"name": "rep", "ops": rep_ops}]})
    return scs


def req_frames_scenarios():
    """A refused call changes nothing - also not the rest of a reply that is being read frame by frame:
    a send() issued out of turn before / between the recv() calls that read a 3-frame reply."""
    scs = []
    for tr in ["tcp", "inproc"]:
        for pos in range(3):
            ep = S.endpoint(tr, "c10fr")
            reads = []
            for k in range(3):
                if k == pos:
                    reads.append({"op": "send", "sock": "req", "mid": "q:x", "size": 24})
                reads.append({"op": "recv", "sock": "req"})
            scs.append({"name": "reqframes-%s-at%d" % (tr, pos), "deadline_ms": 20000,
                        "sockets": [{"name": "req", "type": "REQ", "opts": [S.i32(S.RCVTIMEO, 700), S.i32(S.SNDTIMEO, 700)]}, {"name": "rep", "type": "REP", "opts": []}],
                        "tasks": [{"name": "echo", "ops": [{"op": "bind", "sock": "rep", "ep": ep, "save": "ep"}, {"op": "barrier", "name": "go", "parties": 2},
                                                          {"op": "recv_mp", "sock": "rep", "timeout_ms": 2000}, {"op": "send_mp", "sock": "rep", "mid": "r:1", "sizes": [24, 24, 24], "timeout_ms": 700},
                                                          {"op": "recv_mp", "sock": "rep", "timeout_ms": 3000}, {"op": "send_mp", "sock": "rep", "mid": "r:2", "sizes": [24], "timeout_ms": 700}]},
                                  {"name": "req", "ops": [{"op": "barrier", "name": "go", "parties": 2}, {"op": "connect", "sock": "req", "ep": "$ep"}, {"op": "sleep", "ms": 150},
                                                         {"op": "send", "sock": "req", "mid": "q:1", "size": 24}, {"op": "sleep", "ms": 150}] + reads +
                                                        [{"op": "send", "sock": "req", "mid": "q:2", "size": 24}, {"op": "recv", "sock": "req"}]}]})
    return scs


def check_req_frames(ctx, sc, r0):
    calls = [x for x in r0["records"] if x.get("ev") == "ret" and x.get("task") == "req" and x.get("op") in ("send", "recv")]
    rp = {"kind": "recorded-trace", "scenario": sc["name"], "calls": [{k: v for k, v in x.items() if k in ("op", "res", "mid", "more")} for x in calls]}
    if r0["panics"]:
        ctx.violation("C10:panic", "panic in %s: %s" % (sc["name"], r0["panics"][0]), rp)
    refused = [x for x in calls if x["op"] == "send" and x.get("mid") == "q:x"]
    if not refused or refused[0].get("res") != "err:InvalidState":
        ctx.violation("C10:fsm:req.send:%s" % ("ok" if refused and refused[0].get("res") == "ok" else "other"),
                      "%s: a send() while the REQ is waiting for / reading its reply returned %s" % (sc["name"], refused[0].get("res") if refused else "nothing"), rp)
        return
    got = [(x.get("mid"), x.get("res")) for x in calls if x["op"] == "recv"]
    want = [("r:1.1", "ok"), ("r:1.2", "ok"), ("r:1.3", "ok"), ("r:2.1", "ok")]
    if got != want:
        ctx.violation("C10:refused-call-changed-state", "%s: a send() refused with InvalidState must change nothing, but the frames of the reply then read with recv() were %s instead of %s" % (
            sc["name"], got, [m for m, _ in want]), rp)


def run(ctx):
    thorough = ctx.tier == "thorough"
    vlib.cargo_build()
    ctx.model_check("ReqRep", "MC_ReqRep_thorough.cfg" if thorough else "MC_ReqRep_quick.cfg", workers=8, timeout=2400)
    ctx.exhaustive = True
    # B2: racing calls held at the state check
    out = os.path.join(ctx.work, "reqrep.out")
    vlib.vh(["reqrep", out], timeout=600)
    r = json.load(open(out))
    ctx.traces += r["runs"]
    ctx.sample({"from": "controlled schedule on real REQ", "scenario": r["outcomes"][0]["scenario"], "schedule": r["outcomes"][0]["schedule"], "results": r["outcomes"][0]["results"]})
    for o in r["outcomes"]:
        for i in o["issues"]:
            if i["class"] == "prop":
                ctx.violation("C10:%s" % i["code"], i["detail"][:600], {"kind": "schedule", "scenario": o["scenario"], "schedule": o["schedule"], "results": o["results"]})
            elif i["class"] == "tool":
                raise vlib.ToolError("reqrep setup: " + i["detail"])
    # B3: sequential histories
    scs = seq_scenarios(5 if thorough else 4)
    # a reply that comes later than RCVTIMEO: the failed recv() must not re-open the REQ for a send
    for tr in ["tcp", "inproc"]:
        ep = S.endpoint(tr, "c10slow")
        scs.append({"name": "reqslow-%s-srsr" % tr, "deadline_ms": 20000, "under_test": "req", "seq": ("send", "recv", "send", "recv", "recv"),
                    "sockets": [{"name": "req", "type": "REQ", "opts": [S.i32(S.RCVTIMEO, 150), S.i32(S.SNDTIMEO, 400)]}, {"name": "rep", "type": "REP", "opts": []}],
                    "tasks": [{"name": "echo", "ops": [{"op": "bind", "sock": "rep", "ep": ep, "save": "ep"}, {"op": "barrier", "name": "go", "parties": 2},
                                                      {"op": "recv", "sock": "rep", "timeout_ms": 2000}, {"op": "sleep", "ms": 600},
                                                      {"op": "send", "sock": "rep", "mid": "r:1", "size": 24, "timeout_ms": 700},
                                                      {"op": "recv", "sock": "rep", "timeout_ms": 1200}, {"op": "send", "sock": "rep", "mid": "r:2", "size": 24, "timeout_ms": 700}]},
                              {"name": "req", "ops": [{"op": "barrier", "name": "go", "parties": 2}, {"op": "connect", "sock": "req", "ep": "$ep"}, {"op": "sleep", "ms": 150},
                                                     {"op": "send", "sock": "req", "mid": "q:1", "size": 24}, {"op": "recv", "sock": "req"},
                                                     {"op": "send", "sock": "req", "mid": "q:2", "size": 24}, {"op": "recv", "sock": "req", "timeout_ms": 1500},
                                                     {"op": "recv", "sock": "req", "timeout_ms": 1500}]}]})
    metas = [(s.pop("under_test"), s.pop("seq")) for s in scs]
    res = S.run_scenarios(ctx, scs, "c10", timeout=2400, jobs=6)
    fscs = req_frames_scenarios()
    for sc, r0 in zip(fscs, S.run_scenarios(ctx, fscs, "c10fr", timeout=900, jobs=6)):
        check_req_frames(ctx, sc, r0)
    lines = []
    index = []
    for sc, (ut, seq), r0 in zip(scs, metas, res):
        recs = [x for x in r0["records"] if x.get("ev") == "ret" and x.get("task") == ut and x.get("op") in ("send", "recv")]
        start = len(lines)
        for x in recs:
            res_s = "ok" if x["res"] == "ok" else ("invalid" if x["res"] == "err:InvalidState" else "fail")
            lines.append({"op": "%s.%s" % (ut, x["op"]), "res": res_s})
        lines.append({"op": "reset"})
        index.append((start, sc, r0, recs))
        if r0["panics"]:
            ctx.violation("C10:panic", "panic in %s: %s" % (sc["name"], r0["panics"][0]), {"kind": "recorded-trace", "scenario": sc})
        if r0["hung"]:
            ctx.violation("C10:call-hangs", "%s: a call never returned: %s" % (sc["name"], r0["hung"]), {"kind": "recorded-trace", "scenario": sc})
    ctx.sample({"from": "sequential history", "scenario": scs[3]["name"], "calls": lines[index[3][0]:index[3][0] + 6]})
    # validate, locating rejected histories one at a time
    pending = 0
    guard = 0
    while pending < len(lines) and guard < 10:
        guard += 1
        path = os.path.join(ctx.work, "rr_trace_%d.ndjson" % guard)
        with open(path, "w") as f:
            for l in lines[pending:]:
                f.write(json.dumps(l) + "\n")
        tres = ctx.trace_check("Trace_ReqRep", "Trace_ReqRep.cfg", path)
        ctx.extra["api_calls_validated"] = ctx.extra.get("api_calls_validated", 0) + max(tres.generated - 1, 0)
        if not tres.rejected:
            break
        at = pending + tres.rejected[0][1]
        which = max(i for i, (st, _, _, _) in enumerate(index) if st <= at)
        st, sc, r0, recs = index[which]
        bad = lines[at]
        after_timeout = any(l["op"] == "req.recv" and l["res"] == "fail" for l in lines[st:at])
        ctx.violation("C10:%s:%s:%s" % ("fsm-after-timeout" if after_timeout else "fsm", bad["op"], bad["res"]),
                      "%s: call %d (%s) returned %s, which the %s state machine does not allow after %s" % (
                          sc["name"], at - st + 1, bad["op"], bad["res"], bad["op"].split(".")[0].upper(), [l["op"].split(".")[1] + ":" + l["res"] for l in lines[st:at]]),
                      {"kind": "recorded-trace", "scenario": sc, "calls": lines[st:at + 1]})
        # skip to the history after the rejected one
        nxt = index[which + 1][0] if which + 1 < len(index) else len(lines)
        pending = nxt
    ctx.assumptions += [
        "B2 interleaves at the verif_point after the state check and at every await; finer interleavings inside the mutex-protected sections are not explored",
        "sequential histories use an echo / feeding peer so that Act succeeds whenever the check passes; timeouts are classified as fail (state unchanged)",
    ]


def replay(path):
    rp = json.load(open(path))
    ctx = vlib.Ctx("C10", "quick", rp.get("seed", 1))
    vlib.cargo_build()
    out = os.path.join(ctx.work, "reqrep.out")
    vlib.vh(["reqrep", out], timeout=600)
    r = json.load(open(out))
    bad = [i for o in r["outcomes"] for i in o["issues"] if i["class"] == "prop"]
    for i in bad:
        print("REPRODUCED %s" % i["detail"])
    return 1 if bad else 0
