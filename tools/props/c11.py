"""C11 - ROUTER addresses by true peer identity; envelopes round-trip unchanged.

Spec    : spec/Router.tla - the ROUTER's forward (identity -> connection) and reverse (connection ->
          identity) maps under attach (placeholder identity), identity announcement, detach, with
          colliding identities: SendGoesToAnnouncer, PrefixIsTruth, Routable.
TLC     : 3 connections x 2 identities x 7 operations, every order (exhaustive); every history of 6
          operations exported (8 367).
Binding : B1 - every exported history replayed on the real RouterMap, both maps compared with the
          model after every operation, the three invariants evaluated on the real maps; the delimiter
          helpers Decode(Encode(p)) = p for every payload shape over {empty, non-empty} up to 3 frames.
          B3 - real ROUTER with DEALER / REQ peers (distinct, absent, colliding identities; payloads with
          empty frames in every position; ROUTER_MANDATORY on/off; reconnect with the same identity;
          tcp / ipc / inproc / io_uring): the identity frame the ROUTER reports is the sender's
          ROUTING_ID, echoes and explicitly addressed messages reach only the addressed peer with the
          payload frames unchanged, unroutable identities give HostUnreachable / are dropped silently.
"""
import json
import os
import vlib
from props import socklib as S


def replay_router(ctx, beh, tag, perturb=False):
    path = os.path.join(ctx.work, "router_%s.jsonl" % tag)
    out = os.path.join(ctx.work, "router_%s.out" % tag)
    vlib.write_jsonl(path, beh)
    vlib.vh(["router", path, out] + (["--perturb"] if perturb else []), timeout=900)
    return json.load(open(out))


def payload_of(rec):
    """(sizes, ids) of the payload frames of a recv_mp record, without identity frames."""
    return rec.get("sizes", []), rec.get("ids", [])


def refused_connects(r):
    """sockets whose connect() was refused (inproc keeps its own, narrower socket-type table: C05-b)"""
    return {x["sock"] for x in r["records"] if x.get("ev") == "ret" and x.get("op") == "connect" and x.get("res", "ok") != "ok"}


def check_router_run(ctx, sc, r):
    name = sc["name"]
    backend = "io_uring" if sc.get("uring") else "tokio"
    rp = {"kind": "recorded-trace", "scenario": name, "records": [x for x in r["records"] if x.get("ev") == "ret"][:200], "hung": r["hung"], "panics": r["panics"]}
    V = lambda code, what: ctx.violation("C11:%s:%s" % (code, backend), "%s: %s" % (name, what), rp)
    if r["panics"]:
        V("panic", "panic: %s" % r["panics"][0])
    peers = sc["peers"]
    # 1. what the ROUTER received: identity frame and payload per message
    placeholder = {}
    for x in S.rets(r, "recv_mp", sock="router"):
        if x.get("res") != "ok":
            continue
        ids = x.get("ids", [])
        sizes = x.get("sizes", [])
        tagged = [i for i in ids if ":" in i and not i.startswith("?")]
        if not tagged:
            # all-empty payload: cannot tell the sender from the payload; identity check is skipped
            continue
        sender = tagged[0].split(":")[0]            # "p0"
        pi = int(sender[1:])
        ty, pid = peers[pi]
        ident = bytes.fromhex(x.get("hex", ""))
        if pid:
            if ident != pid.encode():
                V("wrong-identity-prefix", "a message from %s (ROUTING_ID %r) was reported with identity %r" % (sender, pid[:20], ident[:20]))
        else:
            placeholder.setdefault(sender, ident)
            if placeholder[sender] != ident:
                V("unstable-placeholder", "the anonymous peer %s was reported with two identities %r / %r" % (sender, placeholder[sender], ident))
            for (t2, p2) in peers:
                if p2 and ident == p2.encode():
                    V("wrong-identity-prefix", "the anonymous peer %s was reported with another peer's identity %r" % (sender, ident))
    if sc.get("poll"):
        n_ok = len([x for x in S.rets(r, "recv_mp", sock="router") if x.get("res") == "ok"])
        if n_ok < 2 * len(peers):
            ctx.note("%s: the polling ROUTER saw %d of %d messages within its window (identity of those judged)" % (name, n_ok, 2 * len(peers)))
        return
    # 2. echoes: each peer gets back exactly its own payloads, in order, unchanged
    refused = refused_connects(r)
    for pi, (ty, pid) in enumerate(peers):
        nm = "p%d" % pi
        if nm in refused:
            ctx.note("%s: peer %s (%s) not judged, its connect() was refused over this transport" % (name, nm, ty))
            continue
        sent = [x for x in r["records"] if x.get("ev") == "call" and x.get("sock") == nm and x.get("op") in ("send", "send_mp")]
        if ty == "DEALER":
            got = [x for x in S.rets(r, "recv_mp", sock=nm)]
            echoes = got[:len(sent)]
            for k, (sx, gx) in enumerate(zip(sent, echoes), 1):
                if gx.get("res") != "ok":
                    V("echo-missing", "%s never got the echo of its message %d (%s): %s" % (nm, k, sx.get("sizes"), gx.get("res")))
                    break
                if gx.get("sizes") != sx.get("sizes"):
                    V("payload-changed", "%s sent frames of sizes %s and got back %s (ids %s) - payload frames were added / removed on the way" % (nm, sx.get("sizes"), gx.get("sizes"), gx.get("ids")))
                    break
                mine = [i for i in gx.get("ids", []) if ":" in i and not i.startswith("?")]
                if any(not i.startswith(nm + ":") for i in mine):
                    V("misrouted", "%s received a message that belongs to another peer: %s" % (nm, gx.get("ids")))
                    break
                if not gx.get("intact", True) and any(s > 0 for s in gx.get("sizes", [])):
                    V("payload-changed", "%s got back corrupted frames %s" % (nm, gx.get("ids")))
                    break
            # explicit addressing phase
            extra = got[len(sent):]
            for gx in extra:
                if gx.get("res") != "ok":
                    continue
                ids = [i for i in gx.get("ids", []) if ":" in i]
                if pid and ids and not ids[0].startswith("to-%s:" % nm):
                    V("misrouted", "%s (identity %r) received %s" % (nm, pid[:20], ids))
                if not pid and ids:
                    V("misrouted", "the anonymous peer %s received an explicitly addressed message %s" % (nm, ids))
                if gx.get("sizes") != [24, 0, 24] and ids and ids[0].startswith("to-"):
                    V("payload-changed", "%s: explicitly addressed payload [24,0,24] arrived as %s" % (nm, gx.get("sizes")))
            if pid and not any(i.startswith("to-%s:" % nm) for gx in extra for i in gx.get("ids", [])):
                dup = [p for p in peers if p[1] == pid]
                if len(dup) == 1:
                    V("addressed-message-lost", "a message the ROUTER addressed to %r never reached %s" % (pid[:20], nm))
        else:
            got = [x for x in S.rets(r, "recv", sock=nm)]
            for k, (sx, gx) in enumerate(zip(sent, got), 1):
                if gx.get("res") != "ok" or gx.get("mid") != sx.get("mid") or not gx.get("intact"):
                    V("echo-missing", "REQ %s sent %s and got back %s / %s" % (nm, sx.get("mid"), gx.get("res"), gx.get("mid")))
                    break
    # 3. unroutable identity
    nb = [x for x in S.rets(r, "send_mp", sock="router") if x.get("mid") == "to-nobody:1"]
    if nb:
        res = nb[0]["res"]
        if sc["mandatory"] and res != "err:HostUnreachable":
            V("mandatory", "ROUTER_MANDATORY=1: sending to an unknown identity returned %s instead of HostUnreachable" % res)
        if not sc["mandatory"] and res != "ok":
            V("mandatory", "ROUTER_MANDATORY=0: sending to an unknown identity returned %s instead of dropping silently" % res)


REPLY_SHAPES = [[24], [0, 24], [0], [0, 0, 24], [24, 0], [24, 0, 24], [0, 24, 0]]


def reply_shapes_scenario(name, transport):
    """A REQ and a DEALER each send one request per shape; the ROUTER answers with that shape."""
    ep = S.endpoint(transport, name)
    to = 2500
    socks = [{"name": "router", "type": "ROUTER", "opts": [S.i32(S.RCVTIMEO, to), S.i32(S.SNDTIMEO, to), S.i32(S.ROUTER_MANDATORY, 1)]},
             {"name": "req", "type": "REQ", "opts": [[S.ROUTING_ID, "str", "R"], S.i32(S.RCVTIMEO, to), S.i32(S.SNDTIMEO, to)]},
             {"name": "dlr", "type": "DEALER", "opts": [[S.ROUTING_ID, "str", "D"], S.i32(S.RCVTIMEO, to), S.i32(S.SNDTIMEO, to)]}]
    rops = [{"op": "bind", "sock": "router", "ep": ep, "save": "ep"}, {"op": "barrier", "name": "go", "parties": 3}]
    qops = [{"op": "barrier", "name": "go", "parties": 3}, {"op": "connect", "sock": "req", "ep": "$ep"}, {"op": "sleep", "ms": 250}]
    dops = [{"op": "barrier", "name": "go", "parties": 3}, {"op": "connect", "sock": "dlr", "ep": "$ep"}, {"op": "sleep", "ms": 250}]
    for k, sh in enumerate(REPLY_SHAPES, 1):
        qops += [{"op": "send", "sock": "req", "mid": "q:%d" % k, "size": 20, "timeout_ms": to}, {"op": "barrier", "name": "asked%d" % k, "parties": 3},
                 {"op": "recv_mp", "sock": "req", "timeout_ms": to}]
        dops += [{"op": "send", "sock": "dlr", "mid": "d:%d" % k, "size": 20, "timeout_ms": to}, {"op": "barrier", "name": "asked%d" % k, "parties": 3},
                 {"op": "recv_mp", "sock": "dlr", "timeout_ms": to}]
        rops += [{"op": "recv_mp", "sock": "router", "timeout_ms": to}, {"op": "recv_mp", "sock": "router", "timeout_ms": to}, {"op": "barrier", "name": "asked%d" % k, "parties": 3},
                 {"op": "send_mp", "sock": "router", "mid": "r:%d" % k, "sizes": sh, "prefix_hex": [b"R".hex()], "timeout_ms": to},
                 {"op": "send_mp", "sock": "router", "mid": "s:%d" % k, "sizes": sh, "prefix_hex": [b"D".hex()], "timeout_ms": to}]
    return {"name": name, "deadline_ms": 60000, "sockets": socks,
            "tasks": [{"name": "router", "ops": rops}, {"name": "req", "ops": qops}, {"name": "dlr", "ops": dops}]}


MANUAL_SHAPES = [[24], [24, 0, 24], [24, 24, 0], [0, 24], [0, 24, 0, 24], [24, 0], [24, 0, 0, 24]]


def manual_delimiter_scenario(name, transport):
    """AUTO_DELIMITER = 0 on the DEALER: the application owns the envelope, nothing is added on the way out.
    The ROUTER may take one leading empty frame for the delimiter; every other frame arrives as sent."""
    ep = S.endpoint(transport, name)
    to = 2500
    socks = [{"name": "router", "type": "ROUTER", "opts": [S.i32(S.RCVTIMEO, to), S.i32(S.SNDTIMEO, to)]},
             {"name": "man", "type": "DEALER", "opts": [[S.ROUTING_ID, "str", "M"], S.i32(42, 0), S.i32(S.RCVTIMEO, to), S.i32(S.SNDTIMEO, to)]}]
    rops = [{"op": "bind", "sock": "router", "ep": ep, "save": "ep"}, {"op": "barrier", "name": "go", "parties": 2}]
    mops = [{"op": "barrier", "name": "go", "parties": 2}, {"op": "connect", "sock": "man", "ep": "$ep"}, {"op": "sleep", "ms": 250}]
    for k, sh in enumerate(MANUAL_SHAPES, 1):
        mops += [{"op": "send_mp", "sock": "man", "mid": "m:%d" % k, "sizes": sh, "timeout_ms": to}, {"op": "recv_mp", "sock": "man", "timeout_ms": to}]
        rops += [{"op": "recv_mp", "sock": "router", "timeout_ms": to},
                 {"op": "send_mp", "sock": "router", "mid": "e:%d" % k, "sizes": sh, "prefix_hex": [b"M".hex()], "timeout_ms": to}]
    return {"name": name, "deadline_ms": 60000, "sockets": socks, "tasks": [{"name": "router", "ops": rops}, {"name": "man", "ops": mops}]}


def check_manual(ctx, sc, r0):
    rp = {"kind": "recorded-trace", "scenario": sc["name"], "records": [x for x in r0["records"] if x.get("ev") == "ret"][:120]}
    if r0["panics"]:
        ctx.violation("C11:panic", "%s: %s" % (sc["name"], r0["panics"][0]), rp)
    def ok(sock, sent, got):
        sent, got = list(sent), list(got)
        if sock == "router":
            # identity frame, then the payload; one leading empty frame may have been taken for the delimiter
            return got[:1] == [1] and (got[1:] == sent or (sent[:1] == [0] and got[1:] == sent[1:]))
        # raw wire frames: rzmq's ROUTER puts [identity, delimiter] (or just the delimiter) in front
        return got in (sent, [0] + sent, [1, 0] + sent)
    for sock, what in (("router", "the ROUTER received"), ("man", "the DEALER (AUTO_DELIMITER=0) received")):
        got = [x for x in S.rets(r0, "recv_mp", sock=sock)]
        for k, sh in enumerate(MANUAL_SHAPES):
            x = got[k] if k < len(got) else {"res": "missing"}
            if x.get("res") != "ok":
                ctx.violation("C11:manual-missing:%s" % sock, "%s: message %d (frames %s): %s" % (sc["name"], k + 1, sh, x.get("res")), rp)
                break
            if not ok(sock, sh, x.get("sizes", [])):
                ctx.violation("C11:manual-payload-changed:%s" % sock, "%s: frames of sizes %s were sent; %s %s - a payload frame other than one leading delimiter was added or removed" % (
                    sc["name"], sh, what, x.get("sizes")), rp)
                break


def run(ctx):
    thorough = ctx.tier == "thorough"
    vlib.cargo_build()
    ctx.model_check("MC_Router", "MC_Router_quick.cfg", workers=8, timeout=900)
    ctx.exhaustive = True
    ex = ctx.model_check("MC_Router", "MC_Router_export.cfg", workers=4, timeout=900, coverage=False)
    beh = ex.replays
    if not beh:
        raise vlib.ToolError("no histories exported")
    ctx.sample({"from": "MC_Router_export", "history": [{k: v for k, v in s.items() if k != "st"} for s in beh[len(beh) // 2]["steps"]]})
    r = replay_router(ctx, beh, "all")
    ctx.traces += r["runs"]
    for i in r["envelope_issues"]:
        ctx.violation("C11:%s" % i["code"], i["detail"], {"kind": "envelope", "issue": i})
    for o in r["outcomes"]:
        for i in o["issues"]:
            if i["class"] == "drift":
                ctx.drift += 1
                if ctx.drift <= 5:
                    ctx.note("drift (history %d step %s): %s" % (o["index"], i["step"], i["detail"]))
            elif i["class"] == "prop":
                ctx.violation("C11:map:%s" % i["code"], i["detail"], {"kind": "tlc-behaviour", "module": "MC_Router", "behaviour": beh[o["index"]], "issue": i})
    st = replay_router(ctx, beh[:30], "self", perturb=True)
    flagged = sum(1 for o in st["outcomes"] if any(i["class"] == "selftest" for i in o["issues"]))
    ctx.selftest["perturbed_forward_map_rejected"] = "%d/%d" % (flagged, st["runs"])
    if flagged < st["runs"]:
        raise vlib.ToolError("binding self-test failed")
    # sockets
    scs = []
    for tr in ["tcp", "ipc"] + (["inproc"] if thorough else []):
        scs.append(S.router_scenario("router-%s" % tr, tr))
        scs.append(S.router_scenario("router-mandatory-%s" % tr, tr, mandatory=True))
    scs.append(S.router_scenario("router-255-tcp", "tcp", peers=(("DEALER", "Z" * 255), ("DEALER", "y"), ("REQ", None))))
    scs.append(S.router_scenario("router-tcp-uring", "tcp", uring=True))
    scs.append(S.router_reconnect("router-reconnect-tcp", "tcp"))
    # a ROUTER that polls (RCVTIMEO 0) while identified peers connect and send at once
    for tr in ["tcp", "ipc"]:
        for k in range(3 if thorough else 2):
            scs.append(S.router_poll("router-poll-%s-%d" % (tr, k), tr, npeers=32))
    scs.append(S.router_poll("router-poll-tcp-uring", "tcp", npeers=16, uring=True))
    # replies of every envelope shape (empty frames first, last, only) to every kind of peer
    for tr in (["tcp", "ipc", "inproc"] if thorough else ["tcp"]):
        scs.append(reply_shapes_scenario("router-replies-%s" % tr, tr))
    # AUTO_DELIMITER = 0: nothing but one leading delimiter may be touched
    for tr in (["tcp", "ipc", "inproc"] if thorough else ["tcp", "inproc"]):
        scs.append(manual_delimiter_scenario("router-manual-%s" % tr, tr))
    plain = [dict(s) for s in scs]
    for s in plain:
        s.pop("peers", None)
        s.pop("mandatory", None)
        s.pop("poll", None)
    res = S.run_scenarios(ctx, plain, "c11", timeout=1500, jobs=3)
    for sc, r0 in zip(scs, res):
        if sc["name"].startswith("router-replies"):
            rp = {"kind": "recorded-trace", "scenario": sc["name"], "records": [x for x in r0["records"] if x.get("ev") == "ret"][:120]}
            if r0["panics"]:
                ctx.violation("C11:panic", "%s: %s" % (sc["name"], r0["panics"][0]), rp)
            for peer in ("req", "dlr"):
                if peer in refused_connects(r0):
                    ctx.note("%s: peer %s not judged, its connect() was refused over this transport" % (sc["name"], peer))
                    continue
                got = [x for x in S.rets(r0, "recv_mp", sock=peer)]
                for k, sh in enumerate(REPLY_SHAPES):
                    x = got[k] if k < len(got) else {"res": "missing"}
                    if x.get("res") != "ok" or list(x.get("sizes", [])) != list(sh):
                        ctx.violation("C11:envelope-changed:%s" % peer, "%s: the ROUTER replied to its %s peer with frames of sizes %s; the peer received %s" % (
                            sc["name"], "REQ" if peer == "req" else "DEALER", sh, x.get("sizes") if x.get("res") == "ok" else x.get("res")), rp)
                        break
        elif sc["name"].startswith("router-manual"):
            check_manual(ctx, sc, r0)
        elif sc["name"].startswith("router-reconnect"):
            rp = {"kind": "recorded-trace", "scenario": sc["name"], "records": [x for x in r0["records"] if x.get("ev") == "ret"]}
            d2 = [x for x in S.rets(r0, "recv_mp", sock="d2") if x.get("res") == "ok"]
            ids = [i for x in d2 for i in x.get("ids", [])]
            sendres = [x for x in S.rets(r0, "send_mp", sock="router") if x.get("mid") == "to-A:2"]
            if not any(i.startswith("to-A:2") for i in ids):
                ctx.violation("C11:stale-route-after-reconnect", "after the DEALER with identity A reconnected, a message addressed to A did not reach the new connection (send returned %s, new connection received %s)" % (
                    sendres[0]["res"] if sendres else "?", ids), rp)
        else:
            check_router_run(ctx, sc, r0)
    ctx.sample({"from": "real ROUTER", "scenario": scs[0]["name"], "router_received": [x for x in S.rets(res[0], "recv_mp", sock="router")][:3]})
    ctx.assumptions += [
        "identity of an all-empty payload's sender cannot be determined from the payload; those messages are checked through their echo only",
        "collisions: after two connections claimed one identity at once rzmq keeps the newer one; what happens to that identity afterwards is outside the property",
    ]


def replay(path):
    rp = json.load(open(path))
    ctx = vlib.Ctx("C11", "quick", rp.get("seed", 1))
    vlib.cargo_build()
    if rp["replay"].get("behaviour"):
        r = replay_router(ctx, [rp["replay"]["behaviour"]], "one")
        bad = [i for o in r["outcomes"] for i in o["issues"] if i["class"] == "prop"]
        for i in bad:
            print("REPRODUCED %s" % i["detail"])
        return 1 if bad else 0
    print("socket-level replay: re-run `python3 tools/check.py C11 --tier quick` (scenario %s)" % rp["replay"].get("scenario"))
    return 0
