"""C13 - PUSH/DEALER give each message to exactly one ready peer, fairly.

Spec    : spec/Balancer.tla - peer list + cursor, the sweep of try_route_sync / route_message over peers
          whose pipes are full or not (environment), add / remove with the cursor repair, and
          wait_for_connection as register / check / await against tokio's Notify.
TLC     : exhaustive for 3 peers x 7 operations x 1 waiter: RouteOk, CursorInRange, WaiterWakes,
          WaitingIsRegistered.
Binding : B1 - simulated histories replayed on the real OutgoingMessageOrchestrator with scripted
          connections: the chosen peer compared with the model per send; property oracles on the real
          outcome (exactly one peer, never a full or removed one, never refused while someone has room,
          rotation counts of accepting peers differ by <= 1).
          B2 - wait_for_connection (and WaitGroup::wait) under the controlled scheduler with the peer
          added at every point between the waiter's steps.
          B3 - real PUSH with 3 PULLs (one stalled / late / leaving; first send before any peer):
          histories validated by TLC against Delivery.tla; share of messages per accepting peer.
"""
import json
import os
import vlib
from props import socklib as S


def replay_lb(ctx, beh, tag, perturb=False):
    path = os.path.join(ctx.work, "lb_%s.jsonl" % tag)
    out = os.path.join(ctx.work, "lb_%s.out" % tag)
    vlib.write_jsonl(path, beh)
    vlib.vh(["lb", path, out] + (["--perturb"] if perturb else []), timeout=900)
    return json.load(open(out))


def run(ctx):
    thorough = ctx.tier == "thorough"
    vlib.cargo_build()
    ctx.model_check("MC_Balancer", "MC_Balancer_thorough.cfg" if thorough else "MC_Balancer_quick.cfg", workers=8, timeout=1800)
    ctx.exhaustive = True
    sim = ctx.model_check("MC_Balancer", "MC_Balancer_sim.cfg", workers=1, simulate=5000 if thorough else 500, depth=40, seed=ctx.seed, timeout=900)
    beh = sim.replays
    if not beh:
        raise vlib.ToolError("no histories exported")
    ctx.sample({"from": "MC_Balancer_sim", "history": beh[0]["steps"]})
    r = replay_lb(ctx, beh, "sim")
    ctx.traces += r["runs"] + len(r["windows"])
    ctx.extra["routes_replayed"] = r["routes"]
    for o in r["outcomes"]:
        for i in o["issues"]:
            if i["class"] == "drift":
                ctx.drift += 1
                if ctx.drift <= 5:
                    ctx.note("drift (history %d step %s): %s" % (o["index"], i["step"], i["detail"]))
            elif i["class"] == "prop":
                ctx.violation("C13:%s" % i["code"], "%s: %s" % (i["code"], i["detail"][:400]),
                              {"kind": "tlc-behaviour", "module": "MC_Balancer", "behaviour": beh[o["index"]], "issue": i})
    for w in r["windows"]:
        for i in w["issues"]:
            if w["what"] == "wait_for_connection":
                ctx.violation("C13:%s" % i["code"], i["detail"], {"kind": "schedule", "what": w["what"], "schedule": w["schedule"]})
            else:
                ctx.note("WaitGroup window issue (belongs to C16): %s" % i["detail"][:200])
    ctx.sample({"from": "controlled schedules of wait_for_connection", "schedules": [w["schedule"] for w in r["windows"] if w["what"] == "wait_for_connection"]})
    st = replay_lb(ctx, [b for b in beh if b["steps"] and b["steps"][-1]["op"] == "route"][:30], "self", perturb=True)
    flagged = sum(1 for o in st["outcomes"] if any(i["class"] == "selftest" for i in o["issues"]))
    ctx.selftest["perturbed_route_expectation_rejected"] = "%d/%d" % (flagged, st["runs"])
    if st["runs"] and flagged < st["runs"]:
        raise vlib.ToolError("binding self-test failed")

    # ---- sockets ----
    scs = [S.push_fan("fan-even-tcp", "tcp", 3, n=300),
           S.push_fan("fan-stalled-tcp", "tcp", 3, stalled=(1,), n=300, size=60000),
           S.push_fan("fan-late-ipc", "ipc", 3, late_join=2, n=400),
           S.push_fan("fan-leave-tcp", "tcp", 3, leave=0, n=300),
           S.push_fan("fan-first-send-before-peer-tcp", "tcp", 2, n=100, first_send_before_peer=True)]
    if thorough:
        scs += [S.push_fan("fan-even-inproc", "inproc", 3, n=600), S.push_fan("fan-stalled-ipc", "ipc", 4, stalled=(0, 2), n=500, size=60000)]
    # a second endpoint that accepts the TCP connection and never speaks ZMTP: not a connected peer
    silent = {"name": "fan-silent-endpoint-tcp", "deadline_ms": 30000,
              "sockets": [{"name": "push", "type": "PUSH", "opts": [S.i32(S.SNDTIMEO, 3000)]}, {"name": "pull0", "type": "PULL", "opts": []}],
              "tasks": [{"name": "r", "ops": [{"op": "bind", "sock": "pull0", "ep": "tcp://127.0.0.1:0", "save": "ep"}, {"op": "barrier", "name": "go", "parties": 3},
                                             {"op": "recv_n", "sock": "pull0", "n": 201, "timeout_ms": 2500}]},
                        {"name": "l", "ops": [{"op": "raw_listen", "raw": "L", "save": "lep"}, {"op": "barrier", "name": "go", "parties": 3},
                                             {"op": "raw_accept_loop", "listener": "L", "n": 3, "mode": "hold", "timeout_ms": 4000}]},
                        {"name": "p", "ops": [{"op": "barrier", "name": "go", "parties": 3}, {"op": "connect", "sock": "push", "ep": "$ep"}, {"op": "connect", "sock": "push", "ep": "$lep"},
                                             {"op": "sleep", "ms": 300}, {"op": "send_n", "sock": "push", "prefix": "a", "n": 200, "sizes": [200], "pace_us": 2000, "max_errs": 3}]}]}
    scs.append(silent)
    # several tasks wait in send() for the first peer: all of them proceed once it has connected
    for ty in ["PUSH", "REQ"]:
        waiters = {"name": "fan-waiters-%s-tcp" % ty.lower(), "deadline_ms": 30000,
                   "sockets": [{"name": "push", "type": ty, "opts": [S.i32(S.SNDTIMEO, 4000)]}, {"name": "pull0", "type": "PULL" if ty == "PUSH" else "ROUTER", "opts": []}],
                   "tasks": [{"name": "r", "ops": [{"op": "barrier", "name": "go", "parties": 4 if ty == "PUSH" else 2}, {"op": "sleep", "ms": 500}, {"op": "mark", "name": "peer_appears"},
                                                  {"op": "bind", "sock": "pull0", "ep": "tcp://127.0.0.1:0", "save": "ep2"}, {"op": "connect", "sock": "push", "ep": "$ep2"},
                                                  {"op": "recv_n", "sock": "pull0", "n": 4, "timeout_ms": 2500, "multipart": ty != "PUSH"}]}]}
        for j in range(3 if ty == "PUSH" else 1):
            waiters["tasks"].append({"name": "s%d" % j, "ops": [{"op": "barrier", "name": "go", "parties": 4 if ty == "PUSH" else 2},
                                                                {"op": "send", "sock": "push", "mid": "w%d:1" % j, "size": 100}]})
        scs.append(waiters)
    res = S.run_scenarios(ctx, scs, "c13", timeout=1500)
    runs = []
    for sc, r0 in zip(scs, res):
        pulls = [s["name"] for s in sc["sockets"] if s["type"] == "PULL"]
        ev = S.history_to_delivery_trace(r0, ["push"], pulls)
        if "stalled" in sc["name"] or "leave" in sc["name"] or "silent" in sc["name"] or "waiters" in sc["name"]:
            ev = [e for e in ev if e["e"] != "quiesce"]       # messages parked at a stalled / departed peer are not lost
        rp = {"kind": "recorded-trace", "scenario": sc, "hung": r0["hung"], "panics": r0["panics"]}
        runs.append((sc["name"], ev, rp))
        got = {p: len([x for x in S.rets(r0, "recv", sock=p) if x.get("res") == "ok"]) for p in pulls}
        durs = [x.get("dur", 0) for x in S.rets(r0, "send", sock="push")]
        sent_ok = len([x for x in S.rets(r0, "send", sock="push") if x.get("res") == "ok"])
        ctx.extra.setdefault("socket_shares", {})[sc["name"]] = got
        if r0["panics"]:
            ctx.violation("C13:panic", "panic: %s" % r0["panics"][0], rp)
        if sc["name"].startswith("fan-even"):
            if sent_ok and (max(got.values()) - min(got.values()) > max(3, 0.1 * sent_ok)):
                ctx.violation("C13:socket-unfair", "%s: %d messages were shared %s among peers that all kept reading" % (sc["name"], sent_ok, got), rp)
        if "stalled" in sc["name"]:
            worst = max(durs or [0])
            readers = [p for i, p in enumerate(pulls) if ("pull%d" % i) == p and got[p] > 0]
            if worst > 4000 or r0["hung"]:
                ctx.violation("C13:waits-on-full-peer", "%s: send() waited %d ms on a peer whose queue is full while other peers had room%s" % (
                    sc["name"], worst, "; hung: %s" % r0["hung"] if r0["hung"] else ""), rp)
        if "fan-waiters" in sc["name"]:
            t_peer = next((x["t"] for x in r0["records"] if x.get("ev") == "mark" and x.get("name") == "peer_appears"), 0)
            sends = [x for x in r0["records"] if x.get("ev") == "ret" and x.get("op") == "send" and x.get("sock") == "push"]
            late = [x for x in sends if x.get("res") != "ok" or x["t"] - t_peer > 1500]
            if late or len(sends) < len(sc["tasks"]) - 1 or r0["hung"]:
                ctx.violation("C13:waiting-send-not-released", "%s: %d task(s) were waiting in send() for a first peer; after it connected: %s%s" % (
                    sc["name"], len(sc["tasks"]) - 1, [(x.get("res"), "%d ms after the peer" % (x["t"] - t_peer)) for x in sends], "; hung: %s" % r0["hung"] if r0["hung"] else ""), rp)
            continue
        if "silent-endpoint" in sc["name"]:
            if sent_ok and sum(got.values()) < sent_ok:
                ctx.violation("C13:handed-to-unconnected-peer", "%s: %d messages were accepted, the only peer that completed the ZMTP handshake received %d: the rest was handed to a connection whose handshake never completed" % (
                    sc["name"], sent_ok, sum(got.values())), rp)
            continue
        if "first-send-before-peer" in sc["name"]:
            if sent_ok < 100 or sum(got.values()) < sent_ok:
                ctx.violation("C13:first-peer-not-noticed", "%s: a send that was waiting for a first peer: %d sent ok, received %s" % (sc["name"], sent_ok, got), rp)
    for (label, bad, rp) in S.validate_delivery(ctx, runs, "c13"):
        ctx.violation("C13:%s" % S.rejection_code(bad), "%s: %s" % (label, S.describe_rejection(bad)), dict(rp, rejected_record=bad))
    ctx.assumptions += [
        "component level uses scripted connections (full / not full); real back-pressure is exercised at socket level",
        "socket-level fairness is judged with a 10% tolerance",
    ]


def replay(path):
    rp = json.load(open(path))
    ctx = vlib.Ctx("C13", "quick", rp.get("seed", 1))
    vlib.cargo_build()
    if rp["replay"].get("behaviour"):
        r = replay_lb(ctx, [rp["replay"]["behaviour"]], "one")
    else:
        r = replay_lb(ctx, [], "one")
    bad = [i for o in r["outcomes"] for i in o["issues"] if i["class"] == "prop"] + [i for w in r["windows"] for i in w["issues"]]
    for i in bad:
        print("REPRODUCED %s" % i["detail"])
    return 1 if bad else 0
