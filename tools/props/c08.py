"""C08 - a receiver never sleeps while a message is queued for it (no lost wake-ups).

Spec    : spec/Rpq.tla - ReadyPipeQueue with one action per atomic operation of send / try_send /
          try_send_batch / pop / try_pop, cancellation of a blocked send, deregistration.
TLC     : exhaustive (2 pipes x capacity 1 x 2 consumers x all enqueue paths; 3 pipes x capacity 2):
          AtMostOneToken, NoLostToken, NoUnderflow, ReservedCovers, Fifo, NoGap, NoStuck and the
          liveness property Live under weak fairness.
Binding : B2, both directions, on the real ReadyPipeQueue<u64> under the controlled scheduler
          (verif_point!() hooks between the atomic steps):
          spec -> impl  TLC-simulated schedules are replayed step by step, the real counters
                        compared with the model after every step;
          impl -> spec  seeded random schedules are run, the recorded steps + counters validated
                        by TLC against Rpq's actions (Trace_Rpq.tla, all invariants evaluated).
          Property verdict on the real outcome at quiescence: every accepted item dequeued exactly
          once, order kept, nobody asleep while an item is queued.
"""
import json
import os
import vlib

TRACE_CFG = """CONSTANTS
  Pipes = {"p1", "p2", "p3"}
  Cons = {"c1", "c2"}
  Cap = %d
  ReadyCap = %d
  Scripts = {}
  ConsModes = {}
  BatchN = 2
  MaxCancel = 0
  MaxDereg = 0
SPECIFICATION TraceSpec
CHECK_DEADLOCK FALSE
INVARIANTS TypeOK AtMostOneToken NoLostToken NoUnderflow ReservedCovers Fifo NoGap
POSTCONDITION AllAccepted
"""


def collect(ctx, res, behaviours=None):
    for o in res["outcomes"]:
        for i in o["issues"]:
            if i["class"] == "drift":
                ctx.drift += 1
                if ctx.drift <= 5:
                    ctx.note("drift (%s run %d step %s): %s" % (o["mode"], o["index"], i["step"], i["detail"][:300]))
            elif i["class"] == "prop":
                rp = {"kind": "schedule", "mode": o["mode"], "issue": i}
                if behaviours is not None and o["mode"] == "guided":
                    rp["behaviour"] = behaviours[o["index"]]
                else:
                    rp["setup"] = o.get("setup")
                    rp["trace"] = o.get("trace")
                    rp["seed"] = ctx.seed
                    rp["index"] = o["index"]
                ctx.violation("C08:%s" % i["code"], "%s: %s" % (i["code"], i["detail"][:600]), rp)


def validate_traces(ctx, traces, tag, expect_reject=False):
    """Group recorded traces by (cap, readycap) and let TLC validate each group."""
    groups = {}
    for t in traces:
        groups.setdefault((t["setup"]["cap"], t["setup"]["readycap"]), []).append(t)
    rejected = 0
    total = 0
    for (cap, rc), ts in sorted(groups.items()):
        d = os.path.join(ctx.work, "tv_%s_%d_%d" % (tag, cap, rc))
        os.makedirs(d, exist_ok=True)
        cfg = os.path.join(d, "Trace_Rpq.cfg")
        open(cfg, "w").write(TRACE_CFG % (cap, rc))
        tp = os.path.join(d, "traces.json")
        json.dump(ts, open(tp, "w"))
        try:
            res = ctx.trace_check("Trace_Rpq", cfg, tp)
        except vlib.ToolError as e:
            # an invariant of Rpq violated on a state reached by following the real trace
            raise
        total += len(ts)
        rejected += len(res.rejected)
        if res.rejected and not expect_reject:
            for (i, m, n) in res.rejected[:3]:
                ctx.drift += 1
                ctx.note("drift: recorded trace %d (cap %d, ready %d) rejected by Rpq.tla after %d of %d steps; next record %s" % (
                    i, cap, rc, m, n, json.dumps(ts[i - 1]["trace"][m]) if m < n else "end"))
    return total, rejected


def run(ctx):
    thorough = ctx.tier == "thorough"
    vlib.cargo_build()
    ctx.model_check("MC_Rpq", "MC_Rpq_thorough.cfg" if thorough else "MC_Rpq_quick.cfg", workers=12 if thorough else 8, timeout=6000)
    if thorough:
        ctx.model_check("MC_Rpq", "MC_Rpq_cap2.cfg", workers=8, timeout=1500)
    ctx.exhaustive = True
    sim = ctx.model_check("MC_Rpq", "MC_Rpq_sim.cfg", workers=1, simulate=3000 if thorough else 250, depth=400,
                          seed=ctx.seed, timeout=1500)
    if not sim.replays:
        raise vlib.ToolError("no behaviours exported")
    beh = sim.replays
    ctx.sample({"from": "MC_Rpq_sim", "behaviour": {"steps": beh[0]["steps"][:12], "note": "first 12 of %d steps" % len(beh[0]["steps"])}})
    bp = os.path.join(ctx.work, "rpq_beh.jsonl")
    out = os.path.join(ctx.work, "rpq.out")
    tr = os.path.join(ctx.work, "rpq_traces.json")
    vlib.write_jsonl(bp, beh)
    nrand = 20000 if thorough else 1500
    vlib.vh(["rpq", bp, out, "--random", str(nrand), "--traces", tr], timeout=3000, env={"VERIF_SEED": str(ctx.seed)})
    r = json.load(open(out))
    ctx.traces += r["guided"] + r["random"]
    ctx.extra["scheduler_steps_on_real_code"] = r["steps"]
    collect(ctx, r, beh)
    traces = json.load(open(tr))
    ctx.sample({"from": "random schedule on the real queue", "setup": traces[0]["setup"], "trace": traces[0]["trace"][:8]})
    total, rej = validate_traces(ctx, traces, "rand")
    ctx.extra["recorded_traces_validated_by_tlc"] = total
    ctx.extra["recorded_traces_rejected"] = rej
    # binding self-tests: a perturbed expectation and a corrupted / truncated trace must be caught
    sp = os.path.join(ctx.work, "rpq_self.jsonl")
    so = os.path.join(ctx.work, "rpq_self.out")
    vlib.write_jsonl(sp, beh[:25])
    vlib.vh(["rpq", sp, so, "--perturb"], env={"VERIF_SEED": str(ctx.seed)})
    rs = json.load(open(so))
    flagged = sum(1 for o in rs["outcomes"] if any(i["class"] == "selftest" for i in o["issues"]))
    ctx.selftest["guided_perturbed_expectation_rejected"] = "%d/%d" % (flagged, rs["guided"])
    if flagged < rs["guided"]:
        raise vlib.ToolError("binding self-test failed: perturbed projection accepted")
    bad = json.loads(json.dumps(traces[:12]))
    nbad = 0
    for t in bad:
        if len(t["trace"]) > 6:
            t["trace"][len(t["trace"]) // 2]["rl"] += 1
            nbad += 1
    d0 = ctx.drift
    _, rej2 = validate_traces(ctx, bad, "self", expect_reject=True)
    ctx.drift = d0
    ctx.selftest["corrupted_traces_rejected_by_tlc"] = "%d/%d" % (rej2, nbad)
    if rej2 < nbad:
        raise vlib.ToolError("binding self-test failed: corrupted traces accepted by Trace_Rpq")
    ctx.assumptions += [
        "atomicity grain = the code between two verif_point!() hooks; memory-ordering effects below that grain are not explored",
        "ready-list capacity >= number of pipes (the code's stated contract); fibre's channels are trusted",
        "items are u64 tokens; FrameBatch payloads are covered by the socket-level checks",
    ]


def replay(path):
    rp = json.load(open(path))
    ctx = vlib.Ctx("C08", "quick", rp.get("seed", 1))
    vlib.cargo_build()
    r = rp["replay"]
    out = os.path.join(ctx.work, "one.out")
    if r.get("behaviour"):
        bp = os.path.join(ctx.work, "one.jsonl")
        vlib.write_jsonl(bp, [r["behaviour"]])
        vlib.vh(["rpq", bp, out], env={"VERIF_SEED": str(rp.get("seed", 1))})
    else:
        vlib.vh(["rpq", "-", out, "--random", str(r.get("index", 0) + 1)], env={"VERIF_SEED": str(r.get("seed", 1))})
    res = json.load(open(out))
    collect(ctx, res)
    for v in ctx.violations:
        print("REPRODUCED %s" % v["what"])
    return 1 if ctx.violations else 0
