"""C15 - LINGER governs what happens to accepted messages at close.

Spec    : spec/Linger.tla - socket core (Lingering phase, deadline, pipe drop), session (closing event,
          Stop, flush-then-stop, own deadline, stream shutdown) and a reading peer (reads that can meet
          end-of-stream) over an integer clock; invariants DeliveredPrefix, DropOnlyWhenAllowed,
          AllDelivered, Linger0Prompt, BoundedClose, SessionDeadline.  Three switches describe the pinned
          revision (EventStops, StopDiscards, GreedyEofDrops): TLC must find a counterexample under each
          (the model can see the defects that were repaired) and none with all three off.
TLC     : exhaustive (LINGER in {-1, 0, 2}, 3 messages, 4 ticks; thorough: {-1, 0, 1, 3}, 4 messages, 6 ticks).
Binding : B3 - real sockets are closed (close / term / handle drop) with messages queued at every level
          (0 .. beyond SNDHWM and kernel buffers), LINGER in {-1, 0, bounded}, reading, paced and stalled
          peers, tcp / ipc / inproc, four socket pairs.  The recorded history - accepted sends, the close
          call, the hook events of the socket core (core.lingerstart / core.lingerdone with the residue it
          drops) and of the session (sess.closing, sess.stop, sess.opend with what it had not written), and
          what the peer's application received - sets the variables of Linger.tla in Trace_Linger.tla, and
          TLC evaluates Linger's own invariants on every state of every recorded run.
"""
import json
import os
import re
import vlib
from props import socklib as S

SNDBUF, RCVBUF = 11, 12
PAD_LINGER = 77777
PAIRS = {"push": ("PUSH", "PULL"), "dealer": ("DEALER", "ROUTER"), "pub": ("PUB", "SUB"), "router": ("ROUTER", "DEALER")}


def scenario(name, linger, n, size, transport="tcp", how="close", pace_us=0, stall_ms=0, pair="push", hwm=1000,
             smallbuf=False, rcvhwm=None, idle_ms=4000, sizes=None, presleep_ms=400):
    ep = S.endpoint(transport, name)
    txt, rxt = PAIRS[pair]
    txo = [S.i32(S.LINGER, linger), S.i32(S.SNDHWM, hwm), S.i32(S.SNDTIMEO, -1)]
    rxo = [S.i32(S.RCVHWM, rcvhwm if rcvhwm is not None else hwm)]
    if smallbuf and transport == "tcp":
        txo.append(S.i32(SNDBUF, 65536))
        rxo.append(S.i32(RCVBUF, 65536))
    if pair == "dealer":
        txo.append([S.ROUTING_ID, "str", "D"])
    if pair == "pub":
        rxo.append([S.SUBSCRIBE, "str", ""])
    if pair == "router":
        rxo.append([S.ROUTING_ID, "str", "peer"])
    mp = rxt in ("ROUTER",)
    rops = [{"op": "bind", "sock": "rx", "ep": ep, "save": "ep"}, {"op": "barrier", "name": "go", "parties": 2}]
    if stall_ms:
        rops.append({"op": "sleep", "ms": stall_ms})
    rops.append({"op": "mark", "name": "reader_start"})
    rops.append({"op": "recv_n", "sock": "rx", "n": n + 1, "timeout_ms": idle_ms + (linger if linger > 0 and not stall_ms else 0), "pace_us": pace_us, "multipart": mp})
    rops.append({"op": "mark", "name": "reader_end"})
    cl = {"op": "term", "ctx": 1, "timeout_ms": 20000} if how == "term" else {"op": how, "sock": "tx", "timeout_ms": 20000}
    tops = [{"op": "barrier", "name": "go", "parties": 2}, {"op": "connect", "sock": "tx", "ep": "$ep"}, {"op": "sleep", "ms": presleep_ms}]
    if pair == "router":
        # a ROUTER addresses its peer: identity frame + payload
        for k in range(1, n + 1):
            tops.append({"op": "send_mp", "sock": "tx", "mid": "a:%d" % k, "sizes": [size], "prefix_hex": [b"peer".hex()], "timeout_ms": 10000})
    elif n:
        tops.append({"op": "send_n", "sock": "tx", "prefix": "a", "n": n, "sizes": list(sizes) if sizes else [size], "max_errs": 0})
    tops += [{"op": "mark", "name": "closing"}, cl, {"op": "mark", "name": "closed"},
             {"op": "sleep", "ms": max(stall_ms, 0) + (min(linger, 3000) if linger > 0 else 0) + idle_ms + 800}]
    own_ctx = how == "term" or transport != "inproc"
    # handles are numbered per context: sockets created first in the sender's context keep its
    # handle numbers apart from the receiver's, so hook events can be told apart by socket id
    pads = [{"name": "pad%d" % i, "type": "PUSH", "ctx": 1, "opts": [S.i32(S.LINGER, PAD_LINGER)]} for i in range(24)] if own_ctx else []
    return {"name": name, "deadline_ms": 90000,
            "meta": {"linger": linger, "n": n, "size": size, "transport": transport, "how": how, "pair": pair, "stall": stall_ms, "pace": pace_us},
            "sockets": pads + [{"name": "tx", "type": txt, "ctx": 1 if own_ctx else 0, "opts": txo},
                               {"name": "rx", "type": rxt, "opts": rxo}],
            "tasks": [{"name": "rx", "ops": rops}, {"name": "tx", "ops": tops}]}


def build(thorough):
    scs = []
    shapes = [(0, 64), (1, 64), (10, 64), (200, 64), (3000, 4096), (300, 200000), (1500, 30000)]
    if not thorough:
        # every (LINGER, how, transport) cell once, shapes rotated
        i = 0
        for linger in [-1, 8000]:
            for how in ["close", "term"]:
                for tr in ["tcp", "ipc", "inproc"]:
                    if how == "term" and tr == "inproc":
                        continue        # inproc needs one context: term() would take the peer along
                    for j in range(2):
                        n, size = shapes[(i + 3 * j) % len(shapes)]
                        i += 1
                        scs.append(scenario("all-l%d-%s-%s-n%d-s%d" % (linger, how, tr, n, size), linger, n, size, tr, how))
        scs.append(scenario("all-l-1-close-tcp-paced", -1, 400, 20000, "tcp", "close", pace_us=300))
        scs.append(scenario("all-l-1-close-tcp-beyondhwm", -1, 600, 4096, "tcp", "close", hwm=50))
        scs.append(scenario("all-l-1-drop-tcp", -1, 200, 4096, "tcp", "drop"))
    else:
        for linger in [-1, 10000, 3000]:
            for how in ["close", "term", "drop"]:
                for tr in ["tcp", "ipc", "inproc"]:
                    if how == "term" and tr == "inproc":
                        continue
                    for (n, size) in shapes:
                        scs.append(scenario("all-l%d-%s-%s-n%d-s%d" % (linger, how, tr, n, size), linger, n, size, tr, how))
        for pace in [100, 300, 1000]:
            scs.append(scenario("all-l-1-close-tcp-paced%d" % pace, -1, 400, 20000, "tcp", "close", pace_us=pace))
            scs.append(scenario("all-l-1-term-ipc-paced%d" % pace, -1, 400, 20000, "ipc", "term", pace_us=pace))
        for hwm in [1, 10, 50]:
            scs.append(scenario("all-l-1-close-tcp-beyondhwm%d" % hwm, -1, 600, 4096, "tcp", "close", hwm=hwm))
    # uneven sizes: a few tiny messages among large ones make the session's batch budget overflow into its
    # carry-over, which the socket's linger check cannot see
    mixed = [65536] * 10 + [8] * 2
    for (linger, how, tr) in ([(-1, "close", "tcp"), (8000, "term", "ipc")] if not thorough else
                              [(-1, "close", "tcp"), (-1, "term", "tcp"), (8000, "close", "ipc"), (8000, "term", "ipc"), (3000, "drop", "tcp")]):
        scs.append(scenario("all-l%d-%s-%s-mixed" % (linger, how, tr), linger, 170, 65536, tr, how, sizes=mixed, smallbuf=True))
        for rep in range(3 if tr == "tcp" else 1):
            # small kernel buffers keep a backlog in the socket's pipe, so that the session takes it in big uneven batches
            scs.append(scenario("all-l%d-%s-%s-mixed2-%d" % (linger, how, tr, rep), linger, 164, 65536, tr, how, sizes=[65536] * 40 + [8] * 4 + [65536] * 120, smallbuf=True))
    for pair in ["dealer", "pub", "router"]:
        for tr in (["tcp", "ipc", "inproc"] if thorough else ["tcp"]):
            scs.append(scenario("pair-%s-%s-inf" % (pair, tr), -1, 60 if pair == "pub" else 300, 3000, tr, "close", pair=pair))
    # LINGER 0: prompt, may discard
    for (n, size) in ([(0, 64), (10, 64), (3000, 4096), (300, 200000)] if thorough else [(10, 64), (3000, 4096)]):
        for how in ["close", "term"]:
            for tr in (["tcp", "ipc", "inproc"] if thorough else ["tcp", "inproc"]):
                if how == "term" and tr == "inproc":
                    continue
                scs.append(scenario("zero-%s-%s-n%d-s%d" % (how, tr, n, size), 0, n, size, tr, how))
    # a peer that does not read while the sender lingers: the period must end the wait, not sooner
    for linger in ([300, 1000, 2500] if thorough else [600]):
        for how in ["close", "term"]:
            for tr in (["tcp", "ipc"] if thorough else ["tcp"]):
                scs.append(scenario("stall-l%d-%s-%s" % (linger, how, tr), linger, 100, 100000, tr, how, stall_ms=linger + 2500,
                                    hwm=200, rcvhwm=4, smallbuf=True))
    # bounded LINGER shorter than a paced transfer needs
    scs.append(scenario("short-l300-close-tcp", 300, 400, 50000, "tcp", "close", pace_us=3000, hwm=1000, rcvhwm=4, smallbuf=True, idle_ms=2500))
    return scs


def to_events(sc, meta, r):
    """Project one recorded history onto the events Trace_Linger.tla reads."""
    ev = [{"e": "reset"}]
    recs = r["records"]
    close_call = next((x for x in recs if x.get("ev") == "call" and x.get("op") in ("close", "term", "drop")), None)
    close_ret = next((x for x in recs if x.get("ev") == "ret" and x.get("op") in ("close", "term", "drop")), None)
    start = None
    if close_call:
        start = next((x for x in recs if x.get("ev") == "core.lingerstart" and x["seq"] > close_call["seq"] and x.get("linger") == meta["linger"]), None)
    sock_id = start["sock"] if start else None
    seen = set()
    t_end = 0
    for x in recs:
        e = x.get("ev")
        t_end = max(t_end, x.get("t", 0), x.get("tm", 0))
        if e == "ret" and x.get("sock") == "tx" and x.get("op") in ("send", "send_mp") and x.get("res") == "ok":
            ev.append({"e": "accept", "k": int(x["mid"].rsplit(":", 1)[1])})
        elif e in ("call", "ret") and (x is close_call or x is close_ret) and x.get("op") == "drop":
            continue        # letting go of the handle closes nothing: the socket lives until the context goes
        elif e == "call" and x is close_call:
            ev.append({"e": "close", "linger": meta["linger"], "t": x["t"], "session": meta["transport"] != "inproc", "how": x["op"]})
        elif e == "ret" and x is close_ret:
            ev.append({"e": "closeret", "dur": int(x.get("dur", 0)), "t": x["t"], "res": x["res"]})
        elif e == "core.lingerdone" and x.get("sock") == sock_id and "coredone" not in seen:
            seen.add("coredone")
            ev.append({"e": "coredone", "reason": x["reason"], "residue": x["residue"], "t": x["tm"]})
        elif e == "sess.closing" and x.get("sock") == sock_id:
            ev.append({"e": "sessclosing", "linger": x["linger"], "t": x["tm"]})
        elif e == "sess.stop" and x.get("sock") == sock_id and "stop" not in seen:
            seen.add("stop")
            ev.append({"e": "sessstop", "lingering": bool(x["lingering"]), "t": x["tm"]})
        elif e == "sess.opend" and x.get("sock") == sock_id and close_call and x["seq"] > close_call["seq"]:
            ev.append({"e": "sessend", "unsent": x["unsent"], "t": x["tm"], "phase": x["phase"]})
        elif e == "ret" and x.get("sock") == "rx" and x.get("op") in ("recv", "recv_mp") and x.get("res") == "ok":
            if x["op"] == "recv":
                mid, intact = x.get("mid", "?"), bool(x.get("intact"))
            else:
                ids = [i for i in x.get("ids", []) if re.match(r"^a:\d+(\.1)?$", i)]
                mid = ids[-1] if ids else "?"
                intact = bool(x.get("intact")) or bool(x.get("intact_payload", False)) or len(ids) == 1
                if x.get("intact") is False and "intact_payload" in x:
                    intact = bool(x["intact_payload"])
            m = re.match(r"^a:(\d+)(\.1)?$", mid)
            ev.append({"e": "deliver", "k": int(m.group(1)) if m else 0, "intact": bool(intact and m)})
    ev.append({"e": "end", "t": t_end})
    return ev


def describe(ev, at, meta):
    x = ev[at]
    acc = len([e for e in ev[:at + 1] if e["e"] == "accept"])
    dl = len([e for e in ev[:at + 1] if e["e"] == "deliver"])
    cl = next((e for e in ev if e["e"] == "close"), None)
    if x["e"] == "deliver":
        return "corrupt-delivery", "after %s with LINGER=%d the peer received message %s %s (delivery #%d of %d accepted)" % (
            cl["how"] if cl else "close", meta["linger"], x["k"], "intact but out of order or twice" if x["intact"] else "truncated or corrupted", dl, acc)
    if x["e"] == "end":
        se = [e for e in ev[:at] if e["e"] == "sessend"]
        if not se and meta["transport"] != "inproc":
            return "session-still-running", "the session of the closed socket was still running %d ms after %s with LINGER=%d" % (
                x["t"] - (cl["t"] if cl else 0), cl["how"] if cl else "close", meta["linger"])
        return "accepted-lost", "%s with LINGER=%d: %d messages were accepted, the session ended %s with nothing unsent, but the reading peer received only %d" % (
            cl["how"] if cl else "close", meta["linger"], acc, ("%d ms after the call" % (se[-1]["t"] - cl["t"])) if se and cl else "", dl)
    if x["e"] in ("sessend", "coredone"):
        n = x.get("unsent", x.get("residue", 0))
        dt = x["t"] - (cl["t"] if cl else 0)
        if n and (meta["linger"] < 0 or dt < meta["linger"]):
            return "discarded-early", "%s with LINGER=%d: %d accepted messages were discarded by the %s %d ms after the call, before the linger period allowed it" % (
                cl["how"] if cl else "close", meta["linger"], n, "session" if x["e"] == "sessend" else "socket core", dt)
        return "close-unbounded", "%s with LINGER=%d: the %s only finished %d ms after the call" % (
            cl["how"] if cl else "close", meta["linger"], "session" if x["e"] == "sessend" else "socket core", dt)
    if x["e"] == "closeret":
        return "close-slow", "%s with LINGER=%d returned after %d ms" % (cl["how"] if cl else "close", meta["linger"], x["dur"])
    if x["e"] == "sessclosing":
        return "linger-mismatch", "the session applied LINGER=%d where the socket was closed with %d" % (x["linger"], meta["linger"])
    return "other-" + x["e"], "record %s not explained by Linger.tla" % json.dumps(x)


def validate(ctx, runs, tag):
    """runs: list of (events, owner). Returns list of (owner, events, index) for each rejected run."""
    out = []
    pending = list(range(len(runs)))
    guard = 0
    while pending and guard < 25:
        guard += 1
        flat, starts = [], []
        for i in pending:
            starts.append((len(flat), i))
            flat += runs[i][0]
        path = os.path.join(ctx.work, "linger_%s_%d.ndjson" % (tag, guard))
        with open(path, "w") as f:
            for e in flat:
                f.write(json.dumps(e) + "\n")
        res = ctx.trace_check("Trace_Linger", "Trace_Linger.cfg", path)
        ctx.extra["linger_events_validated"] = ctx.extra.get("linger_events_validated", 0) + max(res.generated - 1, 0)
        if not res.rejected:
            if res.violated and res.violated != "<postcondition>":
                raise vlib.ToolError("Trace_Linger failed: %s" % res.error)
            break
        at = res.rejected[0][1]
        owner = max((s for s in starts if s[0] <= at), key=lambda s: s[0])
        out.append((owner[1], at - owner[0]))
        pending = [i for i in pending if i > owner[1]] if owner[1] in pending else []
    return out


def run(ctx):
    thorough = ctx.tier == "thorough"
    vlib.cargo_build()
    ctx.model_check("MC_Linger", "MC_Linger_thorough.cfg" if thorough else "MC_Linger_quick.cfg", workers=8, timeout=1800)
    ctx.exhaustive = True
    seen = {}
    for sw, cfg in [("EventStops", "MC_Linger_asis_event.cfg"), ("StopDiscards", "MC_Linger_asis_stop.cfg"), ("GreedyEofDrops", "MC_Linger_asis_eof.cfg")]:
        res = vlib.tlc("MC_Linger", cfg, os.path.join(ctx.work, "tlc_" + sw), workers=4, timeout=600, coverage=False)
        seen[sw] = res.violated
        if not res.violated:
            raise vlib.ToolError("Linger.tla no longer shows the pinned defect under %s" % sw)
    ctx.selftest["model_finds_pinned_defects"] = seen

    scs = build(thorough)
    metas = [s.pop("meta") for s in scs]
    res = S.run_scenarios(ctx, scs, "c15", timeout=3000, jobs=4)
    runs = []
    for sc, meta, r in zip(scs, metas, res):
        rp = {"kind": "recorded-trace", "scenario": sc, "records": [x for x in r["records"] if x.get("ev") not in ("call",) or x.get("op") in ("close", "term", "drop")][-120:],
              "hung": r["hung"], "panics": r["panics"]}
        if r["panics"]:
            ctx.violation("C15:panic:%s" % meta["how"], "%s: %s" % (sc["name"], r["panics"][0]), rp)
        if r["hung"]:
            closing = [h for h in r["hung"] if "close" in h or "term" in h]
            if closing:
                ctx.violation("C15:close-hangs:%s:l%s" % (meta["how"], "inf" if meta["linger"] < 0 else ("0" if meta["linger"] == 0 else "pos")),
                              "%s: %s never returned" % (sc["name"], closing), rp)
            else:
                ctx.note("%s: harness task did not finish: %s" % (sc["name"], r["hung"]))
        ev = to_events(sc, meta, r)
        acc = len([e for e in ev if e["e"] == "accept"])
        if acc != meta["n"]:
            ctx.note("%s: %d of %d sends accepted" % (sc["name"], acc, meta["n"]))
        if meta["how"] == "drop":
            dl = len([e for e in ev if e["e"] == "deliver"])
            if dl != acc:
                ctx.violation("C15:accepted-lost:drop:l%s:%s" % ("inf" if meta["linger"] < 0 else "pos", meta["transport"]),
                              "%s: the last handle was dropped without close(): %d messages had been accepted, the reading peer received %d" % (sc["name"], acc, dl), rp)
        runs.append((ev, (sc, meta, rp)))
        ctx.extra.setdefault("runs", {})[sc["name"]] = {"accepted": acc, "delivered": len([e for e in ev if e["e"] == "deliver"]),
                                                        "unsent_at_session_end": sum(e["unsent"] for e in ev if e["e"] == "sessend"),
                                                        "dropped_by_core": sum(e["residue"] for e in ev if e["e"] == "coredone")}
    ctx.sample({"from": "recorded close", "scenario": scs[0]["name"], "events": [e for e in runs[0][0] if e["e"] not in ("accept", "deliver")]})
    rejected = validate(ctx, runs, "main")
    rejected_idx = set(i for (i, _) in rejected)
    for (i, at) in rejected:
        ev, (sc, meta, rp) = runs[i]
        code, what = describe(ev, at, meta)
        ctx.violation("C15:%s:%s:l%s:%s" % (code, meta["how"], "inf" if meta["linger"] < 0 else ("0" if meta["linger"] == 0 else "pos"), meta["transport"]),
                      "%s: %s" % (sc["name"], what), dict(rp, rejected_event=ev[at], events=[e for e in ev if e["e"] not in ("accept", "deliver")]))
    # the stalled runs must really have exercised the deadline (vacuity)
    stalled = [n for n, v in ctx.extra.get("runs", {}).items() if n.startswith("stall-") and (v["unsent_at_session_end"] + v["dropped_by_core"]) > 0]
    ctx.extra["stalled_runs_that_hit_the_deadline"] = len(stalled)
    if not stalled:
        ctx.note("no stalled run reached the linger deadline with data unsent (the deadline clauses were not exercised)")

    # binding self-test: corrupted histories must be rejected
    accepted_runs = [r for i, r in enumerate(runs) if i not in rejected_idx]
    good = [(ev, o) for (ev, o) in accepted_runs if o[1]["linger"] == -1 and len([e for e in ev if e["e"] == "deliver"]) >= 2
            and any(e["e"] == "sessend" for e in ev)]
    pert = []
    for (ev, o) in good[:6]:
        idx = max(i for i, e in enumerate(ev) if e["e"] == "deliver")
        pert.append((ev[:idx] + ev[idx + 1:], o))                       # the last delivery is missing
        ev2 = [dict(e) for e in ev]
        j = next(i for i, e in enumerate(ev2) if e["e"] == "deliver")
        ev2[j]["intact"] = False
        pert.append((ev2, o))                                           # one delivery is corrupted
    for (ev, o) in [(ev, o) for (ev, o) in accepted_runs if o[1]["linger"] > 0 and any(e["e"] == "sessend" for e in ev)][:4]:
        ev2 = [dict(e) for e in ev]
        for e in ev2:
            if e["e"] == "sessend":
                e["unsent"] = e["unsent"] + 3
                e["t"] = next(x["t"] for x in ev2 if x["e"] == "close") + 5  # discarded long before the period ended
        pert.append((ev2, o))
    flagged = 0
    for p in pert:
        if validate(ctx, [p], "pert"):
            flagged += 1
    ctx.selftest["perturbed_histories_rejected"] = "%d/%d" % (flagged, len(pert))
    if pert and flagged != len(pert):
        raise vlib.ToolError("binding self-test failed: %d of %d corrupted histories were accepted" % (len(pert) - flagged, len(pert)))
    ctx.assumptions += [
        "clock tolerance 25 ms for 'not before the linger period ends', 2 s allowance for 'not later', 1 s for 'promptly' (LINGER 0)",
        "the peer reads until nothing arrives for 4 s; 'all delivered' is demanded when LINGER is -1 or the session finished before the period ended",
        "a dropped handle without close() leaves the socket running until the context is terminated (no Drop impl): accepted messages are still delivered, which is what is checked",
    ]


def replay(path):
    print("socket-level replay: re-run `python3 tools/check.py C15 --tier quick`")
    return 0
