"""C20 - the io_uring backend is observably equivalent to the Tokio backend.

Spec    : the observable contract both backends have to meet is the one of C01/C02/C04 - spec/Delivery.tla (what
          was accepted on a connection is delivered once, whole, in order; what was refused is not) - and every
          run of either backend is validated against it by TLC (Trace_Delivery).  spec/Uring.tla models what only
          the io_uring backend has: the registered send-buffer pool, the provided-buffer ring and the handler
          table keyed by fd (PoolConservation, NoOrphanBuffers, RingFull, QuiescentClean).
TLC     : Uring.tla exhaustive (2-3 buffers, 2 slots, 2-3 fds, 9-12 steps); Session.tla (the data path both backends share the engine of) as in C01.
Binding : B3, differential - each workload (PUSH/PULL, DEALER/ROUTER, REQ/REP, PUB/SUB, sizes 1 B .. 300 kB below /
          at / above the buffer size, paced and stalled receivers, early data, PLAIN good / bad password,
          incompatible socket types, connect / disconnect churn) runs on the Tokio backend and on io_uring x
          {zero-copy, multishot, cork} x pool sizes (2..16 buffers of 4..64 KiB, one harness process per pool
          configuration); the application-visible projection (delivered messages per connection in order with
          integrity, results of every call by kind, handshake outcome) must be identical, and each run is validated
          against Delivery.tla.  Hook events from inside the backend (zc.acquire / zc.release, ring.take /
          ring.provide, fd.add / fd.close_queued / fd.closed / fd.remove) are followed as actions of Uring.tla in
          Trace_Uring.tla: every acquire, release, take, add and close must be an enabled step, and after the last
          socket is closed everything must be back.
"""
import copy
import json
import os
import re
import vlib
from props import socklib as S

PLAIN_SRV = [[S.PLAIN_SERVER, "i32", 1], [S.PLAIN_USERNAME, "str", "user"], [S.PLAIN_PASSWORD, "str", "pass"]]
PLAIN_OK = [[S.PLAIN_USERNAME, "str", "user"], [S.PLAIN_PASSWORD, "str", "pass"]]
PLAIN_BAD = [[S.PLAIN_USERNAME, "str", "user"], [S.PLAIN_PASSWORD, "str", "nope"]]


def incompatible(name, a, b):
    """a socket of type `a` connects to a bound socket of type `b` that cannot talk to it"""
    return {"name": name, "deadline_ms": 20000,
            "sockets": [{"name": "srv", "type": b, "opts": []}, {"name": "cli", "type": a, "opts": [S.i32(S.SNDTIMEO, 600)]}],
            "tasks": [{"name": "s", "ops": [{"op": "bind", "sock": "srv", "ep": "tcp://127.0.0.1:0", "save": "ep"}, {"op": "barrier", "name": "go", "parties": 2},
                                           {"op": "recv_mp" if b == "ROUTER" else "recv", "sock": "srv", "timeout_ms": 1200}]},
                      {"name": "c", "ops": [{"op": "barrier", "name": "go", "parties": 2}, {"op": "monitor", "sock": "cli"}, {"op": "connect", "sock": "cli", "ep": "$ep"},
                                           {"op": "sleep", "ms": 300}, {"op": "send", "sock": "cli", "mid": "x:1", "size": 20},
                                           {"op": "drain_events", "sock": "cli", "timeout_ms": 200, "max_events": 20}]}]}


def plain(name, good):
    return {"name": name, "deadline_ms": 20000,
            "sockets": [{"name": "srv", "type": "PULL", "opts": list(PLAIN_SRV)}, {"name": "cli", "type": "PUSH", "opts": (PLAIN_OK if good else PLAIN_BAD) + [S.i32(S.SNDTIMEO, 600)]}],
            "tasks": [{"name": "s", "ops": [{"op": "bind", "sock": "srv", "ep": "tcp://127.0.0.1:0", "save": "ep"}, {"op": "barrier", "name": "go", "parties": 2},
                                           {"op": "recv_n", "sock": "srv", "n": 5, "timeout_ms": 1200}]},
                      {"name": "c", "ops": [{"op": "barrier", "name": "go", "parties": 2}, {"op": "connect", "sock": "cli", "ep": "$ep"}, {"op": "sleep", "ms": 300},
                                           {"op": "send_n", "sock": "cli", "prefix": "a", "n": 5, "sizes": [50], "max_errs": 1}]}]}


def churn(name, rounds, size):
    """one PULL, a PUSH that is closed and replaced `rounds` times, each sending a few messages"""
    socks = [{"name": "rx", "type": "PULL", "opts": []}]
    tops = [{"op": "barrier", "name": "go", "parties": 2}]
    for i in range(rounds):
        socks.append({"name": "tx%d" % i, "type": "PUSH", "opts": [S.i32(S.LINGER, 2000)]})
        tops += [{"op": "connect", "sock": "tx%d" % i, "ep": "$ep"},
                 {"op": "send_n", "sock": "tx%d" % i, "prefix": "t%d" % i, "n": 6, "sizes": [size], "timeout_ms": 4000, "max_errs": 1},
                 {"op": "close", "sock": "tx%d" % i}]
    return {"name": name, "deadline_ms": 60000, "sockets": socks,
            "tasks": [{"name": "r", "ops": [{"op": "bind", "sock": "rx", "ep": "tcp://127.0.0.1:0", "save": "ep"}, {"op": "barrier", "name": "go", "parties": 2},
                                           {"op": "recv_n", "sock": "rx", "n": rounds * 6, "timeout_ms": 2500}]},
                      {"name": "t", "ops": tops}]}


def comeback(name, who):
    """the bound side goes away and a new socket binds the same port; the connected side must come back.
    who = "push": a PUSH connects to PULLs; who = "pull": a PULL connects to PUSHes."""
    ropt = [S.i32(S.RECONNECT_IVL, 100), S.i32(S.RECONNECT_IVL_MAX, 200)]
    if who == "push":
        return {"name": name, "deadline_ms": 40000,
                "sockets": [{"name": "tx", "type": "PUSH", "opts": ropt + [S.i32(S.SNDTIMEO, 4000)]}, {"name": "rx1", "type": "PULL", "opts": []}, {"name": "rx2", "type": "PULL", "opts": []}],
                "tasks": [{"name": "r", "ops": [{"op": "bind", "sock": "rx1", "ep": "tcp://127.0.0.1:0", "save": "ep"}, {"op": "barrier", "name": "go", "parties": 2},
                                               {"op": "recv_n", "sock": "rx1", "n": 20, "timeout_ms": 3000}, {"op": "close", "sock": "rx1"}, {"op": "sleep", "ms": 500},
                                               {"op": "bind", "sock": "rx2", "ep": "$ep"}, {"op": "barrier", "name": "back", "parties": 2},
                                               {"op": "recv_n", "sock": "rx2", "n": 30, "timeout_ms": 6000}]},
                          {"name": "t", "ops": [{"op": "barrier", "name": "go", "parties": 2}, {"op": "connect", "sock": "tx", "ep": "$ep"},
                                               {"op": "send_n", "sock": "tx", "prefix": "c", "n": 20, "sizes": [64], "timeout_ms": 3000},
                                               {"op": "barrier", "name": "back", "parties": 2}, {"op": "sleep", "ms": 900},
                                               {"op": "send_n", "sock": "tx", "prefix": "back", "n": 30, "sizes": [64], "timeout_ms": 4000, "max_errs": 2}]}]}
    return {"name": name, "deadline_ms": 40000,
            "sockets": [{"name": "rx", "type": "PULL", "opts": ropt}, {"name": "tx1", "type": "PUSH", "opts": [S.i32(S.LINGER, 2000)]},
                        {"name": "tx2", "type": "PUSH", "opts": [S.i32(S.LINGER, 2000), S.i32(S.SNDTIMEO, 4000)]}],
            "tasks": [{"name": "t", "ops": [{"op": "bind", "sock": "tx1", "ep": "tcp://127.0.0.1:0", "save": "ep"}, {"op": "barrier", "name": "go", "parties": 2}, {"op": "sleep", "ms": 300},
                                           {"op": "send_n", "sock": "tx1", "prefix": "c", "n": 20, "sizes": [64], "timeout_ms": 3000}, {"op": "sleep", "ms": 300},
                                           {"op": "close", "sock": "tx1"}, {"op": "sleep", "ms": 500}, {"op": "bind", "sock": "tx2", "ep": "$ep"}, {"op": "sleep", "ms": 900},
                                           {"op": "send_n", "sock": "tx2", "prefix": "back", "n": 30, "sizes": [64], "timeout_ms": 4000, "max_errs": 2}]},
                      {"name": "r", "ops": [{"op": "barrier", "name": "go", "parties": 2}, {"op": "connect", "sock": "rx", "ep": "$ep"},
                                           {"op": "recv_n", "sock": "rx", "n": 50, "timeout_ms": 4000}]}]}


def stalled_then_reads(name, n, size):
    sc = S.push_pull(name, "tcp", n=n, sizes=(size,), tx_opts=[S.i32(S.SNDHWM, 8)], rx_opts=[S.i32(S.RCVHWM, 8)])
    for t in sc["tasks"]:
        if t["name"] == "rx":
            i = next(k for k, o in enumerate(t["ops"]) if o["op"] == "recv_n")
            t["ops"].insert(i, {"op": "sleep", "ms": 1200})
    return sc


def workloads(thorough):
    w = []
    w.append(("pp-mixed", S.push_pull("pp-mixed", "tcp", n=300, sizes=(64, 4000, 70000, 1, 255, 256))))
    w.append(("pp-small", S.push_pull("pp-small", "tcp", n=1500, sizes=(32,))))
    w.append(("pp-big", S.push_pull("pp-big", "tcp", n=40, sizes=(300000, 65536, 65537, 4096, 4095))))
    w.append(("pp-paced", S.push_pull("pp-paced", "tcp", n=300, sizes=(9000,), rx_pace_us=1500, tx_opts=[S.i32(S.SNDHWM, 16)], rx_opts=[S.i32(S.RCVHWM, 16)])))
    w.append(("pp-stalled", stalled_then_reads("pp-stalled", 200, 30000)))
    w.append(("pp-early", S.push_pull("pp-early", "tcp", n=100, sizes=(100,), when="mid")))
    w.append(("dr-mixed", S.dealer_router("dr-mixed", "tcp", n=80, sizes=(1, 300, 9000, 70000))))
    w.append(("rr-mixed", S.req_rep("rr-mixed", "tcp", n=30, sizes=(10, 20000, 70000))))
    w.append(("ps-filter", S.pubsub_filter("ps-filter", "tcp", [([("sub", b"a")], [b"a", b"b", b"ab"]), ([("unsub", b"a"), ("sub", b"b")], [b"a", b"b", b"ba"])])))
    w.append(("bad-type-req-pull", incompatible("bad-type-req-pull", "REQ", "PULL")))
    w.append(("bad-type-pub-router", incompatible("bad-type-pub-router", "PUB", "ROUTER")))
    w.append(("plain-good", plain("plain-good", True)))
    w.append(("plain-bad", plain("plain-bad", False)))
    w.append(("churn", churn("churn", 25 if thorough else 12, 3000)))
    if not thorough:
        w.append(("pp-ipc", S.push_pull("pp-ipc", "ipc", n=120, sizes=(64, 4000, 70000))))
    w.append(("comeback-pull", comeback("comeback-pull", "pull")))
    w.append(("comeback-push", comeback("comeback-push", "push")))
    if thorough:
        w.append(("churn-big", churn("churn-big", 15, 70000)))
        w.append(("pp-ipc", S.push_pull("pp-ipc", "ipc", n=300, sizes=(64, 4000, 70000))))
        w.append(("dr-big", S.dealer_router("dr-big", "tcp", n=40, sizes=(200000, 65536))))
    return w


def with_backend(sc, cfg):
    """cfg: None (tokio) or dict(zc, ms, cork). Adds the options to every socket and a clean ending."""
    sc = copy.deepcopy(sc)
    sc["uring"] = cfg is not None
    for s in sc["sockets"]:
        s["opts"] = [o for o in s["opts"] if o[0] not in (S.IO_URING_SESSION_ENABLED, S.IO_URING_SNDZEROCOPY, S.IO_URING_RCVMULTISHOT, S.TCP_CORK)]
        if cfg is not None:
            s["opts"] += [S.i32(S.IO_URING_SESSION_ENABLED, 1), S.i32(S.IO_URING_SNDZEROCOPY, cfg["zc"]), S.i32(S.IO_URING_RCVMULTISHOT, cfg["ms"]), S.i32(S.TCP_CORK, cfg["cork"])]
    # everything is closed at the end so that the backend can be checked for what it kept
    names = [s["name"] for s in sc["sockets"]]
    parties = len(sc["tasks"])
    for t in sc["tasks"]:
        t["ops"] = list(t["ops"]) + [{"op": "barrier", "name": "fin", "parties": parties + 1}]
    sc["tasks"].append({"name": "fin", "ops": [{"op": "barrier", "name": "fin", "parties": parties + 1}] + [{"op": "close", "sock": n} for n in names]
                        + [{"op": "term", "ctx": 0, "timeout_ms": 15000}, {"op": "sleep", "ms": 400}, {"op": "mark", "name": "quiet"}]})
    return sc


def projection(r):
    """what the application can see, without timing"""
    recv, calls, events = {}, {}, []
    for x in r["records"]:
        if x.get("ev") == "ret" and x.get("op") in ("recv", "recv_mp") and x.get("res") == "ok":
            if x["op"] == "recv":
                mid, ok = x.get("mid", "?"), bool(x.get("intact"))
            else:
                ids = [i for i in x.get("ids", []) if not i.startswith("?") and i != ""]
                mid, ok = (ids[-1] if ids else "?"), bool(x.get("intact", True)) or bool(x.get("intact_payload", True))
            tag = mid.rpartition(":")[0]
            recv.setdefault((x["sock"], tag), []).append((mid, ok, x.get("size", x.get("sizes"))))
        elif x.get("ev") == "ret" and x.get("op") in ("send", "send_mp", "connect", "bind", "close") and x.get("sock", "").startswith(("tx", "rx", "cli", "srv", "req", "rep", "pub", "sub")):
            res = x.get("res", "ok")
            if x["op"] in ("close",):
                continue
            calls.setdefault((x["sock"], x["op"]), []).append(res)
        elif x.get("ev") == "event":
            if x.get("event") in ("HandshakeSucceeded", "HandshakeFailed"):
                events.append(x["event"])
    return recv, calls, sorted(set(events))


def compare(ref, got, lossy):
    """returns list of (code, text)"""
    out = []
    rrecv, rcalls, rev = ref
    grecv, gcalls, gev = got
    for key in sorted(set(rrecv) | set(grecv)):
        a, b = rrecv.get(key, []), grecv.get(key, [])
        bad = [m for (m, ok, _) in b if not ok]
        if bad:
            out.append(("corrupt", "socket %s received %s damaged" % (key[0], bad[:3])))
        if lossy:
            continue
        if [m for (m, _, _) in a] != [m for (m, _, _) in b]:
            la, lb = [m for (m, _, _) in a], [m for (m, _, _) in b]
            i = next((k for k in range(min(len(la), len(lb))) if la[k] != lb[k]), min(len(la), len(lb)))
            out.append(("delivery-differs", "socket %s, sender %s: tokio delivered %d messages, io_uring %d; first difference at position %d (%s vs %s)" % (
                key[0], key[1] or "-", len(la), len(lb), i + 1, la[i] if i < len(la) else "nothing", lb[i] if i < len(lb) else "nothing")))
        elif [s for (_, _, s) in a] != [s for (_, _, s) in b]:
            out.append(("sizes-differ", "socket %s, sender %s: same messages, different sizes" % key))
    for key in sorted(set(rcalls) | set(gcalls)):
        a, b = rcalls.get(key, []), gcalls.get(key, [])
        ka, kb = sorted(set(a)), sorted(set(b))
        if ka != kb and not lossy:
            out.append(("errors-differ", "%s() on %s: tokio results %s, io_uring results %s" % (key[1], key[0], ka, kb)))
    if rev != gev:
        out.append(("handshake-outcome-differs", "monitor: tokio %s, io_uring %s" % (rev, gev)))
    return out


def hook_events(r):
    """the backend's hook events of one run, fds restricted to those added in this run"""
    ev = [{"ev": "reset"}]
    added = set()
    stale = 0
    for x in r["records"]:
        e = x.get("ev", "")
        if e.startswith(("zc.", "ring.")):
            ev.append({k: v for k, v in x.items() if k != "seq"})
        elif e.startswith("fd."):
            if e == "fd.add":
                added.add(x["fd"])
            if x["fd"] in added:
                ev.append({k: v for k, v in x.items() if k != "seq"})
            else:
                stale += 1
        elif e == "mark" and x.get("name") == "quiet":
            ev.append({"ev": "quiet"})
    return ev, stale


def describe_hook(ev, at):
    x = ev[at]
    e = x["ev"]
    if e == "zc.acquire":
        return "buffer-handed-out-twice", "send buffer %s was handed out while still in use" % x["id"]
    if e == "zc.release":
        return "buffer-released-twice", "send buffer %s was released although it was not out (pool flag in_use=%s)" % (x["id"], x.get("in_use"))
    if e == "ring.take":
        return "ring-slot-taken-twice", "ring slot %s/%s taken while not lent to the kernel" % (x["bgid"], x["bid"])
    if e == "fd.add":
        return "fd-added-twice", "a handler was added for fd %s that still has one" % x["fd"]
    if e in ("fd.close_queued", "fd.closed", "fd.remove"):
        return "fd-closed-twice", "%s for fd %s does not follow the handler's life cycle (close queued once, completed once, then removed)" % (e, x["fd"])
    if e == "quiet":
        inuse = set()
        fds = set()
        for y in ev[:at]:
            if y["ev"] == "zc.acquire":
                inuse.add(y["id"])
            elif y["ev"] == "zc.release":
                inuse.discard(y["id"])
            elif y["ev"] == "fd.add":
                fds.add(y["fd"])
            elif y["ev"] == "fd.remove":
                fds.discard(y["fd"])
        return "resources-left", "after every socket was closed: send buffers still out %s, fds with a handler %s" % (sorted(inuse), sorted(fds))
    return "other-" + e, json.dumps(x)


def validate_hooks(ctx, runs, tag):
    out = []
    pending = list(range(len(runs)))
    guard = 0
    while pending and guard < 30:
        guard += 1
        flat, starts = [], []
        for i in pending:
            starts.append((len(flat), i))
            flat += runs[i]
        path = os.path.join(ctx.work, "uring_%s_%d.ndjson" % (tag, guard))
        with open(path, "w") as f:
            for e in flat:
                f.write(json.dumps(e) + "\n")
        res = ctx.trace_check("Trace_Uring", "Trace_Uring.cfg", path)
        ctx.extra["hook_events_validated"] = ctx.extra.get("hook_events_validated", 0) + max(res.generated - 1, 0)
        if not res.rejected:
            if res.violated and res.violated != "<postcondition>":
                raise vlib.ToolError("Trace_Uring failed: %s" % res.error)
            break
        at = res.rejected[0][1]
        owner = max((s for s in starts if s[0] <= at), key=lambda s: s[0])
        out.append((owner[1], at - owner[0]))
        pending = [i for i in pending if i > owner[1]]
    return out


def run(ctx):
    thorough = ctx.tier == "thorough"
    vlib.cargo_build()
    ctx.model_check("MC_Uring", "MC_Uring_thorough.cfg" if thorough else "MC_Uring_quick.cfg", workers=8, timeout=1800)
    ctx.model_check("MC_Session", "MC_Session_quick.cfg", workers=8, timeout=1800)
    ctx.exhaustive = True
    wl = workloads(thorough)
    lossy = {"ps-filter"}
    # reference runs
    ref_scs = [with_backend(sc, None) for (_, sc) in wl]
    ref_res = S.run_scenarios(ctx, ref_scs, "c20_ref", timeout=2400, jobs=4)
    ref = {name: (projection(r), r) for (name, _), r in zip(wl, ref_res)}
    for (name, _), r in zip(wl, ref_res):
        if r["panics"] or any("term" in h for h in r["hung"]):
            ctx.note("reference run %s: hung=%s panics=%s" % (name, r["hung"], r["panics"]))
    # io_uring configurations: (process-level pool config, per-socket flags)
    pools = [("16,65536,16,65536", "default")]
    pools += [("2,4096,4,4096", "tiny"), ("4,16384,8,8192", "small")] if not thorough else [("2,4096,2,4096", "tiny"), ("3,8192,4,4096", "odd"), ("4,16384,8,8192", "small"), ("16,4096,16,65536", "narrow-send")]
    flagsets = [dict(zc=0, ms=1, cork=0), dict(zc=1, ms=1, cork=0), dict(zc=1, ms=0, cork=1)]
    if thorough:
        flagsets += [dict(zc=0, ms=0, cork=0), dict(zc=0, ms=1, cork=1), dict(zc=1, ms=0, cork=0), dict(zc=1, ms=1, cork=1), dict(zc=0, ms=0, cork=1)]
    deliv_runs = []
    hook_runs, hook_owners = [], []
    compared = 0
    for (pool, pname) in pools:
        for fl in (flagsets if pname == "default" or thorough else flagsets[1:2]):
            label = "%s/zc%d-ms%d-cork%d" % (pname, fl["zc"], fl["ms"], fl["cork"])
            scs = [with_backend(sc, fl) for (_, sc) in wl]
            for s in scs:
                s["name"] = "%s@%s" % (s["name"], label)
            env = {"VH_URING_CFG": "%s,%d,%d" % (pool, fl["zc"], fl["ms"])}
            res = S.run_scenarios(ctx, scs, "c20_%s_%d%d%d" % (pname, fl["zc"], fl["ms"], fl["cork"]), timeout=2400, jobs=1, env=env)
            for (name, base), sc, r in zip(wl, scs, res):
                rp = {"kind": "recorded-trace", "scenario": sc, "hung": r["hung"], "panics": r["panics"], "backend": label,
                      "records": [x for x in r["records"] if x.get("ev") == "ret" and x.get("res", "ok") != "ok"][:60]}
                if r["panics"]:
                    ctx.violation("C20:panic:%s" % name, "%s: %s" % (sc["name"], r["panics"][0]), rp)
                if r["hung"]:
                    ctx.violation("C20:hangs:%s" % name, "%s: %s did not finish with io_uring (it does with tokio)" % (sc["name"], r["hung"]), rp)
                diffs = compare(ref[name][0], projection(r), name in lossy)
                compared += 1
                for code, text in diffs:
                    ctx.violation("C20:%s:%s" % (code, name), "%s: %s" % (sc["name"], text), rp)
                if name.startswith(("pp-", "dr-", "churn")):
                    senders = [s["name"] for s in sc["sockets"] if s["type"] in ("PUSH", "DEALER")]
                    receivers = [s["name"] for s in sc["sockets"] if s["type"] in ("PULL", "ROUTER")]
                    deliv_runs.append((sc["name"], S.history_to_delivery_trace(r, senders, receivers), rp))
                hv, stale = hook_events(r)
                hook_runs.append(hv)
                hook_owners.append((sc, name, rp))
                ctx.extra["stale_fd_events_ignored"] = ctx.extra.get("stale_fd_events_ignored", 0) + stale
    for (name, _), r in zip(wl, ref_res):
        if name.startswith(("pp-", "dr-", "churn")):
            sc = ref_scs[[n for n, _ in wl].index(name)]
            senders = [s["name"] for s in sc["sockets"] if s["type"] in ("PUSH", "DEALER")]
            receivers = [s["name"] for s in sc["sockets"] if s["type"] in ("PULL", "ROUTER")]
            deliv_runs.append((sc["name"] + "@tokio", S.history_to_delivery_trace(r, senders, receivers), {"kind": "recorded-trace", "scenario": sc["name"], "backend": "tokio"}))
    ctx.extra["runs_compared_with_tokio"] = compared
    ctx.sample({"from": "projection compared", "workload": wl[0][0], "receivers": {"%s<-%s" % k: len(v) for k, v in ref[wl[0][0]][0][0].items()}})
    for (label, bad, rp) in S.validate_delivery(ctx, deliv_runs, "c20"):
        ctx.violation("C20:%s:%s" % (S.rejection_code(bad), label.split("@")[0]), "%s: %s" % (label, S.describe_rejection(bad)), dict(rp, rejected_record=bad))
    # resources
    acq = sum(1 for hv in hook_runs for e in hv if e["ev"] == "zc.acquire")
    take = sum(1 for hv in hook_runs for e in hv if e["ev"] == "ring.take")
    fds = sum(1 for hv in hook_runs for e in hv if e["ev"] == "fd.add")
    ctx.extra["resource_events"] = {"zc.acquire": acq, "ring.take": take, "fd.add": fds}
    if fds == 0:
        raise vlib.ToolError("no io_uring connection was observed (hooks silent): the backend was not exercised")
    if acq == 0:
        ctx.note("no zero-copy send buffer was ever acquired (the pool clauses were not exercised)")
    rejected = validate_hooks(ctx, hook_runs, "main")
    for (i, at) in rejected:
        sc, name, rp = hook_owners[i]
        code, what = describe_hook(hook_runs[i], at)
        ctx.violation("C20:%s:%s" % (code, name), "%s: %s" % (sc["name"], what), dict(rp, rejected_event=hook_runs[i][at]))
    # binding self-test
    bad_idx = set(i for i, _ in rejected)
    pert = []
    for i, hv in enumerate(hook_runs):
        if i in bad_idx or len(pert) >= 9:
            continue
        j = next((k for k, e in enumerate(hv) if e["ev"] == "fd.close_queued"), None)
        if j is not None:
            pert.append(hv[:j + 1] + [dict(hv[j])] + hv[j + 1:])          # a second Close for the same fd
        j = next((k for k, e in enumerate(hv) if e["ev"] == "zc.release"), None)
        if j is not None:
            pert.append(hv[:j] + hv[j + 1:])                              # a buffer never given back
        j = next((k for k, e in enumerate(hv) if e["ev"] == "fd.remove"), None)
        if j is not None:
            pert.append(hv[:j] + hv[j + 1:])                              # a handler never removed
    flagged = sum(1 for p in pert if validate_hooks(ctx, [p], "pert"))
    ctx.selftest["perturbed_hook_traces_rejected"] = "%d/%d" % (flagged, len(pert))
    if pert and flagged != len(pert):
        raise vlib.ToolError("binding self-test failed: %d of %d corrupted hook traces accepted" % (len(pert) - flagged, len(pert)))
    p0 = ref[wl[0][0]][0]
    p1 = (dict((k, v[:-1]) for k, v in p0[0].items()), p0[1], p0[2])
    ctx.selftest["perturbed_projection_flagged"] = bool(compare(p0, p1, False))
    if not ctx.selftest["perturbed_projection_flagged"]:
        raise vlib.ToolError("binding self-test failed: a dropped delivery was not seen by the comparison")
    ctx.assumptions += [
        "equivalence is judged on the timing-free projection: messages per (receiver, sender) in order with integrity, the kinds of results of every call, handshake outcome events; PUB/SUB runs are compared for integrity only (drops are allowed)",
        "the io_uring backend is process-global: each pool configuration runs in its own harness process; fd events of connections opened before a run are ignored",
    ]


def replay(path):
    print("socket-level replay: re-run `python3 tools/check.py C20 --tier quick`")
    return 0
