"""C19 - heartbeats detect dead peers and never kill live ones.

Spec    : spec/Heartbeat.tla - engine heartbeat sub-machine (on_tick / inbound frames), the session's
          interval timer and PONG deadline over a bounded integer clock, and the egress buffer into
          which PING/PONG are inserted ahead of queued data (partial writes).
TLC     : exhaustive for (ivl, timeout) in {(1,1), (1,2), (2,1), (2,3)} and a ZMTP/2.0 session: every
          timeline of tick / inbound data, PING(ctx), PONG / queued chunk / partial write:
          PingWindow, PingAfterIdle, NotOverdue, ClosedOnlyWhenDead, DeadDetected, NoHbOnV2, WholeChunks,
          DataFifo, PongEcho.
Binding : B1. Simulated timelines are replayed on a real ZmtpEngine in the data phase (on_tick gets the
          model clock; activity stamps are re-based onto it) and the real EgressBuffer; PING contexts of
          0, 1, 16 and 17 bytes; the bytes that leave the buffer are parsed back into whole frames.
          Socket level: a raw peer that does / does not answer PINGs (see socklib.c19_sockets).
"""
import json
import os
import vlib


def replay_hb(ctx, beh, tag, perturb=False):
    path = os.path.join(ctx.work, "hb_%s.jsonl" % tag)
    out = os.path.join(ctx.work, "hb_%s.out" % tag)
    vlib.write_jsonl(path, beh)
    vlib.vh(["hb", path, out] + (["--perturb"] if perturb else []))
    return json.load(open(out))


def run(ctx):
    thorough = ctx.tier == "thorough"
    vlib.cargo_build()
    for c in ["a", "b", "c", "d", "e", "v2"]:
        ctx.model_check("MC_Heartbeat", "MC_Heartbeat_%s.cfg" % c, workers=8, timeout=900)
    ctx.exhaustive = True
    beh = []
    for i, c in enumerate(["sim", "sim11", "sim21", "sim13", "simv2"]):
        r = ctx.model_check("MC_Heartbeat", "MC_Heartbeat_%s.cfg" % c, workers=1, simulate=2500 if thorough else 250, depth=120,
                            seed=ctx.seed + i, timeout=900)
        beh += r.replays
    if not beh:
        raise vlib.ToolError("no behaviours exported")
    ctx.sample({"from": "MC_Heartbeat_sim", "behaviour": beh[0]})
    r = replay_hb(ctx, beh, "sim")
    ctx.traces += r["runs"]
    for o in r["outcomes"]:
        for i in o["issues"]:
            if i["class"] == "drift":
                ctx.drift += 1
                if ctx.drift <= 5:
                    ctx.note("drift (behaviour %d step %s): %s %s" % (o["index"], i["step"], i["code"], i["detail"][:200]))
            elif i["class"] == "prop":
                ctx.violation("C19:%s" % i["code"], "%s: %s" % (i["code"], i["detail"][:500]),
                              {"kind": "tlc-behaviour", "module": "MC_Heartbeat", "behaviour": beh[o["index"]], "issue": i})
            elif i["class"] == "tool":
                raise vlib.ToolError("heartbeat replay setup failed: " + i["detail"])
    st = replay_hb(ctx, [b for b in beh if b["steps"] and b["steps"][-1]["a"] == "tick"][:30], "self", perturb=True)
    flagged = sum(1 for o in st["outcomes"] if any(i["class"] == "selftest" for i in o["issues"]))
    ctx.selftest["perturbed_tick_expectation_rejected"] = "%d/%d" % (flagged, st["runs"])
    if st["runs"] and flagged < st["runs"]:
        raise vlib.ToolError("binding self-test failed")
    try:
        from props import socklib
        socklib.c19_sockets(ctx)
    except AttributeError:
        ctx.note("socket-level part not built yet")
    ctx.assumptions += [
        "time is a bounded integer clock; the tokio interval timer is assumed to fire every HEARTBEAT_IVL",
        "PING/PONG on encrypted connections: see C18 (known finding C18-b)",
    ]


def replay(path):
    rp = json.load(open(path))
    ctx = vlib.Ctx("C19", "quick", rp.get("seed", 1))
    vlib.cargo_build()
    r = replay_hb(ctx, [rp["replay"]["behaviour"]], "one")
    bad = [i for o in r["outcomes"] for i in o["issues"] if i["class"] == "prop"]
    for i in bad:
        print("REPRODUCED %s: %s" % (i["code"], i["detail"]))
    return 1 if bad else 0
