"""Socket-level (B3) helpers: build scenarios for `vh sock`, run them, read histories.

A scenario is a dict {name, sockets:[{name,type,opts:[[id,kind,value]]}], tasks:[{name,ops:[...]}]};
`vh sock` runs each on a fresh runtime and returns the recorded history (call/ret records of
every API call, monitor events, hook events from inside rzmq), which the property-level oracles
and the TLA+ trace specifications read."""
import json
import os
import vlib

# option ids (core/src/socket/options.rs)
SNDHWM, RCVHWM, LINGER, ROUTING_ID = 23, 24, 17, 5
RCVTIMEO, SNDTIMEO = 27, 28
RECONNECT_IVL, RECONNECT_IVL_MAX = 18, 21
HEARTBEAT_IVL, HEARTBEAT_TIMEOUT, HANDSHAKE_IVL = 38, 39, 41
ROUTER_MANDATORY, AUTO_DELIMITER = 33, 42
MAXMSGSIZE, MAX_CONNECTIONS = 22, 1000
SUBSCRIBE, UNSUBSCRIBE = 6, 7
SNDBATCH_COUNT, SNDBATCH_BYTES, RCVBATCH_COUNT, RCVBATCH_BYTES = 1215, 1216, 1217, 1218
IO_URING_SESSION_ENABLED, IO_URING_SNDZEROCOPY, IO_URING_RCVMULTISHOT, TCP_CORK = 1175, 1170, 1171, 1172
ADAPTIVE_THROTTLE = 1210
PLAIN_SERVER, PLAIN_USERNAME, PLAIN_PASSWORD = 44, 45, 46
ALLOW_ZMTP2 = 1220


def i32(opt, v):
    return [opt, "i32", v]


def _run_chunk(ctx, chunk, tag, env, hard_timeout):
    """Run one list of scenarios in `vh sock` processes. A process that does not end within the sum of
    its scenarios' deadlines is killed: what it finished is kept, the scenario it was in is reported as
    hung (a live-lock in the code under test is data, not a tool failure) and the rest runs in a new
    process. Returns one result per scenario."""
    import subprocess
    import time
    results = []
    rest = list(chunk)
    part = 0
    t_end = time.time() + hard_timeout
    while rest:
        part += 1
        path = os.path.join(ctx.work, "sc_%s_p%d.jsonl" % (tag, part))
        out = os.path.join(ctx.work, "sc_%s_p%d.out" % (tag, part))
        vlib.write_jsonl(path, rest)
        if os.path.exists(out):
            os.remove(out)
        penv = dict(os.environ)
        penv["VERIF_SEED"] = str(ctx.seed)
        penv.update(env or {})
        budget = sum((sc.get("deadline_ms") or 30000) for sc in rest) / 1000.0 + 20 + 2 * len(rest)
        budget = min(budget, max(t_end - time.time(), 30))
        p = subprocess.Popen([vlib.VH, "sock", path, out], cwd=vlib.WORK, env=penv, stdout=subprocess.PIPE, stderr=subprocess.STDOUT)
        killed = False
        try:
            so, _ = p.communicate(timeout=budget)
        except subprocess.TimeoutExpired:
            p.kill()
            so, _ = p.communicate()
            killed = True
        done = []
        if os.path.exists(out):
            for line in open(out):
                line = line.strip()
                if not line:
                    continue
                try:
                    done.append(json.loads(line))
                except ValueError:
                    break                      # a line cut short by the kill
        if not killed:
            if p.returncode != 0:
                raise vlib.ToolError("vh sock failed rc=%d: %s" % (p.returncode, so.decode(errors="replace")[-400:]))
            if len(done) != len(rest):
                raise vlib.ToolError("vh sock returned %d results for %d scenarios" % (len(done), len(rest)))
            results += done
            rest = []
        else:
            done = done[:len(rest)]
            results += done
            if len(done) < len(rest):
                stuck = rest[len(done)]
                vlib.log("NOTE scenario %s did not end within its deadline: harness process killed" % stuck.get("name"))
                results.append({"name": stuck.get("name"), "records": [], "panics": [], "wall_ms": int(budget * 1000),
                                "hung": ["harness: the scenario never ended, not even at its deadline (a task spins without yielding?) - process killed"]})
            rest = rest[len(done) + 1:]
            if time.time() > t_end and rest:
                raise vlib.ToolError("vh sock: time budget exhausted with %d scenarios left" % len(rest))
    return results


def run_scenarios(ctx, scenarios, tag, timeout=1800, jobs=1, env=None):
    """Run scenarios with `vh sock`. jobs > 1 runs several harness processes side by side (only for
    scenarios whose oracles do not depend on timing)."""
    from concurrent.futures import ThreadPoolExecutor
    if jobs <= 1 or len(scenarios) < 2 * jobs:
        res = _run_chunk(ctx, scenarios, tag, env, timeout)
    else:
        chunks = [scenarios[i::jobs] for i in range(jobs)]
        with ThreadPoolExecutor(max_workers=jobs) as ex:
            parts = list(ex.map(lambda jc: _run_chunk(ctx, jc[1], "%s_%d" % (tag, jc[0]), env, timeout), enumerate(chunks)))
        res = [None] * len(scenarios)
        for j, part in enumerate(parts):
            for k, r in enumerate(part):
                res[j + k * jobs] = r
        if any(r is None for r in res):
            raise vlib.ToolError("vh sock returned too few results")
    if len(res) != len(scenarios):
        raise vlib.ToolError("vh sock returned %d results for %d scenarios" % (len(res), len(scenarios)))
    ctx.traces += len(res)
    return res


def rets(result, op=None, sock=None, task=None):
    out = []
    for r in result["records"]:
        if r.get("ev") != "ret":
            continue
        if op and r.get("op") != op:
            continue
        if sock and r.get("sock") != sock:
            continue
        if task and r.get("task") != task:
            continue
        out.append(r)
    return out


def hexs(b):
    return bytes(b).hex()


# ---- raw ZMTP bytes (independent of rzmq) -------------------------------------
def greeting(mech=b"NULL", as_server=False):
    return b"\xff" + b"\x00" * 8 + b"\x7f" + b"\x03\x00" + mech.ljust(20, b"\x00") + (b"\x01" if as_server else b"\x00") + b"\x00" * 31


def frame(body, more=False, cmd=False):
    fl = (1 if more else 0) | (4 if cmd else 0)
    if len(body) <= 255:
        return bytes([fl, len(body)]) + body
    return bytes([fl | 2]) + len(body).to_bytes(8, "big") + body


def ready(socket_type, identity=b""):
    b = b"\x05READY" + bytes([11]) + b"Socket-Type" + len(socket_type).to_bytes(4, "big") + socket_type
    if identity:
        b += bytes([8]) + b"Identity" + len(identity).to_bytes(4, "big") + identity
    return frame(b, cmd=True)


def payload(mid, size):
    """Mirror of harness sock.rs payload(): '<id>|' + xorshift fill."""
    v = bytearray(mid.encode() + b"|")
    x = 2166136261
    for ch in mid.encode():
        x = ((x ^ ch) * 16777619) & 0xFFFFFFFF
    while len(v) < size:
        x ^= (x << 13) & 0xFFFFFFFF
        x ^= x >> 17
        x ^= (x << 5) & 0xFFFFFFFF
        v.append(x & 0xFF)
    return bytes(v)


# ---- C04 at socket level --------------------------------------------------------
def c04_sockets(ctx):
    """Honest transcripts (Script.tla, grammar Transcript) written by a raw TCP peer against a real
    PULL listener with the write boundaries TLC chose / one write / token per write, on both
    session backends; recv() must return exactly DataOf(transcript)."""
    thorough = ctx.tier == "thorough"
    ctx.model_check("MC_Script", "MC_Script_transcripts.cfg", workers=8, timeout=900)
    sim = ctx.model_check("MC_Script", "MC_Script_simtranscripts.cfg", workers=1, simulate=1500 if thorough else 300,
                          depth=80, seed=ctx.seed + 7, timeout=900)
    if not sim.replays:
        raise vlib.ToolError("no transcripts exported")
    path = os.path.join(ctx.work, "tr.jsonl")
    out = os.path.join(ctx.work, "tr.out")
    vlib.write_jsonl(path, sim.replays)
    vlib.vh(["sockscript", path, out, "--both", "--limit", "400" if thorough else "40"], timeout=2400,
            env={"VERIF_SEED": str(ctx.seed)})
    r = json.load(open(out))
    ctx.traces += r["runs"]
    ctx.extra["socket_level_transcripts"] = r["transcripts"]
    ctx.extra["socket_level_runs"] = r["runs"]
    if r.get("sample"):
        s = r["sample"]
        ctx.sample({"from": "raw TCP peer vs real PULL listener", "tokens": s["tokens"], "expected": s["expected"], "runs": s["runs"][:3]})
    for o in r["outcomes"]:
        for i in o["issues"]:
            if i["class"] == "prop":
                backend = "io_uring" if "io_uring" in i["detail"] else "tokio"
                ctx.violation("C04:%s:%s" % (i["code"], backend), "%s: %s" % (i["code"], i["detail"][:700]),
                              {"kind": "recorded-trace", "harness": "sockscript", "tokens": o["tokens"], "expected": o["expected"], "runs": o["runs"], "issue": i})
            elif i["class"] == "tool":
                ctx.note("socket run could not be set up: %s" % i["detail"][:200])


# ---- C07 at socket level --------------------------------------------------------
def _drip_scenario(name, ivl_ms, pattern, uring=False, maxconn=None):
    """A raw peer that never completes the handshake (pattern: 'drip' one byte every ~0.4*ivl,
    'silence', 'garbage' a burst of random-looking bytes) next to a well-behaved PUSH peer."""
    opts = [i32(HANDSHAKE_IVL, ivl_ms), i32(RCVTIMEO, 4000)]
    if uring:
        opts.append(i32(IO_URING_SESSION_ENABLED, 1))
    if maxconn:
        opts.append(i32(MAX_CONNECTIONS, maxconn))
    step = max(20, int(ivl_ms * 0.4))
    total_ms = ivl_ms * 6 + 2500
    raw_ops = [{"op": "barrier", "name": "go", "parties": 3}, {"op": "raw_connect", "raw": "r", "ep": "$ep"}, {"op": "mark", "name": "raw_connected"}]
    stream = greeting() + ready(b"PUSH") + frame(payload("evil:1", 16))
    if pattern == "garbage":
        raw_ops.append({"op": "raw_write", "raw": "r", "hex": hexs(bytes((i * 37 + 11) & 0xFF for i in range(200)))})
    n = 0
    t = 0
    while t < total_ms:
        if pattern == "drip" and n < len(stream) - 30:
            raw_ops.append({"op": "raw_write", "raw": "r", "hex": hexs(stream[n:n + 1])})
            n += 1
        raw_ops.append({"op": "raw_read", "raw": "r", "n": 1000000, "timeout_ms": step, "keep_hex": 0})
        t += step
    raw_ops.append({"op": "raw_close", "raw": "r"})
    good_ops = [{"op": "barrier", "name": "go", "parties": 3}]
    if maxconn == 1:
        # the slot is taken by the raw peer first; connect after it must have been released
        good_ops.append({"op": "sleep", "ms": ivl_ms * 2 + 1200})
    good_ops += [{"op": "connect", "sock": "push", "ep": "$ep"},
                 {"op": "send_n", "sock": "push", "prefix": "good", "n": 5, "sizes": [32], "timeout_ms": 4000}]
    return {"name": name, "uring": uring, "deadline_ms": total_ms + 15000,
            "sockets": [{"name": "pull", "type": "PULL", "opts": opts},
                        {"name": "push", "type": "PUSH", "opts": [i32(SNDTIMEO, 4000)]}],
            "tasks": [{"name": "srv", "ops": [{"op": "bind", "sock": "pull", "ep": "tcp://127.0.0.1:0", "save": "ep"},
                                             {"op": "barrier", "name": "go", "parties": 3},
                                             {"op": "recv_n", "sock": "pull", "n": 5, "timeout_ms": ivl_ms * 6 + 8000},
                                             {"op": "recv", "sock": "pull", "timeout_ms": 300}]},
                      {"name": "raw", "ops": raw_ops},
                      {"name": "good", "ops": good_ops}],
            "meta": {"ivl_ms": ivl_ms, "pattern": pattern, "uring": uring, "maxconn": maxconn}}


def c07_sockets(ctx):
    thorough = ctx.tier == "thorough"
    scs = []
    ivls = [300, 700] if thorough else [300]
    for ivl in ivls:
        for pat in ["drip", "silence", "garbage"]:
            scs.append(_drip_scenario("hs-%s-%d" % (pat, ivl), ivl, pat))
            scs.append(_drip_scenario("hs-%s-%d-uring" % (pat, ivl), ivl, pat, uring=True))
        scs.append(_drip_scenario("hs-slot-%d" % ivl, ivl, "drip", maxconn=1))
    metas = [s.pop("meta") for s in scs]
    res = run_scenarios(ctx, scs, "c07", timeout=1800)
    for sc, meta, r in zip(scs, metas, res):
        backend = "io_uring" if meta["uring"] else "tokio"
        ivl = meta["ivl_ms"]
        t_conn = next((x["t"] for x in r["records"] if x.get("ev") == "mark" and x.get("name") == "raw_connected"), None)
        eof = [x for x in rets(r, "raw_read") if x.get("eof")]
        werr = [x for x in rets(r, "raw_write") if x.get("res") != "ok"]
        t_closed = min([x["t"] for x in eof + werr], default=None)
        replay = {"kind": "recorded-trace", "scenario": sc, "records": r["records"][-60:], "hung": r["hung"], "panics": r["panics"]}
        if r["panics"]:
            ctx.violation("C07:panic:%s" % backend, "panic in rzmq while a peer misbehaves (%s): %s" % (meta["pattern"], r["panics"][0]), replay)
        if t_conn is None:
            ctx.note("%s: raw peer could not connect" % sc["name"])
            continue
        if t_closed is None or t_closed - t_conn > ivl + 2000:
            ctx.violation("C07:handshake-interval:%s:%s" % (meta["pattern"], backend),
                          "a peer that never completes the handshake (%s, HANDSHAKE_IVL=%d ms, %s backend) was %s" % (
                              meta["pattern"], ivl, backend,
                              "still connected after %d ms" % (max(x["t"] for x in r["records"] if "t" in x) - t_conn) if t_closed is None
                              else "only disconnected after %d ms" % (t_closed - t_conn)), replay)
        good = [x for x in rets(r, "recv", sock="pull") if x.get("res") == "ok" and x.get("mid", "").startswith("good:")]
        evil = [x for x in rets(r, "recv", sock="pull") if x.get("res") == "ok" and not x.get("mid", "").startswith("good:")]
        if len(good) != 5:
            ctx.violation("C07:other-connection-starved:%s:%s" % (meta["pattern"] + ("-slot" if meta["maxconn"] else ""), backend),
                          "while a raw peer misbehaves (%s%s, %s) the well-behaved peer got only %d of 5 messages through; hung=%s" % (
                              meta["pattern"], ", MAX_CONNECTIONS=1" if meta["maxconn"] else "", backend, len(good), r["hung"]), replay)
        if evil:
            ctx.violation("C07:delivered-from-unfinished-handshake:%s" % backend, "recv() returned %s from a peer that never finished the handshake" % evil[0].get("mid"), replay)
    ctx.extra["socket_level_handshake_scenarios"] = len(scs)


# ---- Delivery oracle (Trace_Delivery.tla) ----------------------------------------
def history_to_delivery_trace(result, senders, receivers, frame_of=None):
    """Turn a recorded history into Delivery events. `senders`: socket names whose send calls are
    offers; `receivers`: socket names whose recv results are deliveries. Message ids are
    '<sender-tag>:<k>' (send_n) - the sender tag identifies the sending socket."""
    ev = []
    sender_of = {}
    for r in result["records"]:
        op = r.get("op")
        if r.get("ev") == "call" and op in ("send", "send_mp") and r.get("sock") in senders:
            tag, _, k = r["mid"].rpartition(":")
            sender_of[tag] = r["sock"]
            ev.append({"e": "offer", "s": tag, "k": int(k)})
        elif r.get("ev") == "ret" and op in ("send", "send_mp") and r.get("sock") in senders:
            tag, _, k = r["mid"].rpartition(":")
            ev.append({"e": "ok" if r["res"] == "ok" else "refuse", "s": tag, "k": int(k)})
        elif r.get("ev") == "ret" and op in ("recv", "recv_mp") and r.get("sock") in receivers and r.get("res") == "ok":
            if op == "recv":
                mid, intact = r.get("mid", "?"), bool(r.get("intact"))
            else:
                # multipart: identity / delimiter frames first, the payload frames carry '<mid>.<i>'
                ids = [i for i in r.get("ids", []) if not i.startswith("?") and i != ""]
                intact = bool(r.get("intact")) or all(x.startswith("?") or x == "" for x in r.get("ids", [])[:1])
                if len(ids) == 1 and "." not in ids[0].rsplit(":", 1)[-1]:
                    mid = ids[0]                     # a single-frame send() read with recv_multipart()
                else:
                    mid = ids[0].rsplit(".", 1)[0] if ids else "?"
                    want = [mid + ".%d" % (j + 1) for j in range(len(ids))]
                    if ids != want:
                        intact = False
                intact = intact and bool(r.get("intact_payload", True))
            tag, _, k = mid.rpartition(":")
            try:
                kk = int(k)
            except ValueError:
                tag, kk = "?", 0
            ev.append({"e": "deliver", "r": r["sock"], "s": tag, "k": kk, "intact": bool(intact)})
    ev.append({"e": "quiesce"})
    return ev


def validate_delivery(ctx, runs, tag, fanout=False):
    """runs: list of (label, events, replay_obj). One TLC run over all of them (reset records in
    between); on rejection the offending run is located and validated alone for the message.
    Returns list of (label, detail, replay_obj) for rejected runs."""
    rejected = []
    pending = list(runs)
    guard = 0
    while pending and guard < 12:
        guard += 1
        path = os.path.join(ctx.work, "dtrace_%s_%d.ndjson" % (tag, guard))
        offsets = []
        with open(path, "w") as f:
            n = 0
            for (label, events, rp) in pending:
                offsets.append(n)
                for e in events:
                    f.write(json.dumps(e) + "\n")
                    n += 1
                f.write(json.dumps({"e": "reset"}) + "\n")
                n += 1
        res = ctx.trace_check("Trace_Delivery", "Trace_Delivery_fanout.cfg" if fanout else "Trace_Delivery.cfg", path)
        ctx.extra["delivery_events_validated"] = ctx.extra.get("delivery_events_validated", 0) + max(res.generated - 1, 0)
        if not res.rejected:
            break
        matched = res.rejected[0][1]
        # which run contains record number matched+1 ?
        idx = max(i for i, off in enumerate(offsets) if off <= matched)
        label, events, rp = pending[idx]
        bad = events[matched - offsets[idx]] if matched - offsets[idx] < len(events) else {"e": "?"}
        rejected.append((label, bad, rp))
        pending = pending[idx + 1:]
    return rejected


def describe_rejection(bad):
    if bad.get("e") == "quiesce":
        return "accepted message(s) never delivered although the connection stayed up and the receiver drained its socket"
    if bad.get("e") == "deliver":
        if not bad.get("intact", True):
            return "message %s:%s delivered corrupted / with wrong frames" % (bad.get("s"), bad.get("k"))
        return "delivery of %s:%s at %s is a duplicate, out of order, or of a message nobody sent" % (bad.get("s"), bad.get("k"), bad.get("r"))
    return "history record rejected: %s" % json.dumps(bad)


def rejection_code(bad):
    if bad.get("e") == "quiesce":
        return "lost"
    if bad.get("e") == "deliver":
        return "corrupt" if not bad.get("intact", True) else "dup-or-reorder"
    return "other"


# ---- generic delivery workloads (C01, C14, C20) -----------------------------------
_ipc_counter = [0]


def endpoint(transport, name):
    if transport == "tcp":
        return "tcp://127.0.0.1:0"
    if transport == "ipc":
        _ipc_counter[0] += 1
        return "ipc:///tmp/rzmq_verif_%d_%s_%d" % (os.getpid(), name, _ipc_counter[0])
    _ipc_counter[0] += 1
    return "inproc://verif_%s_%d" % (name, _ipc_counter[0])


def push_pull(name, transport="tcp", n=200, sizes=(64,), tx_opts=(), rx_opts=(), rx_pace_us=0, flavor="multi",
              when="mid", uring=False, deadline_ms=40000):
    ep = endpoint(transport, name)
    rx_ops = []
    tx_ops = []
    if when == "before" and transport == "ipc":
        # connect first; the listener appears later (connection established by a retry)
        tx_ops += [{"op": "connect", "sock": "tx", "ep": ep}, {"op": "barrier", "name": "go", "parties": 2}]
        rx_ops += [{"op": "barrier", "name": "go", "parties": 2}, {"op": "sleep", "ms": 150}, {"op": "bind", "sock": "rx", "ep": ep, "save": "ep"}]
    else:
        rx_ops += [{"op": "bind", "sock": "rx", "ep": ep, "save": "ep"}, {"op": "barrier", "name": "go", "parties": 2}]
        tx_ops += [{"op": "barrier", "name": "go", "parties": 2}, {"op": "connect", "sock": "tx", "ep": "$ep"}]
        if when == "after":
            tx_ops.append({"op": "sleep", "ms": 250})
    tx_ops.append({"op": "send_n", "sock": "tx", "prefix": "a", "n": n, "sizes": list(sizes), "timeout_ms": 20000, "stop_on_err": True})
    rx_ops.append({"op": "recv_n", "sock": "rx", "n": n, "timeout_ms": 5000, "pace_us": rx_pace_us})
    rx_ops.append({"op": "recv", "sock": "rx", "timeout_ms": 200})   # nothing extra may arrive
    to = list(tx_opts) + ([i32(IO_URING_SESSION_ENABLED, 1)] if uring else [])
    ro = list(rx_opts) + ([i32(IO_URING_SESSION_ENABLED, 1)] if uring else [])
    return {"name": name, "flavor": flavor, "uring": uring, "deadline_ms": deadline_ms,
            "sockets": [{"name": "tx", "type": "PUSH", "opts": to}, {"name": "rx", "type": "PULL", "opts": ro}],
            "tasks": [{"name": "rx", "ops": rx_ops}, {"name": "tx", "ops": tx_ops}]}


def dealer_router(name, transport="tcp", n=50, sizes=(64,), tx_opts=(), rx_opts=(), when="mid", uring=False):
    ep = endpoint(transport, name)
    rx_ops = [{"op": "bind", "sock": "rx", "ep": ep, "save": "ep"}, {"op": "barrier", "name": "go", "parties": 2},
              {"op": "recv_n", "sock": "rx", "n": n, "timeout_ms": 4000, "multipart": True},
              {"op": "recv_mp", "sock": "rx", "timeout_ms": 200}]
    tx_ops = [{"op": "barrier", "name": "go", "parties": 2}, {"op": "connect", "sock": "tx", "ep": "$ep"}]
    if when == "after":
        tx_ops.append({"op": "sleep", "ms": 250})
    for k in range(1, n + 1):
        tx_ops.append({"op": "send_mp", "sock": "tx", "mid": "d:%d" % k, "sizes": [sizes[(k - 1) % len(sizes)]], "timeout_ms": 10000})
    to = list(tx_opts) + [[ROUTING_ID, "str", "dealer-1"]] + ([i32(IO_URING_SESSION_ENABLED, 1)] if uring else [])
    ro = list(rx_opts) + ([i32(IO_URING_SESSION_ENABLED, 1)] if uring else [])
    return {"name": name, "uring": uring, "deadline_ms": 40000,
            "sockets": [{"name": "tx", "type": "DEALER", "opts": to}, {"name": "rx", "type": "ROUTER", "opts": ro}],
            "tasks": [{"name": "rx", "ops": rx_ops}, {"name": "tx", "ops": tx_ops}]}


def req_rep(name, transport="tcp", n=30, sizes=(64,), uring=False):
    ep = endpoint(transport, name)
    rep_ops = [{"op": "bind", "sock": "rep", "ep": ep, "save": "ep"}, {"op": "barrier", "name": "go", "parties": 2}]
    req_ops = [{"op": "barrier", "name": "go", "parties": 2}, {"op": "connect", "sock": "req", "ep": "$ep"}]
    for k in range(1, n + 1):
        sz = sizes[(k - 1) % len(sizes)]
        req_ops += [{"op": "send", "sock": "req", "mid": "q:%d" % k, "size": sz, "timeout_ms": 8000},
                    {"op": "recv", "sock": "req", "timeout_ms": 8000}]
        rep_ops += [{"op": "recv", "sock": "rep", "timeout_ms": 8000},
                    {"op": "send", "sock": "rep", "mid": "p:%d" % k, "size": sz, "timeout_ms": 8000}]
    o_ = [i32(IO_URING_SESSION_ENABLED, 1)] if uring else []
    return {"name": name, "uring": uring, "deadline_ms": 60000,
            "sockets": [{"name": "req", "type": "REQ", "opts": o_}, {"name": "rep", "type": "REP", "opts": o_}],
            "tasks": [{"name": "rep", "ops": rep_ops}, {"name": "req", "ops": req_ops}]}


# ---- PUB/SUB (C12) ------------------------------------------------------------------
def pubsub_filter(name, transport, subs_phases, uring=False):
    """subs_phases: list of (ops, topics_to_publish) - ops are ('sub'|'unsub', topic-bytes) applied
    before the phase's messages are published. Topics are bytes; a message is <topic>#<id>|fill."""
    ep = endpoint(transport, name)
    sub_ops = [{"op": "barrier", "name": "bound", "parties": 2}, {"op": "connect", "sock": "sub", "ep": "$ep"}, {"op": "sleep", "ms": 150}]
    pub_ops = [{"op": "bind", "sock": "pub", "ep": ep, "save": "ep"}, {"op": "barrier", "name": "bound", "parties": 2}]
    k = 0
    for pi, (ops, topics) in enumerate(subs_phases):
        for (o, t) in ops:
            sub_ops.append({"op": "opt", "sock": "sub", "id": SUBSCRIBE if o == "sub" else UNSUBSCRIBE, "kind": "hex", "value": bytes(t).hex()})
        sub_ops.append({"op": "barrier", "name": "ph%d" % pi, "parties": 2})
        pub_ops.append({"op": "barrier", "name": "ph%d" % pi, "parties": 2})
        pub_ops.append({"op": "sleep", "ms": 60})
        for t in topics:
            k += 1
            # first frame = topic bytes + marker; second frame carries the id (filter is on the first frame only)
            pub_ops.append({"op": "send_mp", "sock": "pub", "mid": "p:%d" % k, "sizes": [24], "prefix_hex": [bytes(t).hex()], "timeout_ms": 3000})
        # drain what arrives in this phase
        sub_ops.append({"op": "recv_n", "sock": "sub", "n": len(topics) + 1, "timeout_ms": 350, "multipart": True})
        sub_ops.append({"op": "barrier", "name": "ph%d_done" % pi, "parties": 2})
        pub_ops.append({"op": "barrier", "name": "ph%d_done" % pi, "parties": 2})
    o_ = [i32(IO_URING_SESSION_ENABLED, 1)] if uring else []
    return {"name": name, "uring": uring, "deadline_ms": 60000,
            "sockets": [{"name": "pub", "type": "PUB", "opts": o_}, {"name": "sub", "type": "SUB", "opts": o_}],
            "tasks": [{"name": "pub", "ops": pub_ops}, {"name": "sub", "ops": sub_ops}]}


def pubsub_stall(name, transport="tcp", n=500, size=65536, uring=False):
    """Two subscribers, one of which completes the handshake and never reads."""
    ep = endpoint(transport, name)
    o_ = [i32(IO_URING_SESSION_ENABLED, 1)] if uring else []
    return {"name": name, "uring": uring, "deadline_ms": 60000,
            "sockets": [{"name": "pub", "type": "PUB", "opts": o_ + [i32(SNDHWM, 16)]},
                        {"name": "good", "type": "SUB", "opts": o_ + [[SUBSCRIBE, "str", ""]]},
                        {"name": "stalled", "type": "SUB", "opts": o_ + [[SUBSCRIBE, "str", ""]]}],
            "tasks": [{"name": "pub", "ops": [{"op": "bind", "sock": "pub", "ep": ep, "save": "ep"},
                                             {"op": "barrier", "name": "go", "parties": 3}, {"op": "sleep", "ms": 400},
                                             {"op": "send_n", "sock": "pub", "prefix": "p", "n": n, "sizes": [size], "pace_us": 300, "timeout_ms": 6000, "stop_on_err": True},
                                             {"op": "mark", "name": "pub_done"}]},
                      {"name": "good", "ops": [{"op": "barrier", "name": "go", "parties": 3}, {"op": "connect", "sock": "good", "ep": "$ep"},
                                              {"op": "recv_n", "sock": "good", "n": n, "timeout_ms": 4000}]},
                      {"name": "stalled", "ops": [{"op": "barrier", "name": "go", "parties": 3}, {"op": "connect", "sock": "stalled", "ep": "$ep"},
                                                 {"op": "sleep", "ms": 1000}]}]}


# ---- PUSH fan (C13) --------------------------------------------------------------------
def push_fan(name, transport="tcp", npull=3, stalled=(), n=300, size=2000, late_join=None, leave=None, sndhwm=16, first_send_before_peer=False):
    """One PUSH (binds) and several PULLs that connect; pulls named in `stalled` complete the
    handshake and never read. late_join: index of a pull that connects after half the messages;
    leave: index of a pull that closes after a third of the run."""
    ep = endpoint(transport, name)
    socks = [{"name": "push", "type": "PUSH", "opts": [i32(SNDHWM, sndhwm), i32(SNDTIMEO, 15000)]}]
    tasks = []
    parties = npull + 1
    push_ops = [{"op": "bind", "sock": "push", "ep": ep, "save": "ep"}, {"op": "barrier", "name": "go", "parties": parties}]
    if not first_send_before_peer:
        push_ops.append({"op": "sleep", "ms": 500})
    push_ops += [{"op": "send_n", "sock": "push", "prefix": "a", "n": n, "sizes": [size], "timeout_ms": 20000, "stop_on_err": True, "pace_us": 200},
                 {"op": "mark", "name": "push_done"}]
    tasks.append({"name": "push", "ops": push_ops})
    for i in range(npull):
        nm = "pull%d" % i
        socks.append({"name": nm, "type": "PULL", "opts": [i32(RCVHWM, 16)]})
        ops = [{"op": "barrier", "name": "go", "parties": parties}]
        if first_send_before_peer:
            ops.append({"op": "sleep", "ms": 400})
        if late_join == i:
            ops.append({"op": "sleep", "ms": 700})
        ops.append({"op": "connect", "sock": nm, "ep": "$ep"})
        if i in stalled:
            ops.append({"op": "sleep", "ms": 200})
        elif leave == i:
            ops += [{"op": "recv_n", "sock": nm, "n": max(1, n // (3 * npull)), "timeout_ms": 3000}, {"op": "close", "sock": nm, "timeout_ms": 5000}]
        else:
            ops.append({"op": "recv_n", "sock": nm, "n": n, "timeout_ms": 2500})
        tasks.append({"name": nm, "ops": ops})
    return {"name": name, "deadline_ms": 90000, "sockets": socks, "tasks": tasks}


# ---- ROUTER addressing (C11) ------------------------------------------------------------
SHAPES = [[24], [0], [0, 24], [24, 0], [24, 0, 24], [0, 0], [300, 24]]


def router_scenario(name, transport="tcp", peers=(("DEALER", "A"), ("DEALER", "B"), ("DEALER", None), ("REQ", "R")), mandatory=False, uring=False):
    """ROUTER binds and echoes every message back to the identity it came from; each peer sends one
    message per payload shape and reads the echo. Then the ROUTER addresses each configured identity
    explicitly, and an identity nobody has."""
    ep = endpoint(transport, name)
    o_ = [i32(IO_URING_SESSION_ENABLED, 1)] if uring else []
    socks = [{"name": "router", "type": "ROUTER", "opts": o_ + [i32(RCVTIMEO, 2500), i32(SNDTIMEO, 2500)] + ([i32(ROUTER_MANDATORY, 1)] if mandatory else [])}]
    parties = len(peers) + 1
    total = 0
    tasks = []
    for pi, (ty, pid) in enumerate(peers):
        nm = "p%d" % pi
        opts = o_ + [i32(RCVTIMEO, 2500), i32(SNDTIMEO, 2500)]
        if pid:
            opts.append([ROUTING_ID, "str", pid])
        socks.append({"name": nm, "type": ty, "opts": opts})
        ops = [{"op": "barrier", "name": "go", "parties": parties}, {"op": "connect", "sock": nm, "ep": "$ep"}, {"op": "sleep", "ms": 200}]
        shapes = SHAPES if ty == "DEALER" else [[24], [300]]
        for k, sh in enumerate(shapes, 1):
            total += 1
            if ty == "DEALER":
                ops.append({"op": "send_mp", "sock": nm, "mid": "%s:%d" % (nm, k), "sizes": sh, "timeout_ms": 2500})
                ops.append({"op": "recv_mp", "sock": nm, "timeout_ms": 2500})
            else:
                ops.append({"op": "send", "sock": nm, "mid": "%s:%d.1" % (nm, k), "size": sh[0], "timeout_ms": 2500})
                ops.append({"op": "recv", "sock": nm, "timeout_ms": 2500})
        ops.append({"op": "barrier", "name": "phase2", "parties": parties})
        # explicit addressing phase: whatever arrives must be addressed to this peer
        if ty == "DEALER":
            ops.append({"op": "recv_n", "sock": nm, "n": 3, "timeout_ms": 900, "multipart": True})
        tasks.append({"name": nm, "ops": ops})
    rops = [{"op": "bind", "sock": "router", "ep": ep, "save": "ep"}, {"op": "barrier", "name": "go", "parties": parties},
            {"op": "echo_n", "sock": "router", "n": total, "timeout_ms": 3000},
            {"op": "barrier", "name": "phase2", "parties": parties}]
    for pi, (ty, pid) in enumerate(peers):
        if ty == "DEALER" and pid:
            rops.append({"op": "send_mp", "sock": "router", "mid": "to-p%d:1" % pi, "sizes": [24, 0, 24], "prefix_hex": [pid.encode().hex()], "timeout_ms": 2500})
    rops.append({"op": "send_mp", "sock": "router", "mid": "to-nobody:1", "sizes": [24], "prefix_hex": [b"NOBODY".hex()], "timeout_ms": 2500})
    rops.append({"op": "sleep", "ms": 1000})
    tasks.append({"name": "router", "ops": rops})
    return {"name": name, "uring": uring, "deadline_ms": 60000, "sockets": socks, "tasks": tasks,
            "peers": [list(p) for p in peers], "mandatory": mandatory}


def router_poll(name, transport="tcp", npeers=24, uring=False):
    """A ROUTER read by polling (RCVTIMEO 0) while identified DEALERs connect and send at once: the very
    first message of a connection may be there before the ROUTER has learnt the peer's identity - it
    must still be reported under the announced identity, never under a placeholder."""
    ep = endpoint(transport, name)
    o_ = [i32(IO_URING_SESSION_ENABLED, 1)] if uring else []
    socks = [{"name": "router", "type": "ROUTER", "opts": o_ + [i32(RCVTIMEO, 0), i32(SNDTIMEO, 2500)]}]
    peers = []
    tasks = []
    for pi in range(npeers):
        nm = "p%d" % pi
        pid = "ID-%02d" % pi
        peers.append(("DEALER", pid))
        socks.append({"name": nm, "type": "DEALER", "opts": o_ + [[ROUTING_ID, "str", pid], i32(RCVTIMEO, 2500), i32(SNDTIMEO, 2500), i32(LINGER, 500)]})
        tasks.append({"name": nm, "ops": [{"op": "barrier", "name": "go", "parties": npeers + 1},
                                         {"op": "connect", "sock": nm, "ep": "$ep"},
                                         {"op": "send_mp", "sock": nm, "mid": "%s:1" % nm, "sizes": [24], "timeout_ms": 2500},
                                         {"op": "send_mp", "sock": nm, "mid": "%s:2" % nm, "sizes": [24, 24], "timeout_ms": 2500},
                                         {"op": "sleep", "ms": 1500}]})
    tasks.append({"name": "router", "ops": [{"op": "bind", "sock": "router", "ep": ep, "save": "ep"},
                                            {"op": "barrier", "name": "go", "parties": npeers + 1},
                                            {"op": "poll_n", "sock": "router", "n": 2 * npeers, "for_ms": 4000, "timeout_ms": 1000}]})
    return {"name": name, "uring": uring, "deadline_ms": 40000, "sockets": socks, "tasks": tasks,
            "peers": [list(p) for p in peers], "mandatory": False, "poll": True}


def router_reconnect(name, transport="tcp"):
    """A DEALER with identity A talks to the ROUTER, goes away, and a new DEALER with the same identity
    connects: messages addressed to A must reach the new connection."""
    ep = endpoint(transport, name)
    socks = [{"name": "router", "type": "ROUTER", "opts": [i32(RCVTIMEO, 2500), i32(SNDTIMEO, 2500), i32(ROUTER_MANDATORY, 1)]},
             {"name": "d1", "type": "DEALER", "opts": [[ROUTING_ID, "str", "A"], i32(RCVTIMEO, 2500), i32(LINGER, 200)]},
             {"name": "d2", "type": "DEALER", "opts": [[ROUTING_ID, "str", "A"], i32(RCVTIMEO, 2500)]}]
    return {"name": name, "deadline_ms": 40000, "sockets": socks, "tasks": [
        {"name": "router", "ops": [{"op": "bind", "sock": "router", "ep": ep, "save": "ep"}, {"op": "barrier", "name": "go", "parties": 2},
                                   {"op": "echo_n", "sock": "router", "n": 1, "timeout_ms": 3000},
                                   {"op": "barrier", "name": "gone", "parties": 2},
                                   {"op": "echo_n", "sock": "router", "n": 1, "timeout_ms": 3000},
                                   {"op": "send_mp", "sock": "router", "mid": "to-A:2", "sizes": [24], "prefix_hex": [b"A".hex()], "timeout_ms": 2500},
                                   {"op": "sleep", "ms": 600}]},
        {"name": "dealers", "ops": [{"op": "barrier", "name": "go", "parties": 2}, {"op": "connect", "sock": "d1", "ep": "$ep"}, {"op": "sleep", "ms": 200},
                                    {"op": "send_mp", "sock": "d1", "mid": "d1:1", "sizes": [24], "timeout_ms": 2500},
                                    {"op": "recv_mp", "sock": "d1", "timeout_ms": 2500},
                                    {"op": "close", "sock": "d1", "timeout_ms": 5000}, {"op": "sleep", "ms": 500},
                                    {"op": "connect", "sock": "d2", "ep": "$ep"}, {"op": "sleep", "ms": 300},
                                    {"op": "barrier", "name": "gone", "parties": 2},
                                    {"op": "send_mp", "sock": "d2", "mid": "d2:1", "sizes": [24], "timeout_ms": 2500},
                                    {"op": "recv_mp", "sock": "d2", "timeout_ms": 2500},
                                    {"op": "recv_mp", "sock": "d2", "timeout_ms": 2500}]}]}


# ---- heartbeats at socket level (C19) ----------------------------------------------------
def _hb_scenario(name, mode, ivl, tmo, v2=False, sock_type="PULL", peer_type=b"PUSH", dur=None, uring=False):
    dur = dur or (ivl * 3 + tmo + 1200)
    opts = [i32(HEARTBEAT_IVL, ivl), i32(HEARTBEAT_TIMEOUT, tmo)] + ([i32(IO_URING_SESSION_ENABLED, 1)] if uring else [])
    if v2:
        hs = bytes([0xFF, 0, 0, 0, 0, 0, 0, 0, 1, 0x7F, 0x01, 0x08, 0x00, 0x00])    # v2 greeting: signature, rev 1, socket type PUSH (8), identity frame (empty)
        hs_hex = hexs(hs)
    else:
        hs_hex = hexs(greeting() + ready(peer_type))
    rops = [{"op": "barrier", "name": "go", "parties": 2}, {"op": "raw_connect", "raw": "c", "ep": "$ep"}, {"op": "raw_write", "raw": "c", "hex": hs_hex},
            {"op": "raw_read", "raw": "c", "n": 64 + 28 if not v2 else 12, "timeout_ms": 500}, {"op": "mark", "name": "hs_done"},
            {"op": "raw_hb_peer", "raw": "c", "mode": mode, "ms": dur, "data_every_ms": max(ivl // 3, 20)}]
    return {"name": name, "uring": uring, "deadline_ms": dur + 15000,
            "meta": {"mode": mode, "ivl": ivl, "timeout": tmo, "v2": v2, "uring": uring},
            "sockets": [{"name": "rx", "type": sock_type, "opts": opts}],
            "tasks": [{"name": "s", "ops": [{"op": "bind", "sock": "rx", "ep": "tcp://127.0.0.1:0", "save": "ep"}, {"op": "barrier", "name": "go", "parties": 2},
                                           {"op": "recv_n", "sock": "rx", "n": 400, "timeout_ms": dur + 500}]},
                      {"name": "r", "ops": rops}]}


def c19_sockets(ctx):
    thorough = ctx.tier == "thorough"
    scs = []
    for (ivl, tmo) in ([(200, 300), (400, 200), (150, 600), (100, 700)] if thorough else [(200, 300), (100, 700)]):
        for mode in ["silent", "pong", "data"]:
            scs.append(_hb_scenario("hb-%s-%d-%d" % (mode, ivl, tmo), mode, ivl, tmo))
    scs.append(_hb_scenario("hb-v2-silent", "silent", 200, 300, v2=True, dur=1500))
    # the io_uring session backend drives the same engine from its worker loop
    for mode in ["silent", "pong", "data"]:
        scs.append(_hb_scenario("hb-%s-200-300-uring" % mode, mode, 200, 300, uring=True))
    # a socket type that receives no application data must still read the PONGs
    scs.append(_hb_scenario("hb-pong-200-300-uring-push", "pong", 200, 300, sock_type="PUSH", peer_type=b"PULL", uring=True))
    scs.append(_hb_scenario("hb-pong-200-300-push", "pong", 200, 300, sock_type="PUSH", peer_type=b"PULL"))
    if thorough:
        for mode in ["silent", "pong"]:
            scs.append(_hb_scenario("hb-%s-100-700-uring" % mode, mode, 100, 700, uring=True))
    if thorough:
        scs.append(_hb_scenario("hb-router-pong", "pong", 200, 300, sock_type="ROUTER", peer_type=b"DEALER"))
    metas = [s.pop("meta") for s in scs]
    res = run_scenarios(ctx, scs, "c19", timeout=900, jobs=3)
    runs, owners = [], []
    for sc, meta, r in zip(scs, metas, res):
        t0 = next((x["t"] for x in r["records"] if x.get("ev") == "mark" and x.get("name") == "hs_done"), None)
        rp = {"kind": "recorded-trace", "scenario": sc, "hung": r["hung"], "panics": r["panics"],
              "records": [x for x in r["records"] if x.get("op", "").startswith("hb_")][:80]}
        if r["panics"]:
            ctx.violation("C19:panic:socket", "%s: %s" % (sc["name"], r["panics"][0]), rp)
        if t0 is None:
            ctx.note("%s: raw peer did not get through the handshake" % sc["name"])
            continue
        ev = [{"e": "reset", "ivl": meta["ivl"], "timeout": meta["timeout"], "v2": meta["v2"], "mode": meta["mode"], "t": t0}]
        for x in r["records"]:
            op = x.get("op", "")
            if op == "hb_ping":
                ev.append({"e": "ping", "t": x["t"], "ctx": x.get("ctx", "")})
            elif op == "hb_act":
                ev.append({"e": "act", "t": x["t"]})
            elif op == "hb_end":
                ev.append({"e": "eof" if x.get("eof") else "end", "t": x["t"]})
        runs.append(ev)
        owners.append((sc, meta, rp))
    pending = list(range(len(runs)))
    guard = 0
    rejected = []
    while pending and guard < 20:
        guard += 1
        flat, starts = [], []
        for i in pending:
            starts.append((len(flat), i))
            flat += runs[i]
        path = os.path.join(ctx.work, "hb_%d.ndjson" % guard)
        vlib.write_jsonl(path, flat)
        tres = ctx.trace_check("Trace_Heartbeat", "Trace_Heartbeat.cfg", path)
        ctx.extra["heartbeat_events_validated"] = ctx.extra.get("heartbeat_events_validated", 0) + max(tres.generated - 1, 0)
        if not tres.rejected:
            break
        at = tres.rejected[0][1]
        own = max((s for s in starts if s[0] <= at), key=lambda s: s[0])
        rejected.append((own[1], at - own[0]))
        pending = [i for i in pending if i > own[1]]
    for (i, at) in rejected:
        sc, meta, rp = owners[i]
        x = runs[i][at]
        what = {"ping": "a PING arrived %s" % ("on a ZMTP/2.0 connection" if meta["v2"] else "before the connection had been idle for HEARTBEAT_IVL=%d ms" % meta["ivl"]),
                "eof": "the connection was closed although the peer %s, or not within HEARTBEAT_TIMEOUT=%d ms of the unanswered PING" % (
                    {"pong": "answered every PING", "data": "kept sending data", "silent": "was silent"}[meta["mode"]], meta["timeout"]),
                "end": "a peer that %s was still connected, or no PING came while the connection was idle" % (
                    "answers nothing" if meta["mode"] == "silent" else "is alive")}.get(x["e"], json.dumps(x))
        ctx.violation("C19:socket:%s:%s" % (x["e"], meta["mode"] + ("-v2" if meta["v2"] else "") + ("-uring" if meta.get("uring") else "")), "%s: %s (t=%s)" % (sc["name"], what, x.get("t")), dict(rp, rejected_event=x))
    ctx.traces += 0
    ctx.extra["socket_level_heartbeat_runs"] = len(runs)
    pings = sum(1 for ev in runs for e in ev if e["e"] == "ping")
    ctx.extra["pings_observed"] = pings
    if runs and pings == 0:
        raise vlib.ToolError("no PING was observed at socket level: the heartbeat scenarios do not work")
    # binding self-test: a dropped answering peer must be rejected
    for ev, (sc, meta, rp) in zip(runs, owners):
        if meta["mode"] == "pong" and not any(e["e"] == "eof" for e in ev):
            bad = [dict(e) for e in ev if e["e"] != "end"] + [{"e": "eof", "t": ev[-1]["t"]}]
            path = os.path.join(ctx.work, "hb_pert.ndjson")
            vlib.write_jsonl(path, bad)
            t2 = ctx.trace_check("Trace_Heartbeat", "Trace_Heartbeat.cfg", path)
            ctx.selftest["perturbed_heartbeat_history_rejected"] = bool(t2.rejected)
            if not t2.rejected:
                raise vlib.ToolError("binding self-test failed: a live peer being disconnected was accepted")
            break
