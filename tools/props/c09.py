"""C09 - dropping a send or recv future is safe at every await point.

Spec    : spec/Cancel.tla - recv (ReadyPipeQueue::pop: await a token, take the item, await putting the token back),
          send (await a peer, await room, push) and REQ send (state check .. push + state change without an await)
          as step lists with a Cancel action wherever the task can be parked: NoLoss, NothingLost,
          CancelledNotSent, NoStranded.  A switch (the ready list can be full when pop() re-arms) makes the
          second await of pop() park: TLC must show the message taken is then lost by a cancellation.
          spec/Rpq.tla (C08) carries the cancellation of a blocked send() on the real queue under the controlled
          scheduler.  spec/Delivery.tla: a refused or cancelled send may be delivered once, whole, or not at all.
TLC     : exhaustive (pipe capacity 1, 3 inbound messages, 4 calls).
Binding : B3 - on real sockets every call of a stream of send() / send_multipart() / recv() / recv_multipart() calls
          is dropped after its k-th Pending poll (k = 1, 2, 3; the harness counts polls, no timers), under
          back-pressure (HWM 1-2, 64 KiB socket buffers, a receiver that starts late), with several senders feeding
          one receiver, with SNDTIMEO / RCVTIMEO cancelling internally, for PUSH/PULL, DEALER/ROUTER, ROUTER/DEALER,
          PUB/SUB, REQ/REP; afterwards normal calls continue on the same sockets.  The history (offers, accepted /
          refused / cancelled sends, deliveries with integrity) is validated by TLC against Delivery.tla
          (Trace_Delivery: nothing twice, nothing partial, nothing accepted lost, order per connection) and the call
          sequences of REQ / REP / DEALER / ROUTER against Trace_Cancel.tla (never a state in which every next call
          is rejected).
"""
import json
import os
import re
import vlib
from props import socklib as S

SNDBUF, RCVBUF = 11, 12


def send_cancel(name, tx, rx, k, transport="tcp", n=40, size=100000, timeo=None):
    """a stream of sends, each dropped at its k-th Pending; the receiver starts late; then normal sends"""
    ep = S.endpoint(transport, name)
    txo = [S.i32(S.SNDHWM, 2)] + ([S.i32(SNDBUF, 65536)] if transport == "tcp" else [])
    rxo = [S.i32(S.RCVHWM, 2)] + ([S.i32(RCVBUF, 65536)] if transport == "tcp" else [])
    if tx == "DEALER":
        txo.append([S.ROUTING_ID, "str", "D"])
    if rx == "DEALER":
        rxo.append([S.ROUTING_ID, "str", "peer"])
    if rx == "SUB":
        rxo.append([S.SUBSCRIBE, "str", ""])
    if timeo is not None:
        txo.append(S.i32(S.SNDTIMEO, timeo))
    mp_rx = rx == "ROUTER"
    tops = [{"op": "barrier", "name": "go", "parties": 2}, {"op": "connect", "sock": "tx", "ep": "$ep"}, {"op": "sleep", "ms": 300}]
    for i in range(1, n + 1):
        op = {"op": "send", "sock": "tx", "mid": "a:%d" % i, "size": size}
        if tx == "ROUTER":
            op = {"op": "send_mp", "sock": "tx", "mid": "a:%d" % i, "sizes": [size], "prefix_hex": [b"peer".hex()]}
        elif i % 3 == 0 and tx in ("PUSH", "DEALER", "PUB"):
            op = {"op": "send_mp", "sock": "tx", "mid": "a:%d" % i, "sizes": [10, size, 7]}
        if timeo is None:
            op["cancel_after_polls"] = k
        tops.append(op)
    if timeo is not None:
        tops.append({"op": "sleep", "ms": 2500})          # the receiver is reading by now
    tops.append({"op": "mark", "name": "cancel_phase_done"})
    for i in range(n + 1, n + 6):
        op = {"op": "send", "sock": "tx", "mid": "a:%d" % i, "size": 500, "timeout_ms": 8000}
        if tx == "ROUTER":
            op = {"op": "send_mp", "sock": "tx", "mid": "a:%d" % i, "sizes": [500], "prefix_hex": [b"peer".hex()], "timeout_ms": 8000}
        tops.append(op)
    rops = [{"op": "bind", "sock": "rx", "ep": ep, "save": "ep"}, {"op": "barrier", "name": "go", "parties": 2}, {"op": "sleep", "ms": 1500},
            {"op": "recv_n", "sock": "rx", "n": n + 6, "timeout_ms": 2000, "multipart": True}]
    return {"name": name, "deadline_ms": 60000, "meta": {"kind": "send", "tx": tx, "rx": rx, "k": k, "fsm": "FREE", "lossy": tx == "PUB"},
            "sockets": [{"name": "tx", "type": tx, "opts": txo}, {"name": "rx", "type": rx, "opts": rxo}],
            "tasks": [{"name": "rx", "ops": rops}, {"name": "tx", "ops": tops}]}


def send_frames_cancel(name, tx, rx, k, transport="tcp", n=16, size=100000):
    """messages sent frame by frame - send(MORE), send(MORE), send(last) - against a receiver that starts
    late; the call that carries the last frame is dropped at its k-th Pending; then whole messages sent
    the same way. Nothing of a dropped message may turn up inside a later one."""
    ep = S.endpoint(transport, name)
    txo = [S.i32(S.SNDHWM, 2)] + ([S.i32(SNDBUF, 65536)] if transport == "tcp" else [])
    rxo = [S.i32(S.RCVHWM, 2)] + ([S.i32(RCVBUF, 65536)] if transport == "tcp" else [])
    tops = [{"op": "barrier", "name": "go", "parties": 2}, {"op": "connect", "sock": "tx", "ep": "$ep"}, {"op": "sleep", "ms": 300}]
    for i in range(1, n + 6):
        late = i > n
        if late and i == n + 1:
            tops.append({"op": "mark", "name": "cancel_phase_done"})
        tops.append({"op": "send", "sock": "tx", "mid": "a:%d.1" % i, "size": 10, "more": True, "timeout_ms": 8000})
        tops.append({"op": "send", "sock": "tx", "mid": "a:%d.2" % i, "size": 12, "more": True, "timeout_ms": 8000})
        last = {"op": "send", "sock": "tx", "mid": "a:%d.3" % i, "size": 500 if late else size, "timeout_ms": 8000}
        if not late and i % 4 != 0:            # every fourth message is sent to the end
            last["cancel_after_polls"] = k
        tops.append(last)
    rops = [{"op": "bind", "sock": "rx", "ep": ep, "save": "ep"}, {"op": "barrier", "name": "go", "parties": 2}, {"op": "sleep", "ms": 1500},
            {"op": "recv_n", "sock": "rx", "n": n + 6, "timeout_ms": 2000, "multipart": True}]
    return {"name": name, "deadline_ms": 90000, "meta": {"kind": "sendframes", "tx": tx, "rx": rx, "k": k, "fsm": "FREE", "n": n},
            "sockets": [{"name": "tx", "type": tx, "opts": txo}, {"name": "rx", "type": rx, "opts": rxo}],
            "tasks": [{"name": "rx", "ops": rops}, {"name": "tx", "ops": tops}]}


def judge_send_frames(ctx, sc, meta, r, rp):
    got = [x for x in S.rets(r, "recv_mp", sock="rx") if x.get("res") == "ok"]
    whole = []
    for x in got:
        ids = [i for i in x.get("ids", [])]
        base = set(i.rsplit(".", 1)[0] for i in ids)
        if len(base) != 1 or [i.rsplit(".", 1)[1] for i in ids] != ["1", "2", "3"] or not x.get("intact", True):
            ctx.violation("C09:partial-message:send:%s" % meta["tx"].lower(),
                          "%s: messages were sent frame by frame as [a:i.1, a:i.2, a:i.3] and the call carrying the last frame was dropped at its Pending no. %s for some of them; the receiver was handed %s - frames of a dropped message inside another one" % (
                              sc["name"], meta["k"], ids), rp)
            return
        whole.append(int(list(base)[0].split(":")[1]))
    if whole != sorted(set(whole)):
        ctx.violation("C09:duplicate-or-reordered:send:%s" % meta["tx"].lower(), "%s: whole messages arrived as %s" % (sc["name"], whole), rp)
    n = meta["n"]
    # messages whose last send() returned ok were accepted: they must arrive; the five after the cancel phase too
    oks = set()
    for x in r["records"]:
        if x.get("ev") == "ret" and x.get("op") == "send" and x.get("sock") == "tx" and x.get("mid", "").endswith(".3") and x.get("res") == "ok":
            oks.add(int(x["mid"].split(":")[1].split(".")[0]))
    missing = sorted(oks - set(whole))
    if missing:
        ctx.violation("C09:accepted-message-lost:send:%s" % meta["tx"].lower(), "%s: messages %s were accepted (last frame's send() returned ok) and never arrived; arrived: %s" % (sc["name"], missing, whole), rp)
    late_bad = [x for x in r["records"] if x.get("ev") == "ret" and x.get("op") == "send" and x.get("sock") == "tx" and int(x.get("mid", "a:0.0").split(":")[1].split(".")[0]) > n and x.get("res") != "ok"]
    if late_bad:
        ctx.violation("C09:socket-unusable-after-cancel:send:%s" % meta["tx"].lower(), "%s: after the dropped calls a normal send(%s) failed with %s" % (sc["name"], late_bad[0].get("mid"), late_bad[0].get("res")), rp)


def recv_cancel(name, tx, rx, k, transport="tcp", senders=3, n=40, mp=False, timeo=None, frames=1):
    """several senders stream paced messages; the receiver's calls are dropped at their k-th Pending"""
    ep = S.endpoint(transport, name)
    rxo = [S.i32(S.RCVHWM, 4)]
    if rx == "SUB":
        rxo.append([S.SUBSCRIBE, "str", ""])
    if timeo is not None:
        rxo.append(S.i32(S.RCVTIMEO, timeo))
    socks = [{"name": "rx", "type": rx, "opts": rxo}]
    tasks = []
    P = senders + 1
    for j in range(senders):
        o = [[S.ROUTING_ID, "str", "s%d" % j]] if tx == "DEALER" else []
        socks.append({"name": "tx%d" % j, "type": tx, "opts": o})
        ops = [{"op": "barrier", "name": "go", "parties": P}, {"op": "connect", "sock": "tx%d" % j, "ep": "$ep"}, {"op": "sleep", "ms": 300}]
        for i in range(1, n + 1):
            if frames > 1:
                ops.append({"op": "send_mp", "sock": "tx%d" % j, "mid": "s%d:%d" % (j, i), "sizes": [20] * frames, "timeout_ms": 8000})
            else:
                ops.append({"op": "send", "sock": "tx%d" % j, "mid": "s%d:%d" % (j, i), "size": 200, "timeout_ms": 8000})
            if i % 4 == 0:
                ops.append({"op": "sleep", "ms": 3 + j})
        tasks.append({"name": "t%d" % j, "ops": ops})
    rops = [{"op": "bind", "sock": "rx", "ep": ep, "save": "ep"}, {"op": "barrier", "name": "go", "parties": P}]
    total = senders * n * (frames if not mp and frames > 1 else 1)
    for i in range(total * 2):
        op = {"op": "recv_mp" if mp else "recv", "sock": "rx"}
        if timeo is None:
            op["cancel_after_polls"] = k
        rops.append(op)
        if i == total:
            rops.append({"op": "mark", "name": "cancel_phase_done"})
    rops.append({"op": "recv_n", "sock": "rx", "n": total + 1, "timeout_ms": 1500, "multipart": mp})
    tasks.append({"name": "rx", "ops": rops})
    return {"name": name, "deadline_ms": 90000, "meta": {"kind": "recv", "tx": tx, "rx": rx, "k": k, "fsm": "FREE", "lossy": tx == "PUB", "frames": frames, "mp": mp},
            "sockets": socks, "tasks": tasks}


def req_cancel(name, which, k):
    """REQ/REP: a dropped call, then the exchange must go on"""
    ep = S.endpoint("tcp", name)
    req, rep = [], []
    rep += [{"op": "bind", "sock": "rep", "ep": ep, "save": "ep"}, {"op": "barrier", "name": "go", "parties": 2}]
    req += [{"op": "barrier", "name": "go", "parties": 2}]
    if which == "req-send-nopeer":
        # the first send is dropped while no peer is there; the peer appears; the exchange must work
        req += [{"op": "connect", "sock": "req", "ep": "tcp://127.0.0.1:9"}, {"op": "send", "sock": "req", "mid": "q:1", "size": 30, "cancel_after_polls": k},
                {"op": "connect", "sock": "req", "ep": "$ep"}, {"op": "sleep", "ms": 300}]
        start = 2
    else:
        req += [{"op": "connect", "sock": "req", "ep": "$ep"}, {"op": "sleep", "ms": 300}]
        start = 1
    for i in range(start, start + 6):
        dropped_recv = which == "req-recv" and i % 2 == 0
        req.append({"op": "send", "sock": "req", "mid": "q:%d" % i, "size": 30, "timeout_ms": 4000})
        if dropped_recv:
            req.append({"op": "recv", "sock": "req", "cancel_after_polls": k})
        req.append({"op": "recv", "sock": "req", "timeout_ms": 4000})
        if which == "rep-recv" and i % 2 == 0:
            rep.append({"op": "recv", "sock": "rep", "cancel_after_polls": k})
        rep.append({"op": "recv", "sock": "rep", "timeout_ms": 4000})
        rep.append({"op": "sleep", "ms": 40})
        rep.append({"op": "send", "sock": "rep", "mid": "p:%d" % i, "size": 30, "timeout_ms": 4000})
    return {"name": name, "deadline_ms": 60000, "meta": {"kind": "fsm", "which": which, "k": k, "tx": "REQ", "rx": "REP"},
            "sockets": [{"name": "req", "type": "REQ", "opts": []}, {"name": "rep", "type": "REP", "opts": []}],
            "tasks": [{"name": "rep", "ops": rep}, {"name": "req", "ops": req}]}


def req_fullpipe(name, k):
    """REQ under back-pressure: requests pile up towards an idle REP (recv() times out each time) until a
    send() parks on the full pipe and is dropped there; then the REP serves and the REQ goes on."""
    ep = S.endpoint("inproc", name)
    req = [{"op": "barrier", "name": "go", "parties": 2}, {"op": "connect", "sock": "req", "ep": ep}, {"op": "sleep", "ms": 200}]
    for i in range(1, 7):
        req.append({"op": "send", "sock": "req", "mid": "q:%d" % i, "size": 30, "cancel_after_polls": k, "timeout_ms": 250})
        # probe: right after a send that was dropped without effect, a send is the valid next call
        req.append({"op": "send", "sock": "req", "mid": "q:%d" % (100 + i), "size": 30, "cancel_after_polls": k, "timeout_ms": 250})
        req.append({"op": "recv", "sock": "req"})                       # RCVTIMEO 40 ms: gives up, the REQ may send again
    req.append({"op": "barrier", "name": "serve", "parties": 2})
    for i in range(7, 13):
        req.append({"op": "send", "sock": "req", "mid": "q:%d" % i, "size": 30, "timeout_ms": 3000})
        req.append({"op": "recv", "sock": "req", "timeout_ms": 3000})
    rep = [{"op": "bind", "sock": "rep", "ep": ep}, {"op": "barrier", "name": "go", "parties": 2}, {"op": "barrier", "name": "serve", "parties": 2}]
    for i in range(14):
        rep += [{"op": "recv", "sock": "rep", "timeout_ms": 1500}, {"op": "send", "sock": "rep", "mid": "p:%d" % i, "size": 30, "timeout_ms": 1500}]
    return {"name": name, "deadline_ms": 60000, "meta": {"kind": "fsm", "which": "req-send-fullpipe", "k": k, "tx": "REQ", "rx": "REP"},
            "sockets": [{"name": "req", "type": "REQ", "opts": [S.i32(S.SNDHWM, 1), S.i32(S.RCVTIMEO, 40)]}, {"name": "rep", "type": "REP", "opts": [S.i32(S.RCVHWM, 1)]}],
            "tasks": [{"name": "rep", "ops": rep}, {"name": "req", "ops": req}]}


def router_permit(name, k):
    """ROUTER: sends to a stalled peer are dropped; sends to another peer must still get through"""
    ep = S.endpoint("tcp", name)
    rops = [{"op": "bind", "sock": "tx", "ep": ep, "save": "ep"}, {"op": "barrier", "name": "go", "parties": 3}, {"op": "sleep", "ms": 500}]
    for i in range(1, 25):
        rops.append({"op": "send_mp", "sock": "tx", "mid": "a:%d" % i, "sizes": [100000], "prefix_hex": [b"slow".hex()], "cancel_after_polls": k})
    for i in range(1, 6):
        rops.append({"op": "send_mp", "sock": "tx", "mid": "b:%d" % i, "sizes": [300], "prefix_hex": [b"fast".hex()], "timeout_ms": 3000})
    return {"name": name, "deadline_ms": 60000, "meta": {"kind": "router", "k": k, "tx": "ROUTER", "rx": "DEALER"},
            "sockets": [{"name": "tx", "type": "ROUTER", "opts": [S.i32(S.SNDHWM, 2), S.i32(SNDBUF, 65536), S.i32(S.ROUTER_MANDATORY, 1)]},
                        {"name": "slow", "type": "DEALER", "opts": [[S.ROUTING_ID, "str", "slow"], S.i32(S.RCVHWM, 2), S.i32(RCVBUF, 65536)]},
                        {"name": "fast", "type": "DEALER", "opts": [[S.ROUTING_ID, "str", "fast"]]}],
            "tasks": [{"name": "r", "ops": rops},
                      {"name": "s", "ops": [{"op": "barrier", "name": "go", "parties": 3}, {"op": "connect", "sock": "slow", "ep": "$ep"}, {"op": "sleep", "ms": 3500},
                                           {"op": "recv_n", "sock": "slow", "n": 30, "timeout_ms": 1000}]},
                      {"name": "f", "ops": [{"op": "barrier", "name": "go", "parties": 3}, {"op": "connect", "sock": "fast", "ep": "$ep"},
                                           {"op": "recv_n", "sock": "fast", "n": 6, "timeout_ms": 6000}]}]}


def build(thorough):
    scs = []
    ks = [1, 2, 3] if thorough else [1, 2]
    pairs = [("PUSH", "PULL"), ("DEALER", "ROUTER"), ("ROUTER", "DEALER"), ("PUB", "SUB")]
    for (tx, rx) in pairs:
        for k in ks:
            for tr in (["tcp", "ipc", "inproc"] if thorough else (["tcp", "inproc"] if tx == "PUSH" else ["tcp"])):
                scs.append(send_cancel("send-%s-%s-k%d" % (tx.lower(), tr, k), tx, rx, k, tr, n=40 if thorough else 24))
    for k in ks:
        for tr in (["tcp", "ipc", "inproc"] if thorough else ["tcp"]):
            scs.append(send_frames_cancel("sendframes-push-%s-k%d" % (tr, k), "PUSH", "PULL", k, tr))
    for (tx, rx) in [("PUSH", "PULL"), ("DEALER", "ROUTER")]:
        scs.append(send_cancel("send-%s-tcp-sndtimeo" % tx.lower(), tx, rx, 0, "tcp", n=24, timeo=30))
    for k in ks:
        scs.append(recv_cancel("recv-pull-tcp-k%d" % k, "PUSH", "PULL", k))
        scs.append(recv_cancel("recv-router-tcp-k%d" % k, "DEALER", "ROUTER", k, mp=True))
        scs.append(recv_cancel("recv-pull-frames-k%d" % k, "PUSH", "PULL", k, senders=2, n=15, frames=3))
        if thorough:
            scs.append(recv_cancel("recv-sub-tcp-k%d" % k, "PUB", "SUB", k))
            scs.append(recv_cancel("recv-pull-inproc-k%d" % k, "PUSH", "PULL", k, transport="inproc"))
            scs.append(recv_cancel("recv-pull-mp-frames-k%d" % k, "PUSH", "PULL", k, senders=2, n=15, frames=3, mp=True))
    scs.append(recv_cancel("recv-pull-tcp-rcvtimeo", "PUSH", "PULL", 0, timeo=2))
    for which in ["req-send-nopeer", "req-recv", "rep-recv"]:
        for k in ([1, 2] if thorough else [1]):
            scs.append(req_cancel("fsm-%s-k%d" % (which, k), which, k))
    for k in ([1, 2] if thorough else [1]):
        scs.append(req_fullpipe("fsm-req-send-fullpipe-k%d" % k, k))
    for k in ks:
        scs.append(router_permit("router-stalled-peer-k%d" % k, k))
    return scs


def fsm_events(r, sock, kind):
    ev = [{"e": "reset", "kind": kind}]
    for x in r["records"]:
        if x.get("ev") == "ret" and x.get("sock") == sock and x.get("op") in ("send", "send_mp", "recv", "recv_mp"):
            res = x.get("res", "ok")
            cls = "ok" if res == "ok" else ("cancelled" if res == "cancelled" else ("state" if res == "err:InvalidState" else "err"))
            ev.append({"e": "call", "op": "send" if x["op"].startswith("send") else "recv", "res": cls, "detail": res, "mid": x.get("mid", "")})
    return ev


def validate_fsm(ctx, runs, tag):
    out = []
    pending = list(range(len(runs)))
    guard = 0
    while pending and guard < 30:
        guard += 1
        flat, starts = [], []
        for i in pending:
            starts.append((len(flat), i))
            flat += runs[i]
        path = os.path.join(ctx.work, "cancel_%s_%d.ndjson" % (tag, guard))
        with open(path, "w") as f:
            for e in flat:
                f.write(json.dumps(e) + "\n")
        res = ctx.trace_check("Trace_Cancel", "Trace_Cancel.cfg", path)
        ctx.extra["calls_validated"] = ctx.extra.get("calls_validated", 0) + max(res.generated - 1, 0)
        if not res.rejected:
            if res.violated and res.violated != "<postcondition>":
                raise vlib.ToolError("Trace_Cancel failed: %s" % res.error)
            break
        at = res.rejected[0][1]
        owner = max((s for s in starts if s[0] <= at), key=lambda s: s[0])
        out.append((owner[1], at - owner[0]))
        pending = [i for i in pending if i > owner[1]]
    return out


def regroup_frames(r, sock):
    """recv() frame by frame: frames of one message must come together (ids '<mid>.<i>')"""
    bad = []
    cur = None
    for x in r["records"]:
        if x.get("ev") == "ret" and x.get("op") == "recv" and x.get("sock") == sock and x.get("res") == "ok":
            m = re.match(r"^(.*:\d+)\.(\d+)$", x.get("mid", ""))
            if not m:
                continue
            mid, i = m.group(1), int(m.group(2))
            if i == 1:
                if cur is not None:
                    bad.append("message %s was cut short after frame %d" % cur)
                cur = (mid, 1)
            else:
                if cur is None or cur[0] != mid or cur[1] + 1 != i:
                    bad.append("frame %s.%d arrived out of place (after %s)" % (mid, i, cur))
                cur = (mid, i)
            if not x.get("more") and cur is not None:
                cur = None
    return bad


def run(ctx):
    thorough = ctx.tier == "thorough"
    vlib.cargo_build()
    ctx.model_check("MC_Cancel", "MC_Cancel_quick.cfg", workers=8, timeout=900)
    ctx.exhaustive = True
    res = vlib.tlc("MC_Cancel", "MC_Cancel_asis.cfg", os.path.join(ctx.work, "tlc_asis"), workers=4, timeout=600, coverage=False)
    if not res.violated:
        raise vlib.ToolError("Cancel.tla no longer loses the message when the re-arm await of pop() parks")
    ctx.selftest["model_shows_loss_when_rearm_parks"] = res.violated

    scs = build(thorough)
    metas = [s.pop("meta") for s in scs]
    results = S.run_scenarios(ctx, scs, "c09", timeout=3000, jobs=4)
    deliv, deliv_fan, fsm_runs, fsm_owner = [], [], [], []
    cancelled_total = 0
    per_k = {}
    for sc, meta, r in zip(scs, metas, results):
        rp = {"kind": "recorded-trace", "scenario": sc["name"], "k": meta.get("k"), "hung": r["hung"], "panics": r["panics"],
              "records": [x for x in r["records"] if x.get("ev") == "ret" and x.get("res", "ok") != "ok"][:80]}
        if r["panics"]:
            ctx.violation("C09:panic:%s" % meta["kind"], "%s: %s" % (sc["name"], r["panics"][0]), rp)
        if r["hung"]:
            ctx.violation("C09:socket-unusable-after-cancel:%s:%s" % (meta["kind"], meta["tx"].lower()), "%s: after dropped calls a normal call never returned: %s" % (sc["name"], r["hung"]), rp)
        ncanc = len([x for x in r["records"] if x.get("ev") == "ret" and x.get("res") == "cancelled"])
        cancelled_total += ncanc
        per_k.setdefault(meta.get("k"), 0)
        per_k[meta.get("k")] += ncanc
        senders = [s["name"] for s in sc["sockets"] if s["name"].startswith("tx") or s["name"] in ("req",)]
        receivers = [s["name"] for s in sc["sockets"] if s["name"] in ("rx", "slow", "fast", "rep")]
        if meta["kind"] == "sendframes":
            judge_send_frames(ctx, sc, meta, r, rp)
            continue
        if meta["kind"] in ("send", "recv", "router"):
            if meta.get("frames", 1) > 1 and not meta.get("mp"):
                for b in regroup_frames(r, "rx"):
                    ctx.violation("C09:partial-message:recv", "%s: %s" % (sc["name"], b), rp)
            else:
                r_norm = dict(r, records=[dict(x, mid=re.sub(r"^(.*:\d+)\.1$", r"\1", x["mid"])) if x.get("op") == "recv" and "mid" in x else x for x in r["records"]])
                ev = S.history_to_delivery_trace(r_norm, senders, receivers)
                if meta.get("lossy"):
                    deliv_fan.append((sc["name"], [e for e in ev if e["e"] != "quiesce"], rp))
                else:
                    deliv.append((sc["name"], ev, rp))
            # the normal calls after the cancel phase must have worked
            t_done = next((x["t"] for x in r["records"] if x.get("ev") == "mark" and x.get("name") == "cancel_phase_done"), None)
            if meta["kind"] == "send" and t_done is not None:
                late = [x for x in r["records"] if x.get("ev") == "ret" and x.get("op") in ("send", "send_mp") and x.get("sock") == "tx" and x.get("t", 0) >= t_done and "cancel" not in x.get("res", "")]
                badl = [x for x in late[-5:] if x.get("res") != "ok"]
                if badl:
                    ctx.violation("C09:socket-unusable-after-cancel:send:%s" % meta["tx"].lower(), "%s: after %d dropped sends a normal send() failed with %s" % (sc["name"], ncanc, badl[0].get("res")), rp)
            if meta["kind"] == "router":
                fast = [x for x in S.rets(r, "recv", sock="fast") if x.get("res") == "ok"]
                if len(fast) != 5:
                    ctx.violation("C09:router-stuck-after-cancel", "%s: after dropped sends to a stalled peer only %d of 5 messages reached the other peer" % (sc["name"], len(fast)), rp)
            fsm_runs.append(fsm_events(r, "tx" if meta["kind"] != "recv" else "rx", "FREE"))
            fsm_owner.append((sc, meta, rp))
        else:
            for (sock, kind) in (("req", "REQ"), ("rep", "REP")):
                fsm_runs.append(fsm_events(r, sock, kind))
                fsm_owner.append((sc, meta, rp))
            # a dropped send that never reached the REP has not taken effect: the REQ must accept a send next
            seen_at_rep = set(x.get("mid") for x in S.rets(r, "recv", sock="rep") if x.get("res") == "ok")
            calls = [x for x in r["records"] if x.get("ev") == "ret" and x.get("sock") == "req" and x.get("op") in ("send", "recv")]
            for i, x in enumerate(calls[:-1]):
                nxt = calls[i + 1]
                if x["op"] == "send" and x.get("res") == "cancelled" and x.get("mid") not in seen_at_rep and nxt["op"] == "send" and nxt.get("res") == "err:InvalidState":
                    ctx.violation("C09:stuck-state:req", "%s: send(%s) was dropped and never reached the REP, yet the next send(%s) was rejected with InvalidState: the dropped call left the REQ expecting a reply" % (
                        sc["name"], x.get("mid"), nxt.get("mid")), rp)
                    break
            # the exchange must have gone on: the last request / reply got through
            reqs = [x for x in S.rets(r, "recv", sock="rep") if x.get("res") == "ok"]
            reps = [x for x in S.rets(r, "recv", sock="req") if x.get("res") == "ok"]
            if len(reps) < 5 or len(reqs) < 5:
                ctx.violation("C09:reqrep-stuck-after-cancel:%s" % meta["which"], "%s: after a dropped call only %d requests and %d replies got through (6 expected)" % (sc["name"], len(reqs), len(reps)), rp)
            bad = [x for x in reqs + reps if not x.get("intact")]
            if bad:
                ctx.violation("C09:corrupt:%s" % meta["which"], "%s: damaged message %s" % (sc["name"], bad[0].get("mid")), rp)
            seq = [x["mid"] for x in reps]
            if len(set(seq)) != len(seq):
                ctx.violation("C09:duplicate:%s" % meta["which"], "%s: a reply was returned twice: %s" % (sc["name"], seq), rp)
    ctx.extra["dropped_calls"] = cancelled_total
    ctx.extra["dropped_calls_per_k"] = {str(k): v for k, v in per_k.items()}
    ctx.extra["scenarios"] = len(scs)
    if cancelled_total < 50:
        raise vlib.ToolError("only %d calls were actually dropped: the scenarios do not park" % cancelled_total)
    ctx.sample({"from": "recorded history", "scenario": deliv[0][0], "events": deliv[0][1][:10]})
    for (label, bad, rp) in S.validate_delivery(ctx, deliv, "c09"):
        ctx.violation("C09:%s:%s" % (S.rejection_code(bad), label.split("-k")[0]), "%s: %s" % (label, S.describe_rejection(bad)), dict(rp, rejected_record=bad))
    for (label, bad, rp) in S.validate_delivery(ctx, deliv_fan, "c09f", fanout=True):
        ctx.violation("C09:%s:%s" % (S.rejection_code(bad), label.split("-k")[0]), "%s: %s" % (label, S.describe_rejection(bad)), dict(rp, rejected_record=bad))
    rejected = validate_fsm(ctx, fsm_runs, "main")
    for (i, at) in rejected:
        sc, meta, rp = fsm_owner[i]
        x = fsm_runs[i][at]
        ctx.violation("C09:stuck-state:%s" % meta["tx"].lower(), "%s: %s() was rejected for the socket's state (%s) although it was the valid next call after a dropped call" % (sc["name"], x["op"], x["detail"]),
                      dict(rp, calls=fsm_runs[i][max(0, at - 6):at + 1]))
    # binding self-test
    pert = 0
    flagged = 0
    for (label, ev, rp) in deliv[:6]:
        j = max((i for i, e in enumerate(ev) if e["e"] == "deliver"), default=None)
        if j is None:
            continue
        pert += 1
        if S.validate_delivery(ctx, [(label, ev[:j] + [ev[j]] + ev[j:], rp)], "pertd"):      # delivered twice
            flagged += 1
    bad_i = set(i for i, _ in rejected)
    for i, run_ in enumerate(fsm_runs):
        if i in bad_i or fsm_owner[i][1]["kind"] != "fsm" or pert >= 12:
            continue
        j = next((k for k, e in enumerate(run_) if e["e"] == "call" and e["res"] == "ok" and k > 2), None)
        if j is None:
            continue
        r2 = [dict(e) for e in run_]
        r2[j]["res"] = "state"                              # the valid next call rejected ...
        other = dict(r2[j])
        other["op"] = "recv" if r2[j]["op"] == "send" else "send"
        r2 = r2[:j + 1] + [other] + r2[j + 1:]              # ... and the other one too: the socket is stuck
        pert += 1
        if validate_fsm(ctx, [r2], "pertf"):
            flagged += 1
    ctx.selftest["perturbed_histories_rejected"] = "%d/%d" % (flagged, pert)
    if pert and flagged != pert:
        raise vlib.ToolError("binding self-test failed: %d of %d corrupted histories accepted" % (pert - flagged, pert))
    ctx.assumptions += [
        "a call is dropped after its k-th Pending poll, k = 1..3: deeper await points are reached only when a wake-up ends in another Pending",
        "a cancelled or timed-out send may be delivered once, whole (Delivery.tla); PUB/SUB histories are checked for wholeness, order and duplicates only",
    ]


def replay(path):
    print("socket-level replay: re-run `python3 tools/check.py C09 --tier quick`")
    return 0
