"""Shared machinery for /verif/tools/check.py.

Everything a per-property check needs: running TLC (model checking, simulation,
trace validation), building and running the Rust harness against /repo's working
tree, collecting evidence, matching known findings, and the exit protocol:

  exit 0  property held on everything explored (KNOWN-FINDING lines allowed)
  exit 1  `VIOLATION property=<id> replay=<path>` printed for something not listed
  exit 2  tool error / timeout / model not exercised  (never a finding)
"""
import json
import os
import re
import shutil
import subprocess
import sys
import time

VERIF = os.path.dirname(os.path.dirname(os.path.abspath(__file__)))
SPEC = os.path.join(VERIF, "spec")
HARNESS = os.path.join(VERIF, "harness")
WORK = os.path.join(VERIF, "work")
# VERIF_OUT redirects evidence and replays (used when a check is run against a seeded change, so that
# the committed evidence of the unchanged tree is not overwritten)
EVID = os.environ.get("VERIF_OUT") or os.path.join(VERIF, "evidence")
REPLAYS = os.path.join(EVID, "replays")
VH = os.path.join(HARNESS, "target", "debug", "vh")
TLA_JAR = "/opt/veriftools/tla/tla2tools.jar"
TLA_CP = TLA_JAR + ":/opt/veriftools/tla/CommunityModules-deps.jar"


class ToolError(Exception):
    pass


def log(msg):
    print(msg, flush=True)


class TlcResult:
    def __init__(self):
        self.generated = 0
        self.distinct = 0
        self.ok = False
        self.error = None          # text of the first "Error:" line, if any
        self.violated = None       # name of violated invariant / property
        self.replays = []          # parsed JSON objects printed as <<"REPLAY", "...">>
        self.coverage = {}         # action -> [distinct, total]
        self.stdout = ""
        self.wall = 0.0
        self.diameter = None
        self.rejected = []         # (trace index, matched, total) printed by a trace spec's postcondition


_REPLAY_RE = re.compile(r'^<<"REPLAY", (".*")>>\s*$')
_COV_RE = re.compile(r'^<(\w+) line \d+, col \d+ to line \d+, col \d+ of module (\w+)>: (\d+):(\d+)')


def parse_tlc(out, res):
    for line in out.splitlines():
        m = _REPLAY_RE.match(line)
        if m:
            try:
                res.replays.append(json.loads(json.loads(m.group(1))))
            except Exception:
                pass
            continue
        m = re.search(r'(\d+) states generated, (\d+) distinct states found', line)
        if m:
            res.generated = int(m.group(1))
            res.distinct = int(m.group(2))
        m = re.search(r'The number of states generated: (\d+)', line)
        if m:
            res.generated = max(res.generated, int(m.group(1)))
            res.distinct = max(res.distinct, int(m.group(1)))
        m = re.search(r'The depth of the complete state graph search is (\d+)', line)
        if m:
            res.diameter = int(m.group(1))
        m = re.match(r'^<<"REJECTED", (\d+), (\d+), (\d+)>>', line)
        if m:
            res.rejected.append((int(m.group(1)), int(m.group(2)), int(m.group(3))))
        m = _COV_RE.match(line)
        if m:
            res.coverage[m.group(1)] = [int(m.group(3)), int(m.group(4))]
        if line.startswith("Error:") and res.error is None:
            res.error = line
            m = re.search(r'Invariant (\S+) is violated', line)
            if m:
                res.violated = m.group(1)
            elif "Temporal propert" in line and "violated" in line:
                res.violated = "<temporal>"
            elif "Deadlock reached" in line:
                res.violated = "<deadlock>"
            elif "Postcondition" in line or "postcondition" in line:
                res.violated = "<postcondition>"
    res.ok = res.error is None and ("Model checking completed. No error has been found." in out
                                    or "Finished in" in out)


def tlc(module, cfg, metadir, workers=8, timeout=600, simulate=None, depth=None, seed=None,
        coverage=True, env=None, jvm=None, extra=None):
    """Run TLC on spec/<module>.tla with spec/<cfg>. Returns TlcResult (never raises on a
    property violation; raises ToolError on timeout or a broken model)."""
    os.makedirs(metadir, exist_ok=True)
    cmd = ["java", "-XX:+UseParallelGC"]
    if jvm:
        cmd += jvm
    cmd += ["-cp", TLA_CP, "tlc2.TLC", "-workers", str(workers), "-metadir", metadir, "-cleanup",
            "-noGenerateSpecTE"]
    if coverage and not simulate:
        cmd += ["-coverage", "1"]
    if simulate:
        cmd += ["-simulate", "num=%d" % simulate]
        if depth:
            cmd += ["-depth", str(depth)]
        if seed is not None:
            cmd += ["-seed", str(seed)]
    if extra:
        cmd += extra
    cfg_path = cfg if os.path.isabs(cfg) else os.path.join(SPEC, cfg)
    if os.path.isabs(cfg):
        # a generated cfg lives next to a copy of the specs (TLC resolves modules relative to the spec file)
        spec_dir = os.path.dirname(cfg)
        for fn in os.listdir(SPEC):
            if fn.endswith(".tla"):
                shutil.copy(os.path.join(SPEC, fn), os.path.join(spec_dir, fn))
        spec_path = os.path.join(spec_dir, module + ".tla")
    else:
        spec_path = os.path.join(SPEC, module + ".tla")
    cmd += ["-config", cfg_path, spec_path]
    e = dict(os.environ)
    if env:
        e.update(env)
    t0 = time.time()
    try:
        p = subprocess.run(cmd, cwd=metadir, env=e, stdout=subprocess.PIPE, stderr=subprocess.STDOUT,
                           timeout=timeout, text=True, errors="replace")
    except subprocess.TimeoutExpired:
        raise ToolError("TLC timed out after %ss on %s/%s" % (timeout, module, cfg))
    res = TlcResult()
    res.stdout = p.stdout
    res.wall = time.time() - t0
    parse_tlc(p.stdout, res)
    shutil.rmtree(os.path.join(metadir, "states"), ignore_errors=True)
    if res.error and res.violated is None:
        tail = "\n".join(p.stdout.splitlines()[-25:])
        raise ToolError("TLC failed on %s/%s: %s\n%s" % (module, cfg, res.error, tail))
    return res


def tlc_trace(module, cfg, trace_path, metadir, timeout=600, extra_env=None):
    """Trace validation run: depth-first queue, one worker, big stack."""
    env = {"TRACE": trace_path}
    if extra_env:
        env.update(extra_env)
    return tlc(module, cfg, metadir, workers=1, timeout=timeout, coverage=False, env=env,
               jvm=["-Xss1g", "-Xmx4g", "-Dtlc2.tool.queue.IStateQueue=StateDeque"])


def cargo_build(timeout=1500):
    """(Re)build the harness against /repo's current working tree (hooks on)."""
    lock_src = "/repo/Cargo.lock"
    lock_dst = os.path.join(HARNESS, "Cargo.lock")
    if not os.path.exists(lock_dst):
        shutil.copy(lock_src, lock_dst)
    t0 = time.time()
    env = dict(os.environ)
    env["CARGO_NET_OFFLINE"] = "true"
    try:
        p = subprocess.run(["cargo", "build", "--offline", "--bin", "vh"], cwd=HARNESS, env=env,
                           stdout=subprocess.PIPE, stderr=subprocess.STDOUT, timeout=timeout, text=True,
                           errors="replace")
    except subprocess.TimeoutExpired:
        raise ToolError("cargo build timed out")
    if p.returncode != 0:
        errs = [l for l in p.stdout.splitlines() if l.startswith("error")]
        raise ToolError("cargo build failed:\n" + "\n".join(errs[:20]) + "\n" + "\n".join(p.stdout.splitlines()[-15:]))
    return time.time() - t0


def vh(args, timeout=600, env=None, cwd=None):
    """Run the harness binary. Returns (returncode, stdout). rc 2 from the harness = tool error."""
    e = dict(os.environ)
    e.setdefault("RUST_BACKTRACE", "0")
    if env:
        e.update(env)
    try:
        p = subprocess.run([VH] + [str(a) for a in args], cwd=cwd or WORK, env=e, stdout=subprocess.PIPE,
                           stderr=subprocess.STDOUT, timeout=timeout, text=True, errors="replace")
    except subprocess.TimeoutExpired:
        raise ToolError("harness timed out after %ss: vh %s" % (timeout, " ".join(map(str, args))))
    if p.returncode != 0:
        raise ToolError("harness failed (rc=%d): vh %s\n%s" % (p.returncode, " ".join(map(str, args)),
                                                              "\n".join(p.stdout.splitlines()[-20:])))
    return p.stdout


def write_jsonl(path, items):
    with open(path, "w") as f:
        for it in items:
            f.write(json.dumps(it, separators=(",", ":")) + "\n")


def load_known():
    path = os.path.join(VERIF, "known_findings.jsonl")
    out = []
    if os.path.exists(path):
        for line in open(path):
            line = line.strip()
            if line and not line.startswith("#"):
                out.append(json.loads(line))
    return out


class Ctx:
    """Accumulates what one run of one check covered and found."""

    def __init__(self, pid, tier, seed):
        self.pid = pid
        self.tier = tier
        self.seed = seed
        self.t0 = time.time()
        self.work = os.path.join(WORK, pid)
        shutil.rmtree(self.work, ignore_errors=True)
        os.makedirs(self.work, exist_ok=True)
        os.makedirs(REPLAYS, exist_ok=True)
        for fn in os.listdir(REPLAYS):
            if fn.startswith(pid + "-"):
                os.remove(os.path.join(REPLAYS, fn))
        self.states = 0
        self.transitions = 0
        self.traces = 0
        self.samples = []
        self.models = []           # per TLC run: module, cfg, states, ...
        self.coverage = {}
        self.violations = []       # dicts: key, what, replay(obj)
        self.notes = []
        self.extra = {}
        self.assumptions = []
        self.exhaustive = None
        self.selftest = {}
        self.drift = 0

    # --- TLC -----------------------------------------------------------
    def model_check(self, module, cfg, **kw):
        md = os.path.join(self.work, "tlc_" + cfg.replace(".cfg", ""))
        res = tlc(module, cfg, md, **kw)
        self.states += res.distinct
        self.transitions += res.generated
        self.models.append({"module": module, "cfg": cfg, "distinct_states": res.distinct,
                            "states_generated": res.generated, "wall_s": round(res.wall, 1),
                            "mode": "simulate" if kw.get("simulate") else "exhaustive",
                            "result": "violated:" + res.violated if res.violated else "ok"})
        for a, c in res.coverage.items():
            cur = self.coverage.get(a, [0, 0])
            self.coverage[a] = [cur[0] + c[0], cur[1] + c[1]]
        log("TLC %s/%s: %d distinct / %d generated states, %d behaviours exported, %.1fs%s" % (
            module, cfg, res.distinct, res.generated, len(res.replays), res.wall,
            (" VIOLATED " + res.violated) if res.violated else ""))
        if res.violated:
            # A violated invariant of the specification itself is not a finding about the code.
            raise ToolError("specification %s/%s violates %s (the model is wrong or was edited)\n%s" % (
                module, cfg, res.violated, "\n".join(res.stdout.splitlines()[-40:])))
        return res

    def trace_check(self, module, cfg, trace_path, **kw):
        md = os.path.join(self.work, "trace_" + os.path.basename(cfg).replace(".cfg", ""))
        res = tlc_trace(module, cfg, trace_path, md, **kw)
        self.transitions += res.generated
        return res

    # --- findings --------------------------------------------------------
    def violation(self, key, what, replay):
        self.violations.append({"key": key, "what": what, "replay": replay})

    def note(self, msg):
        self.notes.append(msg)
        log("NOTE " + msg)

    def sample(self, obj):
        if len(self.samples) < 6:
            self.samples.append(obj)

    # --- end -------------------------------------------------------------
    def finish(self):
        known = [k for k in load_known() if k.get("property") == self.pid and k.get("status") == "known"]
        unknown = []
        hit = {}
        for v in self.violations:
            matched = None
            for k in known:
                if re.fullmatch(k["match"], v["key"]):
                    matched = k
                    break
            if matched:
                hit.setdefault(matched["id"], {"k": matched, "n": 0, "example": v})
                hit[matched["id"]]["n"] += 1
            else:
                unknown.append(v)
        for kid, h in sorted(hit.items()):
            log("KNOWN-FINDING: property=%s %s: %s (%d occurrence(s) this run, e.g. %s)" % (
                self.pid, kid, h["k"]["what"], h["n"], h["example"]["key"]))
        replay_paths = []
        seen_keys = set()
        for i, v in enumerate(unknown):
            if v["key"] in seen_keys:
                continue
            seen_keys.add(v["key"])
            if len(replay_paths) >= 10:
                break
            path = os.path.join(REPLAYS, "%s-%d.json" % (self.pid, len(replay_paths) + 1))
            with open(path, "w") as f:
                json.dump({"property": self.pid, "key": v["key"], "what": v["what"], "seed": self.seed,
                           "tier": self.tier, "replay": v["replay"]}, f, indent=1)
            replay_paths.append(path)
            log("VIOLATION property=%s replay=%s" % (self.pid, path))
            log("  " + v["what"])
        cov = {
            "states": max(self.states, 0),
            "transitions": max(self.transitions, 0),
            "traces_validated_against_impl": self.traces,
            "samples": self.samples if self.samples else ["(no sample recorded)"],
            "models": self.models,
            "per_action_coverage": self.coverage,
            "unexercised_actions": sorted(a for a, c in self.coverage.items() if c[1] == 0),
            "model_drift": self.drift,
            "binding_selftest": self.selftest,
            "known_findings_hit": {k: h["n"] for k, h in hit.items()},
            "notes": self.notes[:40],
        }
        if self.exhaustive is not None:
            cov["exhaustive"] = bool(self.exhaustive)
        cov.update(self.extra)
        ev = {
            "property_id": self.pid,
            "tier": self.tier,
            "seed": int(self.seed),
            "level": "model_checking",
            "coverage": cov,
            "assumptions": self.assumptions,
            "wall_s": round(time.time() - self.t0, 1),
            "violations": len(unknown),
        }
        os.makedirs(EVID, exist_ok=True)
        with open(os.path.join(EVID, self.pid + ".json"), "w") as f:
            json.dump(ev, f, indent=1)
        shutil.rmtree(self.work, ignore_errors=True)
        log("%s %s: %d states, %d traces/behaviours bound to the implementation, %d unlisted violation(s), %.0fs" % (
            self.pid, self.tier, self.states, self.traces, len(unknown), time.time() - self.t0))
        return 1 if unknown else 0


def main_wrapper(fn, pid, tier, seed):
    ctx = Ctx(pid, tier, seed)
    try:
        fn(ctx)
        rc = ctx.finish()
    except ToolError as e:
        log("TOOL-ERROR %s: %s" % (pid, e))
        rc = 2
        if ctx.violations:
            # what the real code was seen doing before the tool gave up is still reported
            # (typically a binding self-test that cannot run on code that already misbehaves)
            ctx.note("the run ended with a tool error after violations had been recorded: %s" % str(e)[:200])
            rc = ctx.finish() or 2
    except Exception as e:          # a bug in the machinery is a tool error, never a verdict
        import traceback
        traceback.print_exc()
        log("TOOL-ERROR %s: internal error in the check: %r" % (pid, e))
        rc = 2
    sys.exit(rc)
