#!/bin/bash
# Confirms, in one scratch worktree outside /repo and /verif, that every seeded change compiles and that the
# existing test-suite still passes with it. usage: tools/seed_suite.sh C01 C02 ...
wt=/tmp/seedcheck
git -C /repo worktree remove --force $wt 2>/dev/null
git -C /repo worktree add --detach $wt HEAD -q || exit 2
for id in "$@"; do
  dst=${SEED_DST:-/verif/seeded}/$id
  [ -f $dst/patch.diff ] || { echo "$id: no patch"; continue; }
  git -C $wt checkout -q -- . ; git -C $wt clean -fdq -e target
  if ! git -C $wt apply $dst/patch.diff; then echo "$id: patch does not apply"; continue; fi
  (cd $wt && timeout 3000 cargo nextest run --workspace --no-fail-fast --tool-config-file pb:/w/lib/nextest.toml --profile pb --offline --test-threads ${SUITE_THREADS:-8} > $dst/suite.log 2>&1)
  grep -E "^\s+Summary" $dst/suite.log | tail -1 > $dst/suite_summary.txt
  grep -E "^\s+(FAIL|TIMEOUT|SIGKILL|SIGABRT)" $dst/suite.log | grep -v "rzmq_interop" | sort -u >> $dst/suite_summary.txt
  echo "== $id"; cat $dst/suite_summary.txt
  rm -f $dst/suite.log
done
git -C /repo worktree remove --force $wt
