#!/usr/bin/env python3
"""Entry point of every registered check:  tools/check.py <Cnn> --tier quick|thorough

Each property's check lives in tools/props/<cnn>.py and exposes run(ctx)."""
import argparse
import importlib
import os
import sys

sys.path.insert(0, os.path.dirname(os.path.abspath(__file__)))
import vlib  # noqa: E402


def main():
    ap = argparse.ArgumentParser()
    ap.add_argument("pid")
    ap.add_argument("--tier", default=os.environ.get("VERIF_TIER", "quick"), choices=["quick", "thorough"])
    ap.add_argument("--replay", default=None, help="re-execute a replay file written by an earlier run")
    a = ap.parse_args()
    seed = int(os.environ.get("VERIF_SEED", "1") or "1")
    try:
        mod = importlib.import_module("props." + a.pid.lower())
    except ModuleNotFoundError:
        print("TOOL-ERROR no check for %s" % a.pid)
        sys.exit(2)
    if a.replay:
        sys.exit(mod.replay(a.replay))
    vlib.main_wrapper(mod.run, a.pid, a.tier, seed)


if __name__ == "__main__":
    main()
