#!/usr/bin/env python3
"""Regenerates MANIFEST.json from the table below (single place to edit)."""
import json, os, subprocess
V = os.path.dirname(os.path.dirname(os.path.abspath(__file__)))
props = [json.loads(l) for l in open(os.path.join(V, "properties.jsonl"))]

CHECKS = {
 "C03": dict(
   text="TLC checks Wire.tla exhaustively (all streams of <=2/3 frames over the header-boundary lengths x every segmentation: "
        "RoundTrip, DecodersAgree, LimitExact, AccBound); every segmentation of every single-frame stream plus simulated "
        "multi-frame behaviours are then replayed through all 9 encoder entry points x 9 decoder entry points of the real code (one of them hands the unconsumed tail back to the tokio codec as its primed prefix and continues in a fresh buffer at every read), "
        "comparing bytes with an independent reference encoder and the frames out after every read with the model.",
   note="Trusted: the reference encoder and projection in harness/src/wire.rs; payload content is pseudo-random, not enumerated; "
        "lengths limited to the boundary classes in the cfg files.",
   technique="TLA+ spec (Wire.tla) + TLC exhaustive/simulation; TLC-generated behaviours replayed on the real encoders/decoders (spec->impl conformance)",
   design_ref="DESIGN.md 4.1, 5 (C03)"),
 "C04": dict(
   text="TLC checks Peer.tla (two engines, every delivery schedule incl. mid-token cuts: InOrder, AllDelivered, HcFirst) and "
        "Script.tla (v3/v2 transcripts with data in any read) exhaustively; simulated behaviours are replayed on real ZmtpEngines "
        "(NULL, PLAIN, CURVE, Noise_XX) step by step, and the same byte stream is fed to the real engine under the TLC schedule, "
        "one read, token-per-read, byte-per-read and random cuts - the app actions must be identical. Blind transcripts (the peer "
        "sends greeting, handshake and data without waiting) exist for NULL, CURVE / Noise_XX and PLAIN with the right and the wrong password.",
   note="Engine level is exact; the socket-level path (session actor applying handshake output) is exercised by the socket part of "
        "this check when built. Trusted: harness tokenizer/projection (harness/src/eng.rs, peer.rs, script.rs).",
   technique="TLA+ spec (Engine/Peer/Script.tla) + TLC; TLC behaviours replayed on the real engine; segmentation metamorphic oracle on real bytes",
   design_ref="DESIGN.md 4.2, 5 (C04)"),
 "C05": dict(
   text="TLC checks Peer.tla exhaustively for representative pairs x {NULL, PLAIN good/bad password, ENC good/bad server key} under "
        "every schedule (NoStall, IncompatibleNeverUp, CompatibleNeverFails, Agree, liveness Converge/BothFail) and the verdict for "
        "all 11x11 socket types over ZMTP/3 and ZMTP/2.0; all verdict behaviours and simulated schedules are replayed on two real "
        "engines (real PLAIN/CURVE/Noise_XX), the outcome judged on the real HandshakeComplete / PeerError actions; every ZMTP/2.0 verdict "
        "is also replayed under every segmentation of the legacy peer's bytes (one read, per token, per byte, random cuts).",
   note="EOF propagation (a closed side takes the transport down) is modelled, not exercised at engine level. The inproc table is a "
        "listed known finding (C05-b). Trusted: harness compat table (RFC transcription) and projection.",
   technique="TLA+ spec (Engine/Peer/Script.tla) + TLC incl. liveness; TLC behaviours replayed on two real engines",
   design_ref="DESIGN.md 4.2, 5 (C05)"),
 "C06": dict(
   text="TLC checks Script.tla exhaustively: every secured role (PLAIN/ENC x listener/connector x ALLOW_ZMTP2) against the attacker "
        "grammar to depth 6/7 (NoBypass, PlainClientPath, NoDataBeforeHc, NoV2WhenRefused); simulated attacker behaviours are "
        "concretised to bytes and fed to the real engine (CURVE and Noise_XX), plus byte-level mutations; the role-confusion family "
        "(well-formed greeting naming the configured mechanism with either as-server bit, then every 3-frame sequence of HELLO / WELCOME / "
        "INITIATE without a secret, READY, data; written blindly, read token by token or at once) is exported exhaustively (9 354 behaviours) "
        "and replayed as well; no HandshakeComplete / "
        "DeliverMessage may appear for a peer that proved nothing.",
   note="The attacker cannot produce secret-dependent rounds; crypto primitives trusted; depth-bounded grammar. Trusted: harness "
        "token->bytes table (script.rs).",
   technique="TLA+ spec (Engine/Script.tla) + TLC exhaustive attacker grammar; behaviours concretised and replayed on the real engine",
   design_ref="DESIGN.md 4.2, 5 (C06)"),
 "C07": dict(
   text="TLC checks Script.tla (engine total on every token in every phase, ClosedStays, PartialBounded) for all roles and "
        "Wire.tla (LimitExact, AccBound); behaviours are replayed on the real engine under catch_unwind with MAXMSGSIZE set, each "
        "also with seeded byte mutations (bit flips, truncation, length extremes, invalid UTF-8, random bytes) and, systematically, every "
        "command of every valid transcript with its body ending after 0, 1, 2, ... bytes under a consistent frame header; MORE-runs are "
        "expanded to the real 255-frame cap; limit verdicts go through every decoder entry point.",
   note="Mutations are seeded samples. Handshake-interval and connection-slot behaviour of the session actor belong to the "
        "socket-level part. Trusted: harness concretiser and buffer bound formula.",
   technique="TLA+ spec (Engine/Script/Wire.tla) + TLC; behaviours and mutated variants replayed on the real engine/decoders",
   design_ref="DESIGN.md 4.1-4.2, 5 (C07)"),
 "C08": dict(
   text="TLC checks Rpq.tla exhaustively (one action per atomic operation of send/try_send/try_send_batch/pop/try_pop, "
        "cancellation, deregistration; 2-3 pipes, capacity 1-2, 1-2 consumers): AtMostOneToken, NoLostToken, NoUnderflow, Fifo, "
        "NoGap, NoStuck and liveness Live. The real ReadyPipeQueue runs under a controlled scheduler (verif_point hooks between the "
        "atomic steps): TLC-simulated schedules are replayed step by step with the real counters compared after every step, and "
        "seeded random schedules are recorded and validated by TLC against Rpq's actions (Trace_Rpq). Verdict on the real outcome: "
        "every accepted item dequeued exactly once in order, nobody asleep while an item is queued.",
   note="Grain of atomicity = code between two hooks; weak-memory effects below that are not explored; fibre channels trusted; "
        "ready-list capacity >= pipes as the code requires.",
   technique="TLA+ spec (Rpq.tla) + TLC incl. liveness; controlled-scheduler replay of TLC schedules on the real queue; TLC trace validation of recorded real schedules",
   design_ref="DESIGN.md 2.1 (B2), 4.4, 5 (C08)"),
 "C18": dict(
   text="TLC checks SecureChannel.tla exhaustively (records with per-direction counters, heartbeats as records, size classes "
        "around the 64 KiB record limit, one or two network mutations: flip/drop/dup/swap/cut/cross-session/reflection of the "
        "receiver's own record): NoWrongDelivery, SelfDecodable, "
        "TamperCloses. Simulated behaviours are replayed on two real engines after real CURVE and Noise_XX handshakes; the "
        "mutations are applied to the real ciphertext; plaintext markers are searched in everything sent; two sessions with the "
        "same static keys must not repeat a record.",
   note="Cryptographic strength of dryoc / snow is trusted. Mutations are those of the model (sampled positions). Engine level; "
        "the session's egress ordering for sealed records is exercised by the socket-level heartbeat scenario of C19.",
   technique="TLA+ spec (SecureChannel.tla) + TLC; TLC behaviours incl. ciphertext mutations replayed on two real engines (CURVE, Noise_XX)",
   design_ref="DESIGN.md 5 (C18)"),
 "C19": dict(
   text="TLC checks Heartbeat.tla exhaustively for (ivl,timeout) in {(1,1),(1,2),(1,3),(2,1),(2,3)} and a ZMTP/2.0 session over a bounded "
        "clock: PingWindow, PingAfterIdle, NotOverdue, ClosedOnlyWhenDead, DeadDetected (an unanswered PING is never re-armed: the deadline of the real engine is read back after every tick), NoHbOnV2, WholeChunks, DataFifo, PongEcho. "
        "Simulated timelines are replayed on a real engine (on_tick on the model clock) and the real EgressBuffer with partial "
        "writes; PING contexts of 0/1/16/17 bytes; the bytes leaving the buffer are parsed back into whole frames. At socket level a raw peer completes the handshake and then stays silent, answers every PING, or streams data without answering (and a ZMTP/2.0 peer; HEARTBEAT_IVL / TIMEOUT 200/300, 300/150 and 100/700; Tokio and io_uring session backends): PING times, contexts and the end of the connection are validated by TLC against the clauses of Heartbeat.tla (Trace_Heartbeat.tla).",
   note="The tokio interval timer is assumed to tick every HEARTBEAT_IVL; socket-level timing is checked with slack only. "
        "The io_uring worker loop wakes at least every 128 ms, which is the resolution of its heartbeat clock.",
   technique="TLA+ spec (Heartbeat.tla) + TLC; TLC timelines replayed on the real engine and egress buffer; TLC trace validation (Trace_Heartbeat.tla) of socket-level runs against a raw peer",
   design_ref="DESIGN.md 5 (C19)"),
 "C01": dict(
   text="Delivery.tla is the property-level specification (Offer/Accept/Refuse/Deliver/Quiesce: exactly once, per-connection "
        "order, intact, nothing accepted is lost); Session.tla models the session actor's batch assembly (carry-over, count / "
        "logical / physical limits, HWM budget) and is checked exhaustively by TLC (InOrder, Conserved, EgressBound, AllOut). "
        "Real sockets (PUSH/PULL, DEALER/ROUTER, REQ/REP x tcp/ipc/inproc x both runtimes x HWM/batch/throttle/cork options x "
        "sizes from the model's boundary analysis x receiver pacing x time of first send, bursts of 6000 DEALER send() calls begun before the "
        "connection exists) produce API histories which TLC "
        "validates against Delivery.tla (Trace_Delivery); a rejected history is a violation.",
   note="One sending task per connection; Tokio schedules are observed, not enumerated; payload integrity checked by "
        "position-dependent fill. Trusted: history->event conversion in tools/props/socklib.py.",
   technique="TLA+ specs (Delivery.tla, Session.tla) + TLC; TLC trace validation of API histories recorded from real sockets",
   design_ref="DESIGN.md 4.3, 5 (C01)"),
 "C12": dict(
   text="PubSub.tla gives the reference matching semantics (counted prefixes); TLC exports every history of <= 4 subscribe / "
        "unsubscribe calls (38 416) plus simulated longer ones; each is replayed on the real SubscriptionTrie with matches() "
        "compared for every message after every call (two byte mappings incl. 0x00/0xFF); a two-thread probe checks that "
        "unsubscribing an unknown topic is never observable. Real PUB/SUB sockets run subscribe/unsubscribe phases with "
        "multipart messages (tcp/ipc/inproc/io_uring) - delivered set vs Matches - and a stalled-subscriber scenario; "
        "histories are validated by TLC against Delivery.tla in fan-out mode. Beyond the property: SubSync.tla (the SUBSCRIBE / CANCEL "
        "messages a SUB sends to each publisher, the synchronisation of a connection that comes up or comes back) is checked by TLC and its "
        "behaviours are replayed on a real SUB socket whose publishers are raw ZMTP peers, both backends (a disagreement is a NOTE).",
   note="Socket-level filtering is checked 60 ms after the subscription calls returned; the race probe is statistical. "
        "Known finding C12-b (PUB blocks on a stalled subscriber).",
   technique="TLA+ spec (PubSub.tla, Delivery.tla) + TLC exhaustive history export replayed on the real trie; TLC trace validation of socket histories",
   design_ref="DESIGN.md 4.6, 5 (C12)"),
 "C13": dict(
   text="TLC checks Balancer.tla exhaustively (3 peers, 7-9 operations: add/remove with cursor repair, per-peer fullness toggled "
        "by the environment, sync and async sweeps, wait_for_connection as register/check/await against Notify): RouteOk, "
        "CursorInRange, WaiterWakes, WaitingIsRegistered. Simulated histories are replayed on the real orchestrator with "
        "scripted connections (chosen peer per send compared - passing over the peer whose turn it is while it is attached and has room is a "
        "violation; exactly-one / never-full / never-removed / not-refused-with-room / rotation-fairness judged on the real outcome); wait_for_connection runs under the controlled scheduler with the peer "
        "added at every point; real PUSH with 3 PULLs (stalled, late, leaving, send-before-first-peer, several tasks waiting in send() "
        "for the first peer, an endpoint that accepts and never answers) is validated by TLC "
        "against Delivery.tla.",
   note="Scripted connections abstract pipe fullness at component level; socket-level fairness uses a 10% tolerance. Known finding "
        "C13-d (connections enter the rotation before their handshake completed).",
   technique="TLA+ spec (Balancer.tla, Delivery.tla) + TLC; histories replayed on the real load balancer; controlled-scheduler schedules; TLC trace validation of socket histories",
   design_ref="DESIGN.md 4.5, 5 (C13)"),
 "C10": dict(
   text="TLC checks ReqRep.tla (every API call a process: serialiser / state check / await / state update; 3 concurrent callers "
        "x 3-4 calls, every interleaving and call sequence): ReqAlternates, RepAlternates, RepliesMatch. Real REQ/REP sockets: "
        "calling tasks run under the controlled scheduler and two racing calls are held exactly after the state check in every "
        "order, for recv(), recv_multipart() and mixed calls (exactly one may succeed, the loser gets InvalidState, the reply reaches "
        "the right requester); a send() out of turn before / between the frame-wise reads of a multi-frame reply (refused, and the reply stays whole); a reply that arrives after RCVTIMEO; every sequence "
        "of <= 4/5 calls on a real REQ and a real REP (tcp, inproc) is recorded and validated by TLC against the state machines "
        "(Trace_ReqRep).",
   note="Interleavings are explored at the hook after the state check and at awaits, not inside lock-protected sections. "
        "Sequential histories use cooperative peers; timeouts count as failed calls that change nothing. Known finding C10-b (a REQ whose "
        "recv() timed out accepts a new send()).",
   technique="TLA+ spec (ReqRep.tla) + TLC; controlled-scheduler interleaving of racing calls on real sockets; TLC trace validation of call histories",
   design_ref="DESIGN.md 4.6, 5 (C10)"),
 "C11": dict(
   text="TLC checks Router.tla (forward / reverse identity maps under attach with placeholder, identity announcement, detach, "
        "colliding identities; 3 connections x 2 identities x 7 operations): SendGoesToAnnouncer, PrefixIsTruth, Routable; all 8 367 "
        "histories of 6 operations are replayed on the real RouterMap with both maps compared after every operation and the "
        "invariants evaluated on the real maps; delimiter helpers are checked for every payload shape. Real ROUTER sockets with "
        "DEALER/REQ peers (distinct, absent, 255-byte identities; payloads with empty frames in every position; mandatory on/off; "
        "reconnect with the same identity; a ROUTER read by polling with RCVTIMEO 0 while 32 identified peers connect and send at once; tcp/ipc/inproc/io_uring): identity frame == sender's ROUTING_ID, echoes and addressed "
        "messages reach only the addressed peer unchanged (replies of every shape: empty first, middle, only frame; AUTO_DELIMITER 0 and 1), unroutable -> "
        "HostUnreachable / silent drop.",
   note="Socket-level order of connect / first message / identity announcement is whatever the runtime produces (observed, not "
        "enumerated).",
   technique="TLA+ spec (Router.tla) + TLC exhaustive history export replayed on the real RouterMap; recorded socket histories checked against the property",
   design_ref="DESIGN.md 4.6, 5 (C11)"),
 "C02": dict(
   text="TLC checks Ingress.tla (whole messages from several connections read frame by frame or whole, in any mix, while "
        "connections detach; the cache of a half-read message): Whole, InOrderOnce; simulated histories are replayed on the real "
        "AnonymousIngressEngine (the served connection is the real queue's choice, everything else compared; the frames handed out "
        "must always form whole messages). Real sockets: payload shapes (1..250 frames, empty frames anywhere, sizes across "
        "255/256, frames without MORE flags) x recv / recv_multipart / mixed x PUSH-PULL, DEALER<->ROUTER, PUB-SUB, concurrent "
        "peers, a peer detaching while the application is half-way through another peer's message (ROUTER, DEALER, SUB, DEALER-DEALER), "
        "frame-wise send(MORE) on every sending socket type, frame-wise recv() on REQ / REP, 251+/256 frames refused at the sender; the "
        "receiver's frame stream is regrouped by MORE flags and compared with what was sent.",
   note="Engine-side assembly of MORE frames and the frame cap are checked in C07 (Script.tla MoreRuns). All-empty messages are "
        "checked by sizes only; for PUB only wholeness is demanded (drops allowed).",
   technique="TLA+ spec (Ingress.tla, Engine.tla) + TLC; histories replayed on the real ingress engine; recorded socket frame streams checked against the property",
   design_ref="DESIGN.md 5 (C02)"),
 "C14": dict(
   text="TLC checks Hwm.tla (bounded path, send() with SNDTIMEO in {-1,0,T} against a consumer that drains when it pleases, "
        "integer clock): Timeo0, TimeoPos, TimeoInf, Bound, RefusedNotDelivered, DeliveredPrefix; Session.tla's EgressBound; and Egress.tla (the "
        "session's write queue, whose pending-message count is what is compared with SNDHWM): every history of <= 5 / 6 push / priority / "
        "advance operations with writes ending anywhere is replayed on the real EgressBuffer, count and head chunk compared after every step. "
        "Real sockets with a reader that stalls and later starts (PUSH/PULL, DEALER/ROUTER, PUB/SUB; tcp/ipc/inproc; HWM 1..256; the "
        "sender connecting or binding; RCVTIMEO different from SNDTIMEO; timed recv() on ROUTER / PULL / DEALER / SUB while 30 peers connect and leave at "
        "intervals shorter than the time-out): "
        "every send()/recv() is recorded with its timeout option, result and duration and validated by TLC against the timeout "
        "clauses (Trace_Timeo); messages accepted while the reader stalls are counted against 2*SNDHWM + 2*RCVHWM + 16 + kernel "
        "allowance; the histories with refusals are validated against Delivery.tla.",
   note="Lower timing bounds exact to 2 ms, upper bounds + 2 s; kernel buffers limited with SO_SNDBUF/SO_RCVBUF and granted an "
        "allowance of 4x their sum.",
   technique="TLA+ spec (Hwm.tla, Session.tla, Egress.tla, Delivery.tla) + TLC; TLC behaviours replayed on the real write queue; TLC trace validation of recorded API calls (timeouts) and delivery histories",
   design_ref="DESIGN.md 5 (C14)"),
 "C15": dict(
   text="TLC checks Linger.tla exhaustively (socket core Lingering phase with deadline and pipe drop; session closing event, Stop, "
        "flush-then-stop, own deadline, stream shutdown; a reading peer whose reads can meet end-of-stream; integer clock; LINGER in "
        "{-1, 0, bounded}): DeliveredPrefix, DropOnlyWhenAllowed, AllDelivered, Linger0Prompt, BoundedClose, SessionDeadline - and must "
        "find a counterexample under each of three switches that describe the pinned revision. Real sockets are closed (close / term / "
        "handle drop) with 0 .. 3000 messages of 64 B .. 200 kB queued (beyond SNDHWM and kernel buffers), LINGER in {-1, 0, 300 ms .. 10 s}, "
        "reading, paced and stalled peers, uniform and mixed message sizes, tcp / ipc / inproc, PUSH-PULL, DEALER-ROUTER, ROUTER-DEALER, PUB-SUB; the recorded history "
        "(accepted sends, the close call, hook events of the socket core and of the session with what each dropped and when, what the "
        "peer received and whether intact) sets the variables of Linger.tla in Trace_Linger.tla and TLC evaluates Linger's own invariants "
        "on every state of every run.",
   note="Clock tolerance 25 ms (not before the period ends), 2 s allowance (not later), 1 s for 'promptly'. The peer reads until nothing "
        "arrives for 1.5 s. io_uring sessions are covered by C20, not here.",
   technique="TLA+ spec (Linger.tla) + TLC exhaustive incl. as-is variants; TLC trace validation (Trace_Linger.tla) of recorded closes of real sockets with hook events",
   design_ref="DESIGN.md 5 (C15)"),
 "C16": dict(
   text="TLC checks Lifecycle.tla exhaustively incl. liveness under fairness of the actors only (one context; socket core, listener, "
        "connecter, session in handshake / waiting for pipes / operational; event bus and mailboxes as separate delivery steps, late "
        "subscribers; blocked application calls; WaitGroup::wait as arm / check / sleep): WgExact, AfterCloseErr, NoBlockedOnStopped, "
        "NamesFree, TermMeansAllGone, Terminates, CloseCleans - and must find the violation under each of three switches describing the "
        "pinned revision. WaitGroup::wait is run against the last done() at every scheduling point of the real code (controlled "
        "scheduler). Real sockets: close()/term() injected into blocked recv / send (no peer, full pipe), connect retries, handshakes "
        "that never complete (outbound, inbound; LINGER 0 and finite), connections accepted at the moment of the close, streaming traffic with option / "
        "monitor calls from other tasks, inproc connect() calls racing the binder's close / term (Inproc.tla: registry, request in a "
        "broadcast slot, one-shot reply; ConnectReturns, NoHalfOpenForever, NamesFree), API calls that go through the mailbox issued within a millisecond of "
        "close / term of the same socket (Mailbox.tla: AllReturn under every interleaving of enqueue / look / wait with mark / drain / drop), "
        "and before every operation of a scripted two-socket history; afterwards every operation on "
        "every closed socket, the live-actor count, a re-bind of every name. The history is validated by TLC against "
        "Trace_Lifecycle.tla (the application-visible part of Lifecycle.tla with time bounds).",
   note="Bounded = LINGER + 3 s for close()/term() and calls in flight, 1 s for operations on a closed socket; names are re-bound "
        "300-400 ms after the call returned. term()'s Ok is not trusted: its duration and the live-actor count are. Two sockets: safety "
        "only (thorough tier); liveness with one socket.",
   technique="TLA+ specs (Lifecycle.tla, Inproc.tla, Mailbox.tla) + TLC exhaustive incl. liveness and as-is variants; controlled-scheduler exploration of WaitGroup::wait; TLC trace validation (Trace_Lifecycle.tla) of recorded API histories with injected close/term",
   design_ref="DESIGN.md 5 (C16)"),
 "C17": dict(
   text="TLC checks Isolation.tla exhaustively incl. liveness (sockets owning inbound / outbound connections, faults of every kind on "
        "any connection at any moment, clean-up and retry: OnlyUserStops, FaultLocal, ComesBack; must find the violation under the "
        "switch describing the pinned revision) and Backoff.tla (both delay computations of rzmq transcribed; Starts, NeverBelow, "
        "Geometric, Capped, Inherit for all option pairs and histories of 7 failures / successes). Every Backoff history is replayed "
        "on the real ReconnectState. Real sockets: a hub (PULL / ROUTER on tcp, ipc, inproc; PUSH connecting out) with a healthy peer "
        "streaming numbered messages while faults hit another connection (garbage in each phase, oversize frame, RST, half-close, "
        "wrong socket type raw and by real sockets, wrong PLAIN credentials, bursts of aborted connects), then a late peer; outbound "
        "connections against a listener that drops every connection, a dead port (also while other sockets of the context come and "
        "go), a listener that goes away and comes back (tcp, ipc), a wrong peer on the port (garbage / FIN at once) replaced by a real one, a connection that flaps and then meets a dead port (inherited attempt count), "
        "a storm of >256 bus events between two polls of a busy socket. The history sets Isolation's variables in Trace_Isolation.tla; TLC evaluates "
        "OnlyUserStops on every state, FaultLocal / ComesBack per run and Backoff's clauses on every measured gap. Beyond the statement: "
        "Monitor.tla (the monitor channel as emitting system + observer contract) is checked by TLC and the event streams of real monitors are "
        "judged by its observer (Trace_Monitor.tla); a rejected stream is a NOTE.",
   note="Measured gaps: -15 ms / +450 ms (100 ms maintenance tick, connect and handshake time). RECONNECT_IVL_MAX < RECONNECT_IVL is "
        "treated as not set. The connecter's loop is compared with its transcription through its ConnectRetried intervals (drift only).",
   technique="TLA+ spec (Isolation.tla, Backoff.tla, Monitor.tla) + TLC exhaustive incl. liveness; TLC behaviours replayed on the real ReconnectState; TLC trace validation (Trace_Isolation.tla) of recorded fault-injection and reconnect runs",
   design_ref="DESIGN.md 5 (C17)"),
 "C20": dict(
   text="Differential conformance against one contract: every workload (PUSH/PULL, DEALER/ROUTER, REQ/REP, PUB/SUB; 1 B .. 300 kB below / at / "
        "above the buffer size; paced and stalled receivers; early data; PLAIN good / bad password; incompatible socket types; connect / "
        "disconnect churn; the bound side going away and coming back, for a connected PUSH and a connected PULL) runs on the Tokio backend and on io_uring x {zero-copy, multishot, cork} x pool sizes (2..16 buffers of 4..64 "
        "KiB, one harness process per pool configuration); the timing-free application-visible projection (messages per receiver and "
        "sender in order with integrity, kinds of results of every call, handshake outcome) must be identical and every run of either "
        "backend is validated by TLC against Delivery.tla. TLC checks Uring.tla exhaustively (send-buffer pool, provided-buffer ring, "
        "handler table keyed by fd: PoolConservation, NoOrphanBuffers, RingFull, QuiescentClean); hook events recorded inside the backend "
        "(zc.acquire / zc.release, ring.take / ring.provide, fd.add / fd.close_queued / fd.closed / fd.remove) are followed as actions of "
        "Uring.tla in Trace_Uring.tla - every step must be enabled, and once all sockets are closed everything must be back.",
   note="The registered send-buffer pool is not reached by the data path of this revision (no zc.acquire is ever observed), so its clauses "
        "are checked on the model only. fd events of connections opened before a run are ignored. PUB/SUB runs are compared for integrity "
        "only. Known finding C20-d (LINGER on io_uring).",
   technique="TLA+ spec (Uring.tla, Delivery.tla, Session.tla) + TLC; differential recorded histories (tokio vs io_uring configurations) validated by TLC against Delivery.tla; TLC trace validation (Trace_Uring.tla) of hook events from inside the io_uring backend",
   design_ref="DESIGN.md 5 (C20)"),
 "C09": dict(
   text="TLC checks Cancel.tla exhaustively: recv (ReadyPipeQueue::pop - await a token, take the item, await putting the token back), send "
        "(await a peer, await room, push) and REQ send as step lists with a Cancel action wherever the task can be parked: NoLoss, "
        "NothingLost, CancelledNotSent, NoStranded - and must show the loss when the re-arm await of pop() can park. On real sockets every "
        "call of a stream of send / send_multipart / recv / recv_multipart calls is dropped after its k-th Pending poll (k = 1..3, counted by "
        "the harness), under back-pressure, with several senders feeding one receiver, with SNDTIMEO / RCVTIMEO cancelling internally, for "
        "PUSH/PULL, DEALER/ROUTER, ROUTER/DEALER, PUB/SUB, REQ/REP (no peer, full pipe, waiting for the reply) over tcp / ipc / inproc; "
        "messages sent frame by frame with the call carrying the last frame dropped; afterwards normal calls continue on the same "
        "sockets. The history is validated by TLC against Delivery.tla (nothing twice, nothing partial, nothing accepted lost, order per "
        "connection; a cancelled send delivered once whole or not at all) and the call sequences against Trace_Cancel.tla (never a state in "
        "which every next call is rejected). The cancellation of a blocked send() inside ReadyPipeQueue is explored under the controlled "
        "scheduler by C08 (Rpq.tla CancelSend).",
   note="Await points beyond the third Pending of one call are not reached. A harness process that a scenario live-locks is killed and "
        "reported as a call that never returned.",
   technique="TLA+ spec (Cancel.tla, Delivery.tla, Rpq.tla) + TLC exhaustive incl. an as-is variant; TLC trace validation (Trace_Delivery, Trace_Cancel) of recorded histories with poll-indexed cancellation on real sockets",
   design_ref="DESIGN.md 5 (C09)"),
}

NA_DEFAULT = "check not built yet (construction in progress; see DESIGN.md section 10)"

def main():
    hooks = subprocess.run(["git", "-C", "/repo", "log", "--format=%h %s"], capture_output=True, text=True).stdout.splitlines()
    hook_commits = [l.split()[0] for l in hooks if l.split(" ", 1)[1].startswith("verif hooks")]
    m = {
      "version": 1,
      "setup_cmd": "cd /verif/harness && cp -n /repo/Cargo.lock Cargo.lock; CARGO_NET_OFFLINE=true cargo build --offline --bin vh",
      "hooks": {
        "guard": "--cfg rzmq_verif",
        "enable": "rustflags [\"--cfg\",\"rzmq_verif\"] in /verif/harness/.cargo/config.toml (the harness has a path dependency on /repo/core)",
        "baseline_off_cmd": "cd /repo && cargo test --workspace --no-fail-fast --offline",
        "source_commits": hook_commits[::-1],
        "add_only": True,
      },
      "engines": [
        {"name": "tlc", "path": "/verif/spec", "serves_properties": sorted(CHECKS), "kind_free_text": "TLA+ specifications checked with TLC 1.8 (exhaustive, simulation, trace validation)"},
        {"name": "vh", "path": "/verif/harness", "serves_properties": sorted(CHECKS), "kind_free_text": "Rust conformance harness: replays TLC behaviours on the real code, records traces from the real code"},
      ],
      "checks": [],
      "not_applicable": [],
      "notes": "Every check: python3 tools/check.py <id> --tier quick|thorough. Exit 0 held / 1 VIOLATION / 2 tool error. Known findings: known_findings.jsonl.",
    }
    for p in props:
        pid = p["id"]
        if pid in CHECKS:
            c = CHECKS[pid]
            m["checks"].append({
              "property_id": pid,
              "quick_cmd": "python3 tools/check.py %s --tier quick" % pid,
              "thorough_cmd": "python3 tools/check.py %s --tier thorough" % pid,
              "evidence_file": "/verif/evidence/%s.json" % pid,
              "replay_cmd_template": "python3 tools/check.py %s --replay {path}" % pid,
              "engine": "tlc+vh",
              "level_claimed": {"category": "model_checking", "text": c["text"], "design_ref": c["design_ref"]},
              "level_note": c["note"],
              "technique": c["technique"],
            })
        else:
            m["not_applicable"].append({"property_id": pid, "reason": NA_DEFAULT})
    json.dump(m, open(os.path.join(V, "MANIFEST.json"), "w"), indent=1)
    print("checks:", [c["property_id"] for c in m["checks"]])

main()
