#!/usr/bin/env python3
"""Regenerates MANIFEST.json from the table below (single place to edit)."""
import json, os, subprocess
V = os.path.dirname(os.path.dirname(os.path.abspath(__file__)))
props = [json.loads(l) for l in open(os.path.join(V, "properties.jsonl"))]

CHECKS = {
 "C03": dict(
   text="TLC checks Wire.tla exhaustively (all streams of <=2/3 frames over the header-boundary lengths x every segmentation: "
        "RoundTrip, DecodersAgree, LimitExact, AccBound); every segmentation of every single-frame stream plus simulated "
        "multi-frame behaviours are then replayed through all 9 encoder entry points x 8 decoder entry points of the real code, "
        "comparing bytes with an independent reference encoder and the frames out after every read with the model.",
   note="Trusted: the reference encoder and projection in harness/src/wire.rs; payload content is pseudo-random, not enumerated; "
        "lengths limited to the boundary classes in the cfg files.",
   technique="TLA+ spec (Wire.tla) + TLC exhaustive/simulation; TLC-generated behaviours replayed on the real encoders/decoders (spec->impl conformance)",
   design_ref="DESIGN.md 4.1, 5 (C03)"),
}

NA_DEFAULT = "check not built yet (construction in progress; see DESIGN.md section 10)"

def main():
    hooks = subprocess.run(["git", "-C", "/repo", "log", "--format=%h %s"], capture_output=True, text=True).stdout.splitlines()
    hook_commits = [l.split()[0] for l in hooks if l.split(" ", 1)[1].startswith("verif hooks")]
    m = {
      "version": 1,
      "setup_cmd": "cd /verif/harness && cp -n /repo/Cargo.lock Cargo.lock; CARGO_NET_OFFLINE=true cargo build --offline --bin vh",
      "hooks": {
        "guard": "--cfg rzmq_verif",
        "enable": "rustflags [\"--cfg\",\"rzmq_verif\"] in /verif/harness/.cargo/config.toml (the harness has a path dependency on /repo/core)",
        "baseline_off_cmd": "cd /repo && cargo test --workspace --no-fail-fast --offline",
        "source_commits": hook_commits[::-1],
        "add_only": True,
      },
      "engines": [
        {"name": "tlc", "path": "/verif/spec", "serves_properties": sorted(CHECKS), "kind_free_text": "TLA+ specifications checked with TLC 1.8 (exhaustive, simulation, trace validation)"},
        {"name": "vh", "path": "/verif/harness", "serves_properties": sorted(CHECKS), "kind_free_text": "Rust conformance harness: replays TLC behaviours on the real code, records traces from the real code"},
      ],
      "checks": [],
      "not_applicable": [],
      "notes": "Every check: python3 tools/check.py <id> --tier quick|thorough. Exit 0 held / 1 VIOLATION / 2 tool error. Known findings: known_findings.jsonl.",
    }
    for p in props:
        pid = p["id"]
        if pid in CHECKS:
            c = CHECKS[pid]
            m["checks"].append({
              "property_id": pid,
              "quick_cmd": "python3 tools/check.py %s --tier quick" % pid,
              "thorough_cmd": "python3 tools/check.py %s --tier thorough" % pid,
              "evidence_file": "/verif/evidence/%s.json" % pid,
              "replay_cmd_template": "python3 tools/check.py %s --replay {path}" % pid,
              "engine": "tlc+vh",
              "level_claimed": {"category": "model_checking", "text": c["text"], "design_ref": c["design_ref"]},
              "level_note": c["note"],
              "technique": c["technique"],
            })
        else:
            m["not_applicable"].append({"property_id": pid, "reason": NA_DEFAULT})
    json.dump(m, open(os.path.join(V, "MANIFEST.json"), "w"), indent=1)
    print("checks:", [c["property_id"] for c in m["checks"]])

main()
