//! B1 replay for Heartbeat.tla: a real engine in the data phase driven by the model clock,
//! and the real EgressBuffer receiving its PING / PONG frames next to queued data.
use crate::eng::*;
use crate::peer::Issue;
use bytes::Bytes;
use rzmq::protocol::zmtp::engine::ZmtpPhase;
use rzmq::socket::options as o;
use rzmq::verif::facade::EgressBufferX;
use serde::{Deserialize, Serialize};
use serde_json::Value;
use std::time::{Duration, Instant};

#[derive(Deserialize, Clone, Debug)]
pub struct Behaviour {
  pub ivl: u64,
  pub timeout: u64,
  pub v2: bool,
  pub steps: Vec<Value>,
}

#[derive(Serialize)]
pub struct Outcome {
  pub index: usize,
  pub issues: Vec<Issue>,
  pub wire_frames: Vec<String>,
}

const UNIT_MS: u64 = 1000;

fn ctx_bytes(id: &str, salt: usize) -> Vec<u8> {
  // the model's two context classes cover the code's cases: short (0/1 byte) and long (16/17 bytes)
  match id {
    "c0" => {
      if salt % 2 == 0 {
        vec![]
      } else {
        vec![0x41]
      }
    }
    _ => {
      let n = if salt % 2 == 0 { 16 } else { 17 };
      (0..n).map(|i| (0x30 + (i + salt) % 40) as u8).collect()
    }
  }
}

fn frame(flags: u8, body: &[u8]) -> Vec<u8> {
  let mut v = vec![flags, body.len() as u8];
  v.extend_from_slice(body);
  v
}

/// Parse a byte stream into whole frames; None if it does not parse (a frame landed inside another).
fn parse_frames(mut d: &[u8]) -> Option<Vec<(u8, Vec<u8>)>> {
  let mut out = Vec::new();
  while !d.is_empty() {
    if d.len() < 2 {
      return None;
    }
    let fl = d[0];
    if fl & 0xF8 != 0 {
      return None;
    }
    let (h, len) = if fl & 2 != 0 {
      if d.len() < 9 {
        return None;
      }
      let mut b = [0u8; 8];
      b.copy_from_slice(&d[1..9]);
      (9usize, u64::from_be_bytes(b) as usize)
    } else {
      (2usize, d[1] as usize)
    };
    if d.len() < h + len {
      return None;
    }
    out.push((fl, d[h..h + len].to_vec()));
    d = &d[h + len..];
  }
  Some(out)
}

pub fn run(index: usize, b: &Behaviour, perturb: bool) -> Outcome {
  let mut issues: Vec<Issue> = Vec::new();
  let base = Instant::now() + Duration::from_secs(3600);
  let at = |k: u64| base + Duration::from_millis(k * UNIT_MS);
  let cfg = Cfg { srv: true, st: "PULL".into(), id: String::new(), mech: "NULL".into(), good: true, allow_v2: true };
  let extra = vec![
    (o::HEARTBEAT_IVL, ((b.ivl * UNIT_MS) as i32).to_ne_bytes().to_vec()),
    (o::HEARTBEAT_TIMEOUT, ((b.timeout * UNIT_MS) as i32).to_ne_bytes().to_vec()),
  ];
  let mut ep = Endpoint::new(build_engine(&cfg, EncImpl::Noise, None, &extra), false);
  let _ = ep.start();
  // bring the engine into the data phase with a hand-written peer transcript
  let mut hs: Vec<u8> = vec![0xFF, 0, 0, 0, 0, 0, 0, 0, 0, 0x7F];
  if b.v2 {
    hs.push(1);
    hs.push(8); // PUSH
    hs.extend(frame(0, b""));
  } else {
    hs.push(3);
    hs.push(0);
    let mut m = b"NULL".to_vec();
    m.resize(20, 0);
    hs.extend(m);
    hs.push(0);
    hs.extend(std::iter::repeat(0u8).take(31));
    let mut r = b"\x05READY\x0bSocket-Type\x00\x00\x00\x04PUSH".to_vec();
    let rl = r.len() as u8;
    let mut fr = vec![4u8, rl];
    fr.append(&mut r);
    hs.extend(fr);
  }
  let _ = ep.on_bytes(hs);
  if ep.eng.phase != ZmtpPhase::Data {
    issues.push(Issue { class: "tool".into(), code: "setup".into(), step: 0, detail: format!("engine did not reach the data phase ({})", phase_name(ep.eng.phase)) });
    return Outcome { index, issues, wire_frames: vec![] };
  }
  ep.eng.verif_set_last_activity(at(0));
  let mut eg = EgressBufferX::new();
  let mut clock = 0u64;
  let mut wire: Vec<u8> = Vec::new();
  let mut last_inbound_at: u64 = 0;
  let mut ping_at: Option<u64> = None;
  // the first PING that nothing has answered yet (reset by any inbound frame)
  let mut first_unanswered: Option<u64> = None;
  let mut owed: Vec<Vec<u8>> = Vec::new();
  let mut queued: Vec<Vec<u8>> = Vec::new();
  let mut salt = index;
  let mut closed_model = false;
  for (si, st) in b.steps.iter().enumerate() {
    let a = st["a"].as_str().unwrap_or("?");
    match a {
      "advance" => clock += 1,
      "tick" => {
        let before_wait = ep.eng.is_waiting_for_pong();
        let out = ep.on_tick(at(clock));
        let ping = out.toks.iter().any(|t| t.label.starts_with("fr:ping"));
        let closed = ep.eng.phase == ZmtpPhase::Closed;
        for t in &out.toks {
          eg.push_priority(Bytes::from(t.bytes.clone()));
        }
        let mut want_ping = st["ping"].as_bool().unwrap_or(false);
        if perturb && si + 1 == b.steps.len() {
          want_ping = !want_ping;
        }
        if ping != want_ping || closed != st["closed"].as_bool().unwrap_or(false) {
          issues.push(Issue { class: if perturb { "selftest".into() } else { "drift".into() }, code: "tick".into(), step: si + 1, detail: format!("t={}: real ping={} closed={}, model ping={} closed={}", clock, ping, closed, want_ping, st["closed"]) });
        }
        // property level, on the real engine alone
        if ping {
          if b.v2 {
            issues.push(Issue { class: "prop".into(), code: "ping-on-v2".into(), step: si + 1, detail: "PING sent on a ZMTP/2.0 session".into() });
          }
          let idle = clock - last_inbound_at;
          if idle < b.ivl {
            issues.push(Issue { class: "prop".into(), code: "ping-too-early".into(), step: si + 1, detail: format!("PING at t={} only {} unit(s) after the last inbound frame (HEARTBEAT_IVL = {})", clock, idle, b.ivl) });
          }
          ping_at = Some(clock);
          if first_unanswered.is_none() {
            first_unanswered = Some(clock);
          }
        } else if !b.v2 && !before_wait && !closed && clock - last_inbound_at >= b.ivl {
          issues.push(Issue { class: "prop".into(), code: "ping-missing".into(), step: si + 1, detail: format!("tick at t={}: idle for {} >= HEARTBEAT_IVL {} and no PING outstanding, yet no PING was sent", clock, clock - last_inbound_at, b.ivl) });
        }
        // DeadDetected on the real engine: the deadline belongs to the first unanswered PING and
        // is not pushed back by anything the engine itself sends
        if let (Some(p0), true, Some(dl)) = (first_unanswered, ep.eng.is_waiting_for_pong(), ep.eng.get_pong_deadline()) {
          let dl_units = dl.saturating_duration_since(base).as_millis() as u64 / UNIT_MS;
          if dl_units > p0 + b.timeout {
            issues.push(Issue { class: "prop".into(), code: "dead-peer-deadline-postponed".into(), step: si + 1, detail: format!("a PING sent at t={} is unanswered and nothing has arrived since; HEARTBEAT_TIMEOUT = {} but the connection's deadline now stands at t={}", p0, b.timeout, dl_units) });
          }
        }
        if closed {
          closed_model = true;
          let dead = ping_at.map_or(false, |p| clock - p >= b.timeout && last_inbound_at <= p);
          if !dead {
            issues.push(Issue { class: "prop".into(), code: "live-peer-killed".into(), step: si + 1, detail: format!("connection closed by the heartbeat logic at t={} although ping_at={:?}, last inbound at {}, timeout {}", clock, ping_at, last_inbound_at, b.timeout) });
          }
        }
      }
      "pongdeadline" => {
        // the session closes when get_pong_deadline() passes
        let dl = ep.eng.get_pong_deadline();
        let fires = ep.eng.is_waiting_for_pong() && dl.map_or(false, |d| d <= at(clock));
        if !fires {
          issues.push(Issue { class: "drift".into(), code: "pongdeadline".into(), step: si + 1, detail: format!("model: PONG deadline fires at t={}; real waiting={} deadline_in_units={:?}", clock, ep.eng.is_waiting_for_pong(), dl.map(|d| d.duration_since(base).as_millis() / UNIT_MS as u128)) });
        }
        closed_model = true;
      }
      "recv" => {
        salt += 1;
        let kind = st["kind"].as_str().unwrap_or("data");
        let bytes = match kind {
          "data" => frame(0, b"payload"),
          "pong" => frame(4, b"\x04PONG"),
          _ => {
            let c = ctx_bytes(st["ctx"].as_str().unwrap_or("c0"), salt);
            owed.push(c.clone());
            let mut body = b"\x04PING\x00\x05".to_vec();
            body.extend(c);
            frame(4, &body)
          }
        };
        let before = ep.eng.verif_last_activity();
        let out = ep.on_bytes(bytes);
        if ep.eng.verif_last_activity() != before {
          ep.eng.verif_set_last_activity(at(clock));
        } else {
          issues.push(Issue { class: "drift".into(), code: "activity-not-recorded".into(), step: si + 1, detail: format!("inbound {} frame did not update the activity time", kind) });
        }
        last_inbound_at = clock;
        first_unanswered = None;
        if ep.eng.phase == ZmtpPhase::Closed {
          issues.push(Issue { class: "prop".into(), code: "live-peer-killed".into(), step: si + 1, detail: format!("an inbound {} frame closed the connection", kind) });
        }
        let pongs: Vec<&RealTok> = out.toks.iter().filter(|t| t.label.starts_with("fr:pong")).collect();
        if kind == "ping" {
          if pongs.len() != 1 {
            issues.push(Issue { class: "prop".into(), code: "pong-missing".into(), step: si + 1, detail: format!("PING answered by {} PONG frames", pongs.len()) });
          }
        } else if !pongs.is_empty() {
          issues.push(Issue { class: "drift".into(), code: "unexpected-pong".into(), step: si + 1, detail: "PONG without PING".into() });
        }
        for t in &out.toks {
          eg.push_priority(Bytes::from(t.bytes.clone()));
        }
        if ep.eng.is_waiting_for_pong() {
          issues.push(Issue { class: "drift".into(), code: "still-waiting".into(), step: si + 1, detail: format!("after an inbound {} frame the engine still waits for a PONG", kind) });
        }
      }
      "queue" => {
        let id = st["id"].as_str().unwrap_or("0");
        let chunk = frame(0, format!("data-chunk-{}-{}", id, "x".repeat(20)).as_bytes());
        queued.push(chunk.clone());
        eg.push(Bytes::from(chunk), 1);
      }
      "write" => {
        if let Some(sl) = eg.current_slice() {
          // data chunks take two writes (half, rest), control frames one
          let is_data = sl.len() >= 2 && sl[0] & 4 == 0 && queued.iter().any(|q| q.ends_with(&sl));
          let whole = queued.iter().any(|q| *q == sl);
          let n = if is_data && whole { sl.len() / 2 } else { sl.len() };
          wire.extend_from_slice(&sl[..n]);
          eg.advance(n);
        } else {
          issues.push(Issue { class: "drift".into(), code: "nothing-to-write".into(), step: si + 1, detail: "model writes but the real egress buffer is empty".into() });
        }
      }
      _ => {}
    }
  }
  let _ = closed_model;
  // flush what is left (whole chunks) and judge the wire
  while let Some(sl) = eg.current_slice() {
    wire.extend_from_slice(&sl);
    let n = sl.len();
    eg.advance(n);
  }
  let mut wire_frames = Vec::new();
  match parse_frames(&wire) {
    None => issues.push(Issue { class: "prop".into(), code: "frame-inside-frame".into(), step: 0, detail: "the bytes written to the socket do not parse as a sequence of whole frames (a control frame was inserted inside a partially written chunk)".into() }),
    Some(frames) => {
      let mut data_seen = 0usize;
      let mut pongs: Vec<Vec<u8>> = Vec::new();
      for (fl, body) in &frames {
        if fl & 4 == 0 {
          let want = queued.get(data_seen);
          if want.map(|w| &w[2..]) != Some(&body[..]) {
            issues.push(Issue { class: "prop".into(), code: "data-reordered".into(), step: 0, detail: "queued data chunks left the egress buffer out of order or corrupted".into() });
          }
          data_seen += 1;
          wire_frames.push("data".into());
        } else if body.starts_with(b"\x04PONG") {
          pongs.push(body[5..].to_vec());
          wire_frames.push(format!("pong({})", body.len() - 5));
        } else {
          wire_frames.push("ping".into());
        }
      }
      // every PONG echoes the context of a received PING, once per PING
      let mut remaining = owed.clone();
      for p in &pongs {
        match remaining.iter().position(|c| c == p) {
          Some(i) => {
            remaining.remove(i);
          }
          None => issues.push(Issue { class: "prop".into(), code: "pong-context".into(), step: 0, detail: format!("a PONG carries context {:?} which no PING carried (PING contexts: {:?})", p, owed) }),
        }
      }
      if !remaining.is_empty() && ep.eng.phase != ZmtpPhase::Closed {
        issues.push(Issue { class: "prop".into(), code: "pong-missing".into(), step: 0, detail: format!("{} PING(s) were never answered", remaining.len()) });
      }
    }
  }
  Outcome { index, issues, wire_frames }
}
