//! B2 for ReqRep.tla on real REQ / REP sockets: the API-calling tasks run under the controlled
//! scheduler (the socket's own actors run on a normal Tokio runtime), so two calls racing on
//! clones of one socket can be interleaved exactly at the state check.
use crate::peer::Issue;
use crate::sched::*;
use rzmq::socket::options as o;
use rzmq::{Context, Msg, Socket, SocketType};
use serde::Serialize;
use std::sync::{Arc, Mutex};
use std::time::Duration;

#[derive(Serialize)]
pub struct Outcome {
  pub scenario: String,
  pub schedule: Vec<String>,
  pub results: Vec<String>,
  pub issues: Vec<Issue>,
}

fn settle(ctrl: &Controller, ids: &[usize], trace: &mut Vec<String>, names: &[&str]) {
  // free run: grant whatever is enabled; background actors may wake blocked tasks a little later
  let mut idle_rounds = 0;
  for _ in 0..400 {
    let v = ctrl.quiesce();
    if ids.iter().all(|&i| v[i].status == Status::Done) {
      return;
    }
    let en: Vec<usize> = ids.iter().cloned().filter(|&i| matches!(v[i].status, Status::AtPoint | Status::Runnable)).collect();
    if let Some(&i) = en.first() {
      trace.push(format!("{}@{}", names[ids.iter().position(|&x| x == i).unwrap()], v[i].point));
      ctrl.grant(i);
      idle_rounds = 0;
    } else {
      idle_rounds += 1;
      if idle_rounds > 60 {
        return;
      }
      std::thread::sleep(Duration::from_millis(25));
    }
  }
}

async fn mk_pair(ctx: &Context, nreq: usize) -> Result<(Socket, Vec<Socket>, String), String> {
  let rep = ctx.socket(SocketType::Rep).map_err(|e| e.to_string())?;
  rep.set_option_raw(o::RCVTIMEO, &1500i32.to_ne_bytes()).await.map_err(|e| e.to_string())?;
  rep.set_option_raw(o::SNDTIMEO, &1500i32.to_ne_bytes()).await.map_err(|e| e.to_string())?;
  rep.bind("tcp://127.0.0.1:0").await.map_err(|e| e.to_string())?;
  let ep = rep.get_option(o::LAST_ENDPOINT).await.map_err(|e| e.to_string())?;
  let ep = String::from_utf8_lossy(&ep).trim_end_matches('\0').to_string();
  let mut reqs = Vec::new();
  for _ in 0..nreq {
    let r = ctx.socket(SocketType::Req).map_err(|e| e.to_string())?;
    r.set_option_raw(o::RCVTIMEO, &1500i32.to_ne_bytes()).await.map_err(|e| e.to_string())?;
    r.set_option_raw(o::SNDTIMEO, &1500i32.to_ne_bytes()).await.map_err(|e| e.to_string())?;
    r.connect(&ep).await.map_err(|e| e.to_string())?;
    reqs.push(r);
  }
  tokio::time::sleep(Duration::from_millis(250)).await;
  Ok((rep, reqs, ep))
}

/// Two tasks call send() on clones of one REQ socket; task `first` is taken up to the point right
/// after its state check, then the other one runs, then everything runs to completion.
pub fn req_send_race(rt: &tokio::runtime::Runtime, first_to_check: usize, hold_both: bool) -> Outcome {
  let ctx = Context::new().expect("ctx");
  let (rep, reqs, _ep) = match rt.block_on(mk_pair(&ctx, 1)) {
    Ok(x) => x,
    Err(e) => return Outcome { scenario: "req-send-race".into(), schedule: vec![], results: vec![], issues: vec![Issue { class: "tool".into(), code: "setup".into(), step: 0, detail: e }] },
  };
  let req = reqs[0].clone();
  let ctrl = Controller::new();
  ctrl.set_runtime(rt.handle().clone());
  let results: Arc<Mutex<Vec<(usize, String)>>> = Arc::new(Mutex::new(Vec::new()));
  let mut ids = Vec::new();
  for t in 0..2usize {
    let r2 = req.clone();
    let res = results.clone();
    let ops: Vec<Box<dyn FnOnce() -> BoxFut + Send>> = vec![Box::new(move || {
      Box::pin(async move {
        let r = r2.send(Msg::from_vec(format!("request-from-task-{}", t).into_bytes())).await;
        res.lock().unwrap().push((t, match r { Ok(()) => "ok".into(), Err(e) => crate::sock::err_kind(&e) }));
      })
    })];
    ids.push(ctrl.spawn(&format!("t{}", t), ops, Box::new(|_, _| {})));
  }
  let names = ["t0", "t1"];
  let mut trace = Vec::new();
  // bring `first_to_check` to the point after its check
  let a = ids[first_to_check];
  let b = ids[1 - first_to_check];
  let v = ctrl.quiesce();
  let _ = v;
  // tasks start running immediately until their first point/block
  let step = |id: usize, trace: &mut Vec<String>| {
    let v = ctrl.quiesce();
    if matches!(v[id].status, Status::AtPoint | Status::Runnable) {
      trace.push(format!("{}@{}", names[ids.iter().position(|&x| x == id).unwrap()], v[id].point));
      ctrl.grant(id);
    }
  };
  // a is (after start) at "req.send.checked" already, or blocked on the serialiser
  let v0 = ctrl.quiesce();
  trace.push(format!("start: {}={:?}@{} {}={:?}@{}", names[first_to_check], v0[a].status, v0[a].point, names[1 - first_to_check], v0[b].status, v0[b].point));
  if hold_both {
    // let the other task run as far as it can while the first sits right after its check
    step(b, &mut trace);
    std::thread::sleep(Duration::from_millis(30));
  }
  step(a, &mut trace);
  settle(&ctrl, &ids, &mut trace, &names);
  let res = results.lock().unwrap().clone();
  let mut issues = Vec::new();
  let oks = res.iter().filter(|(_, r)| r == "ok").count();
  let invalid = res.iter().filter(|(_, r)| r == "InvalidState").count();
  if res.len() == 2 && oks != 1 {
    issues.push(Issue { class: "prop".into(), code: "req-double-send".into(), step: 0, detail: format!("two send() calls racing on one REQ socket returned {:?}: {} succeeded (exactly one must, the other must fail with InvalidState); schedule {:?}", res, oks, trace) });
  } else if res.len() == 2 && invalid != 1 {
    issues.push(Issue { class: "prop".into(), code: "req-wrong-error".into(), step: 0, detail: format!("the losing send() returned {:?} instead of InvalidState", res) });
  }
  if res.len() < 2 {
    issues.push(Issue { class: "prop".into(), code: "call-hangs".into(), step: 0, detail: format!("a racing send() never returned: {:?}; schedule {:?}", res, trace) });
  }
  // how many requests reached REP? exactly one
  let got = rt.block_on(async {
    let mut n = 0;
    if tokio::time::timeout(Duration::from_millis(800), rep.recv()).await.map(|r| r.is_ok()).unwrap_or(false) {
      n += 1;
      // a second request would be a violation of alternation made visible at the peer
      let _ = rep.send(Msg::from_vec(b"reply".to_vec())).await;
      if tokio::time::timeout(Duration::from_millis(300), rep.recv()).await.map(|r| r.is_ok()).unwrap_or(false) {
        n += 1;
      }
    }
    n
  });
  if got > 1 && !issues.iter().any(|i| i.code == "req-double-send") {
    issues.push(Issue { class: "prop".into(), code: "req-double-send".into(), step: 0, detail: format!("REP received {} requests from one REQ without a reply in between", got) });
  }
  ctrl.shutdown();
  rt.block_on(async {
    let _ = tokio::time::timeout(Duration::from_secs(3), ctx.term()).await;
  });
  Outcome { scenario: format!("req-send-race(first={},hold_both={})", first_to_check, hold_both), schedule: trace, results: res.iter().map(|(t, r)| format!("t{}:{}", t, r)).collect(), issues }
}

/// Two tasks call recv() on clones of one REP socket while two REQ peers have a request pending each.
/// `style`: 0 = both recv(), 1 = both recv_multipart(), 2 = one of each.
pub fn rep_recv_race(rt: &tokio::runtime::Runtime, first_to_check: usize, hold_both: bool, style: usize) -> Outcome {
  let ctx = Context::new().expect("ctx");
  let (rep, reqs, _ep) = match rt.block_on(mk_pair(&ctx, 2)) {
    Ok(x) => x,
    Err(e) => return Outcome { scenario: "rep-recv-race".into(), schedule: vec![], results: vec![], issues: vec![Issue { class: "tool".into(), code: "setup".into(), step: 0, detail: e }] },
  };
  rt.block_on(async {
    let _ = reqs[0].send(Msg::from_vec(b"req-A".to_vec())).await;
    let _ = reqs[1].send(Msg::from_vec(b"req-B".to_vec())).await;
    tokio::time::sleep(Duration::from_millis(200)).await;
  });
  let ctrl = Controller::new();
  ctrl.set_runtime(rt.handle().clone());
  let results: Arc<Mutex<Vec<(usize, String)>>> = Arc::new(Mutex::new(Vec::new()));
  let mut ids = Vec::new();
  for t in 0..2usize {
    let r2 = rep.clone();
    let res = results.clone();
    let ops: Vec<Box<dyn FnOnce() -> BoxFut + Send>> = vec![Box::new(move || {
      Box::pin(async move {
        let multipart = style == 1 || (style == 2 && t == 1);
        let r = if multipart {
          r2.recv_multipart().await.map(|fr| fr.into_iter().last().unwrap_or_else(Msg::new))
        } else {
          r2.recv().await
        };
        res.lock().unwrap().push((t, match r { Ok(m) => format!("ok:{}", String::from_utf8_lossy(m.data().unwrap_or(&[]))), Err(e) => crate::sock::err_kind(&e) }));
      })
    })];
    ids.push(ctrl.spawn(&format!("t{}", t), ops, Box::new(|_, _| {})));
  }
  let names = ["t0", "t1"];
  let mut trace = Vec::new();
  let a = ids[first_to_check];
  let b = ids[1 - first_to_check];
  let v0 = ctrl.quiesce();
  trace.push(format!("start: {}={:?}@{} {}={:?}@{}", names[first_to_check], v0[a].status, v0[a].point, names[1 - first_to_check], v0[b].status, v0[b].point));
  if hold_both && matches!(v0[b].status, Status::AtPoint | Status::Runnable) {
    trace.push(format!("{}@{}", names[1 - first_to_check], v0[b].point));
    ctrl.grant(b);
    std::thread::sleep(Duration::from_millis(30));
  }
  settle(&ctrl, &ids, &mut trace, &names);
  let res = results.lock().unwrap().clone();
  let mut issues = Vec::new();
  let oks: Vec<&(usize, String)> = res.iter().filter(|(_, r)| r.starts_with("ok")).collect();
  if res.len() == 2 && oks.len() != 1 {
    issues.push(Issue { class: "prop".into(), code: "rep-double-recv".into(), step: 0, detail: format!("two recv() calls racing on one REP socket returned {:?}: {} succeeded (exactly one must; the second request would overwrite the stored requester); schedule {:?}", res, oks.len(), trace) });
  }
  if res.len() < 2 {
    issues.push(Issue { class: "prop".into(), code: "call-hangs".into(), step: 0, detail: format!("a racing recv() never returned: {:?}; schedule {:?}", res, trace) });
  }
  // the reply must reach the requester whose request was taken
  if oks.len() == 1 {
    let which = if oks[0].1.ends_with("req-A") { 0 } else { 1 };
    let ok = rt.block_on(async {
      let _ = rep.send(Msg::from_vec(b"the-reply".to_vec())).await;
      let right = tokio::time::timeout(Duration::from_millis(800), reqs[which].recv()).await.map(|r| r.is_ok()).unwrap_or(false);
      right
    });
    if !ok {
      issues.push(Issue { class: "prop".into(), code: "reply-to-wrong-peer".into(), step: 0, detail: format!("the reply to {} did not reach the peer that sent it", oks[0].1) });
    }
  }
  ctrl.shutdown();
  rt.block_on(async {
    let _ = tokio::time::timeout(Duration::from_secs(3), ctx.term()).await;
  });
  Outcome { scenario: format!("rep-recv-race(first={},hold_both={},style={})", first_to_check, hold_both, ["recv", "recv_multipart", "mixed"][style]), schedule: trace, results: res.iter().map(|(t, r)| format!("t{}:{}", t, r)).collect(), issues }
}

pub fn run_all() -> Vec<Outcome> {
  let rt = tokio::runtime::Builder::new_multi_thread().worker_threads(4).enable_all().build().unwrap();
  let mut outs = Vec::new();
  for first in 0..2 {
    for hold in [true, false] {
      outs.push(req_send_race(&rt, first, hold));
      for style in 0..3 {
        outs.push(rep_recv_race(&rt, first, hold, style));
      }
    }
  }
  rt.shutdown_timeout(Duration::from_millis(500));
  outs
}
