//! Real-engine plumbing shared by the Peer / Script / Heartbeat replays: building engines
//! from abstract configurations, turning engine output bytes into wire tokens, and
//! projecting engine state and app actions onto the vocabulary of spec/Engine.tla.
use bytes::Bytes;
use rzmq::protocol::zmtp::actions::{AppAction, EngineOutput, NetAction};
use rzmq::protocol::zmtp::engine::{ZmtpEngine, ZmtpPhase};
use rzmq::socket::options as o;
use rzmq::verif::facade;
use rzmq::{FrameBatch, Msg, MsgFlags};
use serde::{Deserialize, Serialize};
use std::panic::{catch_unwind, AssertUnwindSafe};

#[derive(Deserialize, Serialize, Clone, Debug)]
pub struct Cfg {
  pub srv: bool,
  pub st: String,
  pub id: String,
  pub mech: String, // NULL | PLAIN | ENC
  pub good: bool,
  #[serde(rename = "allowV2")]
  pub allow_v2: bool,
}

/// Which real mechanism stands for the model's "ENC".
#[derive(Clone, Copy, Debug, PartialEq, Eq)]
pub enum EncImpl {
  Curve,
  Noise,
}

pub const SERVER_SK: [u8; 32] = [0x11; 32];
pub const CLIENT_SK: [u8; 32] = [0x22; 32];
pub const OTHER_SK: [u8; 32] = [0x33; 32];

fn i32b(v: i32) -> Vec<u8> {
  v.to_ne_bytes().to_vec()
}

/// Options for one endpoint. `peer_good`: for an ENC client, whether the *server's* key is the
/// one this client expects (the model's cfgB.good under Noise) - see `enc_for`.
pub fn options_for(cfg: &Cfg, enc: EncImpl, peer: Option<&Cfg>, extra: &[(i32, Vec<u8>)]) -> Vec<(i32, Vec<u8>)> {
  let mut v: Vec<(i32, Vec<u8>)> = Vec::new();
  if !cfg.id.is_empty() {
    v.push((o::ROUTING_ID, cfg.id.as_bytes().to_vec()));
  }
  if !cfg.allow_v2 {
    v.push((o::ALLOW_ZMTP2, i32b(0)));
  }
  match cfg.mech.as_str() {
    "NULL" => {}
    "PLAIN" => {
      if cfg.srv {
        v.push((o::PLAIN_SERVER, i32b(1)));
        v.push((o::PLAIN_USERNAME, b"user".to_vec()));
        v.push((o::PLAIN_PASSWORD, b"secret".to_vec()));
      } else {
        v.push((o::PLAIN_USERNAME, b"user".to_vec()));
        v.push((o::PLAIN_PASSWORD, if cfg.good { b"secret".to_vec() } else { b"wrong".to_vec() }));
      }
    }
    "ENC" => {
      let server_pk = facade::x25519_public(SERVER_SK);
      let other_pk = facade::x25519_public(OTHER_SK);
      match enc {
        EncImpl::Curve => {
          if cfg.srv {
            v.push((o::CURVE_SERVER, i32b(1)));
            v.push((o::CURVE_SECRET_KEY, SERVER_SK.to_vec()));
          } else {
            v.push((o::CURVE_SECRET_KEY, CLIENT_SK.to_vec()));
            // a CURVE client that expects another server key cannot open the server's WELCOME
            let srv_good = peer.map(|p| p.good).unwrap_or(true);
            v.push((o::CURVE_SERVER_KEY, if srv_good { server_pk.to_vec() } else { other_pk.to_vec() }));
          }
        }
        EncImpl::Noise => {
          v.push((o::NOISE_XX_ENABLED, i32b(1)));
          if cfg.srv {
            v.push((o::NOISE_XX_STATIC_SECRET_KEY, SERVER_SK.to_vec()));
          } else {
            v.push((o::NOISE_XX_STATIC_SECRET_KEY, CLIENT_SK.to_vec()));
            // a Noise client that expects another server key rejects the server's message 2
            let srv_good = peer.map(|p| p.good).unwrap_or(true);
            v.push((o::NOISE_XX_REMOTE_STATIC_PUBLIC_KEY, if srv_good { server_pk.to_vec() } else { other_pk.to_vec() }));
          }
        }
      }
    }
    other => crate::util::tool_error(&format!("unknown mech {}", other)),
  }
  v.extend_from_slice(extra);
  v
}

/// Which real mechanism plays the model's "ENC" for this pair. A bad ENC *server* (the client
/// expects another static key) is expressible with both CURVE (unopenable WELCOME) and Noise_XX
/// (key mismatch after message 2), so the preferred one is used; an ENC client cannot be "bad"
/// (rzmq has no client allow-list), the model does not generate that case.
pub fn enc_for(_a: &Cfg, _b: &Cfg, preferred: EncImpl) -> EncImpl {
  preferred
}

pub fn build_engine(cfg: &Cfg, enc: EncImpl, peer: Option<&Cfg>, extra: &[(i32, Vec<u8>)]) -> ZmtpEngine {
  let opts = options_for(cfg, enc, peer, extra);
  facade::engine_from_options(cfg.srv, &cfg.st, &opts).unwrap_or_else(|e| crate::util::tool_error(&format!("engine_from_options: {}", e)))
}

pub fn phase_name(p: ZmtpPhase) -> &'static str {
  match p {
    ZmtpPhase::Greeting => "Greeting",
    ZmtpPhase::Security => "Security",
    ZmtpPhase::Ready => "Ready",
    ZmtpPhase::V2Identity => "V2Identity",
    ZmtpPhase::Data => "Data",
    ZmtpPhase::Closed => "Closed",
  }
}

/// One wire token as the real engine emitted it.
#[derive(Clone, Debug)]
pub struct RealTok {
  pub label: String,
  pub bytes: Vec<u8>,
}

/// Turns the bytes an engine sends into tokens. Follows the engine's own output order:
/// signature, revision byte, greeting tail (or v2 type byte), then frames / records.
pub struct Tokenizer {
  stage: u8, // 0 sig, 1 rev, 2 tail-or-type, 3 frames
  enc_data: bool,
  is_enc: bool,
  v2: bool,
}

fn mech_label(name: &[u8]) -> String {
  let end = name.iter().position(|&b| b == 0).unwrap_or(name.len());
  let s = String::from_utf8_lossy(&name[..end]).to_string();
  if s == "CURVE" || s == "NOISE_XX" {
    "ENC".into()
  } else {
    s
  }
}

pub fn frame_label(flags: u8, body: &[u8], handshake: bool) -> String {
  let cmd = flags & 0x04 != 0;
  let more = flags & 0x01 != 0;
  let kind = if cmd {
    if body.starts_with(b"\x05READY") {
      "ready"
    } else if body.starts_with(b"\x04PING") {
      "ping"
    } else if body.starts_with(b"\x04PONG") {
      "pong"
    } else if body.starts_with(b"\x05ERROR") && !handshake {
      "error"
    } else if handshake {
      "mech"
    } else {
      "unk"
    }
  } else {
    "data"
  };
  format!("fr:{}{}", kind, if more { "+" } else { "" })
}

impl Tokenizer {
  pub fn new(is_enc: bool) -> Self {
    Self { stage: 0, enc_data: false, is_enc, v2: false }
  }
  /// `handshake`: the engine was still before the Data phase when it produced these bytes.
  /// `data_phase_before`: the engine was already in the Data phase before the call.
  pub fn push(&mut self, data: &[u8], handshake: bool, data_phase_before: bool) -> Vec<RealTok> {
    let mut out = Vec::new();
    let mut i = 0usize;
    while i < data.len() {
      match self.stage {
        0 => {
          let n = 10.min(data.len() - i);
          out.push(RealTok { label: "sig".into(), bytes: data[i..i + n].to_vec() });
          i += n;
          self.stage = 1;
        }
        1 => {
          out.push(RealTok { label: format!("rev:{}", data[i]), bytes: vec![data[i]] });
          i += 1;
          self.stage = 2;
        }
        2 => {
          // the engine writes the v3 tail as one 53-byte send and the v2 type byte as a 1-byte send
          if data.len() - i == 1 {
            self.v2 = true;
            let name = rzmq::protocol::zmtp::greeting::socket_type_name_from_code(data[i]).unwrap_or("?");
            out.push(RealTok { label: format!("t2:{}", name), bytes: vec![data[i]] });
            i += 1;
          } else {
            let n = 53.min(data.len() - i);
            let t = &data[i..i + n];
            let label = if n == 53 {
              format!("tail:{}:{}", mech_label(&t[1..21]), if t[21] == 1 { "srv" } else { "cli" })
            } else {
              "tail:?".into()
            };
            out.push(RealTok { label, bytes: t.to_vec() });
            i += n;
          }
          self.stage = 3;
        }
        _ => {
          if self.is_enc && data_phase_before && !self.v2 {
            // data-phase output of an encrypted connection: u16 length-prefixed records, except
            // that heartbeats are (today) written as plain frames - recognise both
            if data.len() - i >= 2 {
              let first = data[i];
              let plain_cmd = first & 0xF8 == 0 && first & 0x04 != 0;
              if !plain_cmd {
                let len = u16::from_be_bytes([data[i], data[i + 1]]) as usize;
                let end = (i + 2 + len).min(data.len());
                out.push(RealTok { label: "rec".into(), bytes: data[i..end].to_vec() });
                i = end;
                continue;
              }
            }
          }
          // plain frame
          if data.len() - i < 2 {
            out.push(RealTok { label: "fr:?".into(), bytes: data[i..].to_vec() });
            break;
          }
          let flags = data[i];
          let (h, len) = if flags & 0x02 != 0 {
            if data.len() - i < 9 {
              out.push(RealTok { label: "fr:?".into(), bytes: data[i..].to_vec() });
              break;
            }
            let mut b = [0u8; 8];
            b.copy_from_slice(&data[i + 1..i + 9]);
            (9usize, u64::from_be_bytes(b) as usize)
          } else {
            (2usize, data[i + 1] as usize)
          };
          let end = (i + h + len).min(data.len());
          let body = &data[(i + h).min(end)..end];
          out.push(RealTok { label: frame_label(flags, body, handshake), bytes: data[i..end].to_vec() });
          i = end;
        }
      }
    }
    let _ = self.enc_data;
    out
  }
}

/// App actions in the model's vocabulary.
#[derive(Serialize, Clone, Debug, PartialEq, Eq)]
pub struct AppObs {
  pub a: String,
  pub id: String,
  pub st: String,
  pub ids: Vec<String>,
  pub more_flags_ok: bool,
  pub detail: String,
}

pub fn app_obs(a: &AppAction) -> AppObs {
  match a {
    AppAction::HandshakeComplete { peer_identity, peer_socket_type } => AppObs {
      a: "hc".into(),
      id: peer_identity.as_ref().map(|b| String::from_utf8_lossy(b.as_ref()).to_string()).unwrap_or_default(),
      st: peer_socket_type.clone().unwrap_or_default(),
      ids: vec![],
      more_flags_ok: true,
      detail: String::new(),
    },
    AppAction::DeliverMessage(fb) => {
      let n = fb.len();
      let mut ok = true;
      let mut ids = Vec::new();
      for (i, m) in fb.iter().enumerate() {
        ids.push(String::from_utf8_lossy(m.data().unwrap_or(&[])).to_string());
        if m.is_more() != (i + 1 < n) {
          ok = false;
        }
      }
      AppObs { a: "deliver".into(), id: String::new(), st: String::new(), ids, more_flags_ok: ok, detail: String::new() }
    }
    AppAction::PeerError(e) => AppObs { a: "err".into(), id: String::new(), st: String::new(), ids: vec![], more_flags_ok: true, detail: e.to_string() },
  }
}

pub fn sends(out: &EngineOutput) -> Vec<Bytes> {
  out
    .net_actions
    .iter()
    .filter_map(|n| if let NetAction::Send { data, .. } = n { Some(data.clone()) } else { None })
    .collect()
}

pub fn data_batch(ids: &[String]) -> FrameBatch {
  let mut fb = FrameBatch::new();
  for (i, id) in ids.iter().enumerate() {
    let mut m = Msg::from_vec(id.as_bytes().to_vec());
    if i + 1 < ids.len() {
      m.set_flags(MsgFlags::MORE);
    }
    fb.push(m);
  }
  fb
}

/// A real engine plus the tokenizer of its output; every call is panic-guarded.
pub struct Endpoint {
  pub eng: ZmtpEngine,
  pub tok: Tokenizer,
  pub apps: Vec<AppObs>,
  pub panicked: bool,
}

pub struct CallOut {
  pub toks: Vec<RealTok>,
  pub apps: Vec<AppObs>,
  pub panicked: bool,
}

impl Endpoint {
  pub fn new(eng: ZmtpEngine, is_enc: bool) -> Self {
    Self { eng, tok: Tokenizer::new(is_enc), apps: Vec::new(), panicked: false }
  }
  fn absorb(&mut self, before: ZmtpPhase, r: std::thread::Result<EngineOutput>) -> CallOut {
    match r {
      Err(_) => {
        self.panicked = true;
        CallOut { toks: vec![], apps: vec![], panicked: true }
      }
      Ok(out) => {
        let handshake = before != ZmtpPhase::Data;
        let data_before = before == ZmtpPhase::Data;
        let mut toks = Vec::new();
        for s in sends(&out) {
          toks.extend(self.tok.push(&s, handshake, data_before));
        }
        let apps: Vec<AppObs> = out.app_actions.iter().map(app_obs).collect();
        self.apps.extend(apps.iter().cloned());
        CallOut { toks, apps, panicked: false }
      }
    }
  }
  pub fn start(&mut self) -> CallOut {
    let before = self.eng.phase;
    let r = catch_unwind(AssertUnwindSafe(|| self.eng.start()));
    self.absorb(before, r)
  }
  pub fn on_bytes(&mut self, data: Vec<u8>) -> CallOut {
    let before = self.eng.phase;
    let r = catch_unwind(AssertUnwindSafe(|| self.eng.on_network_bytes(Bytes::from(data))));
    self.absorb(before, r)
  }
  pub fn on_app(&mut self, ids: &[String]) -> CallOut {
    let before = self.eng.phase;
    let fb = data_batch(ids);
    let r = catch_unwind(AssertUnwindSafe(|| self.eng.on_app_message(fb)));
    self.absorb(before, r)
  }
  pub fn on_tick(&mut self, now: std::time::Instant) -> CallOut {
    let before = self.eng.phase;
    let r = catch_unwind(AssertUnwindSafe(|| self.eng.on_tick(now)));
    self.absorb(before, r)
  }
}
