//! B1 replay for Peer.tla: two real engines driven by the schedule TLC chose.
//!
//! After every step the real engines' output tokens, app actions and projected state are
//! compared with the model's (a difference is *drift*); what the property talks about
//! (handshake verdict, agreement, delivered == sent, no panic) is judged on the real
//! observations alone, at every step and at quiescence.
use crate::eng::*;
use rand::rngs::StdRng;
use rand::{Rng, SeedableRng};
use serde::{Deserialize, Serialize};
use serde_json::Value;
use std::collections::VecDeque;

#[derive(Deserialize, Clone, Debug)]
pub struct Behaviour {
  #[serde(rename = "cfgA")]
  pub cfg_a: Cfg,
  #[serde(rename = "cfgB")]
  pub cfg_b: Cfg,
  pub steps: Vec<Value>,
}

#[derive(Serialize, Clone, Debug)]
pub struct Issue {
  pub class: String, // "prop" | "drift" | "selftest"
  pub code: String,
  pub step: usize,
  pub detail: String,
}

#[derive(Serialize)]
pub struct Outcome {
  pub index: usize,
  pub enc: String,
  pub steps_replayed: usize,
  pub free_run: bool,
  pub issues: Vec<Issue>,
  pub final_a: String,
  pub final_b: String,
  pub delivered_a: Vec<Vec<String>>,
  pub delivered_b: Vec<Vec<String>>,
}

pub fn tok_label(t: &Value) -> String {
  let k = t["k"].as_str().unwrap_or("?");
  match k {
    "sig" => "sig".into(),
    "rev" => format!("rev:{}", t["r"]),
    "tail" => format!("tail:{}:{}", t["mech"].as_str().unwrap_or("?"), if t["srv"].as_bool().unwrap_or(false) { "srv" } else { "cli" }),
    "t2" => format!("t2:{}", t["st"].as_str().unwrap_or("?")),
    "rec" => "rec".into(),
    "fr" => format!("fr:{}{}", t["b"]["b"].as_str().unwrap_or("?"), if t["more"].as_bool().unwrap_or(false) { "+" } else { "" }),
    _ => "?".into(),
  }
}

pub fn compatible(a: &Cfg, b: &Cfg) -> bool {
  a.mech == b.mech && (a.mech == "NULL" || (a.good && b.good)) && crate::compat::compat(&a.st, &b.st)
}

struct Side {
  cfg: Cfg,
  ep: Endpoint,
  /// pieces waiting to be read by this side (front may be the rest of a cut token)
  inbox: VecDeque<Vec<u8>>,
  sent: Vec<Vec<String>>,
  closed: bool,
}

fn app_matches(model: &Value, real: &AppObs) -> bool {
  let a = model["a"].as_str().unwrap_or("?");
  if a != real.a {
    return false;
  }
  match a {
    "hc" => model["id"].as_str().unwrap_or("") == real.id && model["st"].as_str().unwrap_or("") == real.st,
    "deliver" => {
      let ids: Vec<String> = model["ids"].as_array().map(|v| v.iter().map(|x| x.as_str().unwrap_or("").to_string()).collect()).unwrap_or_default();
      ids == real.ids
    }
    _ => true,
  }
}

pub fn run(index: usize, b: &Behaviour, preferred: EncImpl, seed: u64, perturb: bool) -> Outcome {
  let enc = enc_for(&b.cfg_a, &b.cfg_b, preferred);
  let mut rng = StdRng::seed_from_u64(seed ^ (index as u64).wrapping_mul(0x9E3779B97F4A7C15));
  let is_enc = b.cfg_a.mech == "ENC" && b.cfg_b.mech == "ENC";
  let mut a = Side { cfg: b.cfg_a.clone(), ep: Endpoint::new(build_engine(&b.cfg_a, enc, Some(&b.cfg_b), &[]), is_enc), inbox: VecDeque::new(), sent: vec![], closed: false };
  let mut bb = Side { cfg: b.cfg_b.clone(), ep: Endpoint::new(build_engine(&b.cfg_b, enc, Some(&b.cfg_a), &[]), is_enc), inbox: VecDeque::new(), sent: vec![], closed: false };
  let mut issues: Vec<Issue> = Vec::new();
  let compat = compatible(&b.cfg_a, &b.cfg_b);

  // start(): signatures
  let oa = a.ep.start();
  let ob = bb.ep.start();
  for t in oa.toks {
    bb.inbox.push_back(t.bytes);
  }
  for t in ob.toks {
    a.inbox.push_back(t.bytes);
  }

  let mut drifted = false;
  let mut replayed = 0usize;
  for (si, st) in b.steps.iter().enumerate() {
    if drifted {
      break;
    }
    let act = st["a"].as_str().unwrap_or("?");
    match act {
      "deliver" => {
        let to_b = st["to"].as_str() == Some("b");
        let k = st["k"].as_u64().unwrap_or(0) as usize;
        let cut = st["cut"].as_bool().unwrap_or(false);
        let (dst, src) = if to_b { (&mut bb, &mut a) } else { (&mut a, &mut bb) };
        if dst.inbox.len() < k + if cut { 1 } else { 0 } {
          issues.push(Issue { class: "drift".into(), code: "channel-shorter-than-model".into(), step: si + 1, detail: format!("model reads {} pieces{}, real channel holds {}", k, if cut { " + a fragment" } else { "" }, dst.inbox.len()) });
          drifted = true;
          break;
        }
        let mut data: Vec<u8> = Vec::new();
        for _ in 0..k {
          data.extend(dst.inbox.pop_front().unwrap());
        }
        if cut {
          let piece = dst.inbox.pop_front().unwrap();
          if piece.len() < 2 {
            // cannot cut a 1-byte token: hand it over whole next time (model/real token length differ)
            dst.inbox.push_front(piece);
            issues.push(Issue { class: "drift".into(), code: "uncuttable-token".into(), step: si + 1, detail: "model cuts a token the real engine encoded in one byte".into() });
            drifted = true;
            break;
          }
          let at = rng.random_range(1..piece.len());
          data.extend_from_slice(&piece[..at]);
          dst.inbox.push_front(piece[at..].to_vec());
        }
        let out = dst.ep.on_bytes(data);
        if out.panicked {
          issues.push(Issue { class: "prop".into(), code: "panic".into(), step: si + 1, detail: "on_network_bytes panicked".into() });
          drifted = true;
          break;
        }
        // tokens out: compare with the model, then put them on the wire
        let want: Vec<String> = st["net"].as_array().map(|v| v.iter().map(tok_label).collect()).unwrap_or_default();
        let got: Vec<String> = out.toks.iter().map(|t| t.label.clone()).collect();
        for t in &out.toks {
          src.inbox.push_back(t.bytes.clone());
        }
        if want != got {
          issues.push(Issue { class: "drift".into(), code: "net-output".into(), step: si + 1, detail: format!("engine {} sent {:?}, model {:?}", if to_b { "b" } else { "a" }, got, want) });
          drifted = true;
        }
        let wapp = st["app"].as_array().cloned().unwrap_or_default();
        let mut wapp_n = wapp.len();
        if perturb && si + 1 == b.steps.len() {
          wapp_n += 1; // binding self-test: expect one more app action than the model says
        }
        if wapp_n != out.apps.len() || !wapp.iter().zip(out.apps.iter()).all(|(m, r)| app_matches(m, r)) {
          issues.push(Issue { class: if perturb { "selftest".into() } else { "drift".into() }, code: "app-actions".into(), step: si + 1, detail: format!("engine {} emitted {:?}, model {}", if to_b { "b" } else { "a" }, out.apps.iter().map(|x| format!("{}{:?}{}", x.a, x.ids, x.detail)).collect::<Vec<_>>(), serde_json::to_string(&wapp).unwrap()) });
          drifted = true;
        }
        let (ver, rev_sent, _, _) = dst.ep.eng.verif_state();
        let p = &st["proj"];
        let real_phase = phase_name(dst.ep.eng.phase);
        if p["phase"].as_str() != Some(real_phase) || p["ver"].as_u64() != Some(ver as u64) || p["revSent"].as_bool() != Some(rev_sent) {
          issues.push(Issue { class: "drift".into(), code: "projection".into(), step: si + 1, detail: format!("real (phase {}, ver {}, revSent {}), model {}", real_phase, ver, rev_sent, p) });
          drifted = true;
        }
      }
      "send" => {
        let by_a = st["by"].as_str() == Some("a");
        let ids: Vec<String> = st["ids"].as_array().map(|v| v.iter().map(|x| x.as_str().unwrap_or("").to_string()).collect()).unwrap_or_default();
        let (src, dst) = if by_a { (&mut a, &mut bb) } else { (&mut bb, &mut a) };
        let out = src.ep.on_app(&ids);
        if out.panicked {
          issues.push(Issue { class: "prop".into(), code: "panic".into(), step: si + 1, detail: "on_app_message panicked".into() });
          drifted = true;
          break;
        }
        if out.toks.is_empty() {
          issues.push(Issue { class: "drift".into(), code: "send-ignored".into(), step: si + 1, detail: format!("on_app_message produced nothing in phase {}", phase_name(src.ep.eng.phase)) });
          drifted = true;
        } else {
          src.sent.push(ids.clone());
        }
        let want: Vec<String> = st["net"].as_array().map(|v| v.iter().map(tok_label).collect()).unwrap_or_default();
        let got: Vec<String> = out.toks.iter().map(|t| t.label.clone()).collect();
        for t in &out.toks {
          dst.inbox.push_back(t.bytes.clone());
        }
        if want != got && !drifted {
          issues.push(Issue { class: "drift".into(), code: "net-output".into(), step: si + 1, detail: format!("send produced {:?}, model {:?}", got, want) });
          drifted = true;
        }
      }
      "eof" => {
        if st["at"].as_str() == Some("a") {
          a.closed = true;
        } else {
          bb.closed = true;
        }
      }
      _ => {}
    }
    step_checks(&a, &bb, compat, si + 1, &mut issues);
    replayed += 1;
  }

  // Free run to quiescence (also after a clean replay: the model's terminal state is quiescent,
  // so this is a no-op then): deliver everything, alternately, until nothing is in flight.
  let mut free_run = false;
  let mut guard = 0;
  loop {
    guard += 1;
    if guard > 200 {
      break;
    }
    let mut progressed = false;
    for to_b in [true, false] {
      let (dst, src) = if to_b { (&mut bb, &mut a) } else { (&mut a, &mut bb) };
      if dst.inbox.is_empty() || dst.closed || dst.ep.panicked {
        continue;
      }
      free_run = true;
      progressed = true;
      let mut data = Vec::new();
      while let Some(p) = dst.inbox.pop_front() {
        data.extend(p);
      }
      let out = dst.ep.on_bytes(data);
      if out.panicked {
        issues.push(Issue { class: "prop".into(), code: "panic".into(), step: 0, detail: "on_network_bytes panicked (free run)".into() });
      }
      for t in out.toks {
        src.inbox.push_back(t.bytes);
      }
    }
    step_checks(&a, &bb, compat, 0, &mut issues);
    if !progressed {
      break;
    }
  }
  final_checks(&a, &bb, compat, &mut issues);
  Outcome {
    index,
    enc: format!("{:?}", enc),
    steps_replayed: replayed,
    free_run,
    issues,
    final_a: phase_name(a.ep.eng.phase).into(),
    final_b: phase_name(bb.ep.eng.phase).into(),
    delivered_a: delivered(&a.ep.apps),
    delivered_b: delivered(&bb.ep.apps),
  }
}

fn delivered(apps: &[AppObs]) -> Vec<Vec<String>> {
  apps.iter().filter(|x| x.a == "deliver").map(|x| x.ids.clone()).collect()
}
fn is_prefix(a: &[Vec<String>], b: &[Vec<String>]) -> bool {
  a.len() <= b.len() && a.iter().zip(b.iter()).all(|(x, y)| x == y)
}

/// Property-level checks that must hold after every step (safety).
fn step_checks(a: &Side, b: &Side, compat: bool, step: usize, issues: &mut Vec<Issue>) {
  let mut push = |code: &str, detail: String| {
    if !issues.iter().any(|i| i.code == code) {
      issues.push(Issue { class: "prop".into(), code: code.into(), step, detail });
    }
  };
  let hca: Vec<&AppObs> = a.ep.apps.iter().filter(|x| x.a == "hc").collect();
  let hcb: Vec<&AppObs> = b.ep.apps.iter().filter(|x| x.a == "hc").collect();
  if !compat && (!hca.is_empty() || !hcb.is_empty()) {
    push("incompatible-up", format!("incompatible endpoints completed a handshake (a: {}, b: {})", hca.len(), hcb.len()));
  }
  if compat {
    for (n, s) in [("a", a), ("b", b)] {
      if let Some(e) = s.ep.apps.iter().find(|x| x.a == "err") {
        push("compatible-fail", format!("compatible endpoint {} failed: {}", n, e.detail));
      }
    }
  }
  if hca.len() > 1 || hcb.len() > 1 {
    push("double-hc", "HandshakeComplete emitted twice".into());
  }
  if let Some(h) = hca.first() {
    if h.st != b.cfg.st || h.id != b.cfg.id {
      push("disagree", format!("a believes its peer is ({}, {:?}) but b is ({}, {:?})", h.st, h.id, b.cfg.st, b.cfg.id));
    }
  }
  if let Some(h) = hcb.first() {
    if h.st != a.cfg.st || h.id != a.cfg.id {
      push("disagree", format!("b believes its peer is ({}, {:?}) but a is ({}, {:?})", h.st, h.id, a.cfg.st, a.cfg.id));
    }
  }
  if !hca.is_empty() && !hcb.is_empty() {
    let va = a.ep.eng.verif_state().0;
    let vb = b.ep.eng.verif_state().0;
    if va != vb {
      push("disagree", format!("versions differ: a {} b {}", va, vb));
    }
  }
  // delivery: prefix of what the peer sent, whole messages with correct MORE flags, after hc
  for (n, s, other) in [("a", a, b), ("b", b, a)] {
    let d = delivered(&s.ep.apps);
    if !is_prefix(&d, &other.sent) {
      push("delivery-order", format!("{} was handed {:?} but its peer sent {:?}", n, d, other.sent));
    }
    if s.ep.apps.iter().any(|x| x.a == "deliver" && !x.more_flags_ok) {
      push("more-flags", format!("{} was handed a message whose MORE flags are wrong", n));
    }
    if let Some(first) = s.ep.apps.first() {
      if !d.is_empty() && first.a != "hc" {
        push("deliver-before-hc", format!("{} was handed a message before HandshakeComplete", n));
      }
    }
  }
}

/// At quiescence: the liveness side of the properties.
fn final_checks(a: &Side, b: &Side, compat: bool, issues: &mut Vec<Issue>) {
  use rzmq::protocol::zmtp::engine::ZmtpPhase as P;
  if a.ep.panicked || b.ep.panicked {
    return;
  }
  let pa = a.ep.eng.phase;
  let pb = b.ep.eng.phase;
  if compat {
    if pa != P::Data || pb != P::Data {
      issues.push(Issue { class: "prop".into(), code: "no-converge".into(), step: 0, detail: format!("compatible endpoints are quiescent in phases a={} b={}", phase_name(pa), phase_name(pb)) });
    } else {
      if delivered(&b.ep.apps) != a.sent {
        issues.push(Issue { class: "prop".into(), code: "delivery-missing".into(), step: 0, detail: format!("b received {:?}, a sent {:?}", delivered(&b.ep.apps), a.sent) });
      }
      if delivered(&a.ep.apps) != b.sent {
        issues.push(Issue { class: "prop".into(), code: "delivery-missing".into(), step: 0, detail: format!("a received {:?}, b sent {:?}", delivered(&a.ep.apps), b.sent) });
      }
    }
  } else {
    // at least one side must have failed; the other is taken down by EOF (transport level)
    if pa != P::Closed && pb != P::Closed {
      issues.push(Issue { class: "prop".into(), code: "no-fail".into(), step: 0, detail: format!("incompatible endpoints are quiescent in phases a={} b={} - nobody failed", phase_name(pa), phase_name(pb)) });
    }
  }
}
