//! B1/B3 for SubSync.tla: behaviours of the specification (subscribe / unsubscribe / a publisher's
//! connection coming up / being lost) are replayed on a real SUB socket whose publishers are raw
//! TCP peers speaking ZMTP 3.0 NULL as PUB.  After every step each raw peer compares the
//! SUBSCRIBE / CANCEL messages it has received on its current connection with the specification's
//! `wire[p]` (the attach-time synchronisation as a set, everything after it as a sequence).
use crate::peer::Issue;
use rzmq::socket::options as o;
use rzmq::{Context, Socket, SocketType};
use serde::{Deserialize, Serialize};
use std::collections::HashMap;
use std::sync::{Arc, Mutex};
use std::time::Duration;
use tokio::io::{AsyncReadExt, AsyncWriteExt};
use tokio::net::TcpListener;

#[derive(Deserialize, Serialize, Clone, Debug)]
pub struct ExpPeer {
  pub up: bool,
  pub sync: Vec<String>,
  pub cmds: Vec<Vec<String>>,
}

#[derive(Deserialize, Serialize, Clone, Debug)]
pub struct Step {
  pub op: String,
  pub t: String,
  pub p: String,
  pub exp: HashMap<String, ExpPeer>,
}

#[derive(Deserialize, Serialize, Clone, Debug)]
pub struct Behaviour {
  pub steps: Vec<Step>,
}

#[derive(Serialize)]
pub struct Outcome {
  pub index: usize,
  pub backend: String,
  pub steps: usize,
  pub issues: Vec<Issue>,
  pub seen: Vec<serde_json::Value>,
}

#[derive(Default)]
struct Conn {
  handshook: bool,
  closed: bool,
  cmds: Vec<(String, String)>, // ("sub" | "cancel", topic)
  other: Vec<String>,          // anything else the SUB sent after the handshake
}

struct RawPub {
  port: u16,
  task: Option<tokio::task::JoinHandle<()>>,
  conn: Arc<Mutex<Conn>>,
  connected_once: bool,
}

fn greeting() -> Vec<u8> {
  let mut g = vec![0xFFu8, 0, 0, 0, 0, 0, 0, 0, 0, 0x7F, 3, 0];
  let mut mech = b"NULL".to_vec();
  mech.resize(20, 0);
  g.extend_from_slice(&mech);
  g.push(0); // as-server
  g.resize(64, 0);
  g
}

fn ready(socket_type: &str) -> Vec<u8> {
  let mut body = vec![5u8];
  body.extend_from_slice(b"READY");
  body.push(11);
  body.extend_from_slice(b"Socket-Type");
  body.extend_from_slice(&(socket_type.len() as u32).to_be_bytes());
  body.extend_from_slice(socket_type.as_bytes());
  let mut f = vec![0x04u8, body.len() as u8];
  f.extend_from_slice(&body);
  f
}

/// One accepted connection: handshake as PUB, then record every frame.
async fn serve(listener: TcpListener, conn: Arc<Mutex<Conn>>) {
  let (mut st, _) = match listener.accept().await {
    Ok(x) => x,
    Err(_) => return,
  };
  drop(listener); // one connection per incarnation
  let _ = st.set_nodelay(true);
  let mut out = greeting();
  out.extend_from_slice(&ready("PUB"));
  if st.write_all(&out).await.is_err() {
    conn.lock().unwrap().closed = true;
    return;
  }
  let mut buf: Vec<u8> = Vec::new();
  let mut tmp = [0u8; 4096];
  let mut greeted = false;
  loop {
    // decode what is there
    loop {
      if !greeted {
        if buf.len() < 64 {
          break;
        }
        buf.drain(..64);
        greeted = true;
        continue;
      }
      if buf.len() < 2 {
        break;
      }
      let flags = buf[0];
      let (hdr, len) = if flags & 0x02 != 0 {
        if buf.len() < 9 {
          break;
        }
        (9usize, u64::from_be_bytes(buf[1..9].try_into().unwrap()) as usize)
      } else {
        (2usize, buf[1] as usize)
      };
      if buf.len() < hdr + len {
        break;
      }
      let body: Vec<u8> = buf[hdr..hdr + len].to_vec();
      buf.drain(..hdr + len);
      let mut c = conn.lock().unwrap();
      if flags & 0x04 != 0 {
        let n = body.first().copied().unwrap_or(0) as usize;
        let name = String::from_utf8_lossy(body.get(1..1 + n).unwrap_or(&[])).to_string();
        match name.as_str() {
          "READY" => c.handshook = true,
          "SUBSCRIBE" => c.cmds.push(("sub".into(), String::from_utf8_lossy(&body[1 + n..]).to_string())),
          "CANCEL" => c.cmds.push(("cancel".into(), String::from_utf8_lossy(&body[1 + n..]).to_string())),
          _ => c.other.push(format!("command {}", name)),
        }
      } else if flags & 0x01 == 0 && !body.is_empty() && body[0] <= 1 {
        let kind = if body[0] == 1 { "sub" } else { "cancel" };
        c.cmds.push((kind.into(), String::from_utf8_lossy(&body[1..]).to_string()));
      } else {
        c.other.push(format!("frame flags={:#x} len={}", flags, body.len()));
      }
    }
    match st.read(&mut tmp).await {
      Ok(0) | Err(_) => {
        conn.lock().unwrap().closed = true;
        return;
      }
      Ok(n) => buf.extend_from_slice(&tmp[..n]),
    }
  }
}

async fn bind_retry(port: u16) -> Option<TcpListener> {
  for _ in 0..100 {
    match TcpListener::bind(("127.0.0.1", port)).await {
      Ok(l) => return Some(l),
      Err(_) => tokio::time::sleep(Duration::from_millis(20)).await,
    }
  }
  None
}

const SETTLE_MS: u64 = 40;

pub async fn run(index: usize, b: &Behaviour, uring: bool, perturb: bool) -> Outcome {
  let backend = if uring { "io_uring" } else { "tokio" }.to_string();
  let mut issues: Vec<Issue> = Vec::new();
  let mut seen = Vec::new();
  let tool = |issues: &mut Vec<Issue>, step: usize, d: String| issues.push(Issue { class: "tool".into(), code: "setup".into(), step, detail: d });
  let ctx = match Context::new() {
    Ok(c) => c,
    Err(e) => {
      tool(&mut issues, 0, e.to_string());
      return Outcome { index, backend, steps: 0, issues, seen };
    }
  };
  let sub: Socket = match ctx.socket(SocketType::Sub) {
    Ok(s) => s,
    Err(e) => {
      tool(&mut issues, 0, e.to_string());
      return Outcome { index, backend, steps: 0, issues, seen };
    }
  };
  let _ = sub.set_option_raw(o::RECONNECT_IVL, &25i32.to_ne_bytes()).await;
  let _ = sub.set_option_raw(o::RECONNECT_IVL_MAX, &25i32.to_ne_bytes()).await;
  let _ = sub.set_option_raw(o::LINGER, &0i32.to_ne_bytes()).await;
  if uring {
    let _ = sub.set_option_raw(o::IO_URING_SESSION_ENABLED, &1i32.to_ne_bytes()).await;
  }
  let mut peers: HashMap<String, RawPub> = HashMap::new();
  let mut names: Vec<String> = b.steps.first().map(|s| s.exp.keys().cloned().collect()).unwrap_or_default();
  names.sort();
  for n in &names {
    // reserve a port for the peer's whole life
    let l = TcpListener::bind("127.0.0.1:0").await.unwrap();
    let port = l.local_addr().unwrap().port();
    drop(l);
    peers.insert(n.clone(), RawPub { port, task: None, conn: Arc::new(Mutex::new(Conn::default())), connected_once: false });
  }
  let mut done = 0usize;
  'steps: for (k, st) in b.steps.iter().enumerate() {
    match st.op.as_str() {
      "sub" => {
        if let Err(e) = tokio::time::timeout(Duration::from_secs(5), sub.set_option_raw(o::SUBSCRIBE, st.t.as_bytes())).await {
          issues.push(Issue { class: "prop".into(), code: "subscribe-hangs".into(), step: k, detail: format!("set_option(SUBSCRIBE, {:?}) did not return: {}", st.t, e) });
          break 'steps;
        }
      }
      "unsub" => {
        if let Err(e) = tokio::time::timeout(Duration::from_secs(5), sub.set_option_raw(o::UNSUBSCRIBE, st.t.as_bytes())).await {
          issues.push(Issue { class: "prop".into(), code: "unsubscribe-hangs".into(), step: k, detail: format!("set_option(UNSUBSCRIBE, {:?}) did not return: {}", st.t, e) });
          break 'steps;
        }
      }
      "attach" => {
        let rp = peers.get_mut(&st.p).unwrap();
        let l = match bind_retry(rp.port).await {
          Some(l) => l,
          None => {
            tool(&mut issues, k, format!("cannot re-bind port {}", rp.port));
            break 'steps;
          }
        };
        rp.conn = Arc::new(Mutex::new(Conn::default()));
        rp.task = Some(tokio::spawn(serve(l, rp.conn.clone())));
        if !rp.connected_once {
          rp.connected_once = true;
          if let Err(e) = sub.connect(&format!("tcp://127.0.0.1:{}", rp.port)).await {
            tool(&mut issues, k, format!("connect: {}", e));
            break 'steps;
          }
        }
        let mut ok = false;
        for _ in 0..300 {
          if rp.conn.lock().unwrap().handshook {
            ok = true;
            break;
          }
          tokio::time::sleep(Duration::from_millis(10)).await;
        }
        if !ok {
          issues.push(Issue {
            class: "sync".into(),
            code: "no-connection".into(),
            step: k,
            detail: format!("publisher {} is listening again but the SUB socket did not complete a handshake with it within 3 s", st.p),
          });
          break 'steps;
        }
      }
      "drop" => {
        let rp = peers.get_mut(&st.p).unwrap();
        if let Some(t) = rp.task.take() {
          t.abort();
          let _ = t.await;
        }
        rp.conn = Arc::new(Mutex::new(Conn::default()));
      }
      _ => {}
    }
    // quiescence: wait (bounded) until every live connection has received as many messages as the
    // specification says were sent - slowness is not a finding, a message that never comes is -
    // then a little longer, so that a message too many is seen as well
    for _ in 0..250 {
      let all = names.iter().all(|n| {
        let e = &st.exp[n];
        !e.up || peers[n].conn.lock().unwrap().cmds.len() >= e.sync.len() + e.cmds.len()
      });
      if all {
        break;
      }
      tokio::time::sleep(Duration::from_millis(10)).await;
    }
    tokio::time::sleep(Duration::from_millis(SETTLE_MS)).await;
    // compare every live connection with wire[p]
    for n in &names {
      let e = &st.exp[n];
      let rp = &peers[n];
      let c = rp.conn.lock().unwrap();
      if !e.up {
        continue;
      }
      let mut exp_sync: Vec<(String, String)> = e.sync.iter().map(|t| ("sub".to_string(), t.clone())).collect();
      exp_sync.sort();
      let mut exp_cmds: Vec<(String, String)> = e.cmds.iter().map(|c| (c[0].clone(), c[1].clone())).collect();
      if perturb && k + 1 == b.steps.len() {
        // binding self-test: the last expectation is falsified
        if let Some(x) = exp_cmds.last_mut() {
          x.0 = if x.0 == "sub" { "cancel".into() } else { "sub".into() };
        } else if let Some(x) = exp_sync.pop() {
          let _ = x;
        } else {
          exp_cmds.push(("sub".into(), "zz".into()));
        }
      }
      let ns = exp_sync.len().min(c.cmds.len());
      let mut got_sync: Vec<(String, String)> = c.cmds[..ns].to_vec();
      got_sync.sort();
      let got_cmds: Vec<(String, String)> = c.cmds[ns..].to_vec();
      seen.push(serde_json::json!({"step": k, "op": st.op, "t": st.t, "p": st.p, "peer": n, "got": c.cmds, "closed": c.closed}));
      if got_sync != exp_sync || got_cmds != exp_cmds || c.closed {
        // the publisher's view (a set per connection) decides how bad it is
        let fold = |init: &[(String, String)], cs: &[(String, String)]| {
          let mut s: std::collections::BTreeSet<String> = std::collections::BTreeSet::new();
          for (k, t) in init.iter().chain(cs.iter()) {
            if k == "sub" {
              s.insert(t.clone());
            } else {
              s.remove(t);
            }
          }
          s
        };
        let view_got = fold(&[], &c.cmds);
        let view_exp = fold(&exp_sync, &exp_cmds);
        let code = if c.closed {
          "connection-lost"
        } else if view_got != view_exp {
          "publisher-view-differs"
        } else {
          "messages-differ"
        };
        issues.push(Issue {
          class: if perturb { "selftest".into() } else { "sync".into() },
          code: code.into(),
          step: k,
          detail: format!(
            "after step {} ({} {:?}{}): publisher {} received {:?} on its connection (closed={}); the specification says sync {:?} then {:?}; a filtering publisher would now match {:?}, the SUB socket's subscriptions are {:?}",
            k + 1, st.op, st.t, st.p, n, c.cmds, c.closed, exp_sync, exp_cmds, view_got, view_exp
          ),
        });
        break 'steps;
      }
      if !c.other.is_empty() {
        issues.push(Issue { class: "sync".into(), code: "unexpected-frame".into(), step: k, detail: format!("publisher {} received {:?}", n, c.other) });
        break 'steps;
      }
    }
    done = k + 1;
  }
  for (_, rp) in peers.iter_mut() {
    if let Some(t) = rp.task.take() {
      t.abort();
    }
  }
  let _ = tokio::time::timeout(Duration::from_secs(3), sub.close()).await;
  let _ = tokio::time::timeout(Duration::from_secs(5), ctx.term()).await;
  if seen.len() > 40 {
    seen.truncate(40);
  }
  Outcome { index, backend, steps: done, issues, seen }
}

pub fn run_file(path: &str, out: &str, urings: Vec<bool>, limit: usize, perturb: bool) {
  let beh: Vec<Behaviour> = crate::util::read_jsonl(path);
  let rt = tokio::runtime::Builder::new_multi_thread().worker_threads(8).enable_all().build().unwrap();
  let mut seen = std::collections::HashSet::new();
  let mut sel: Vec<(usize, Behaviour, bool)> = Vec::new();
  for (i, b) in beh.iter().enumerate() {
    let key = serde_json::to_string(&b.steps.iter().map(|s| (s.op.clone(), s.t.clone(), s.p.clone())).collect::<Vec<_>>()).unwrap();
    if !seen.insert(key) {
      continue;
    }
    if sel.len() / urings.len().max(1) >= limit {
      break;
    }
    for &u in &urings {
      sel.push((i, b.clone(), u));
    }
  }
  let outs = rt.block_on(async {
    let mut res = Vec::new();
    let mut set = tokio::task::JoinSet::new();
    let mut it = sel.into_iter();
    let par = 10;
    loop {
      while set.len() < par {
        match it.next() {
          Some((i, b, u)) => {
            set.spawn(async move { run(i, &b, u, perturb).await });
          }
          None => break,
        }
      }
      match set.join_next().await {
        Some(Ok(o)) => res.push(o),
        Some(Err(e)) => res.push(Outcome {
          index: 0,
          backend: "?".into(),
          steps: 0,
          issues: vec![Issue { class: "sync".into(), code: "panic".into(), step: 0, detail: format!("replay task panicked: {}", e) }],
          seen: vec![],
        }),
        None => break,
      }
    }
    res
  });
  rt.shutdown_timeout(Duration::from_millis(500));
  let steps: usize = outs.iter().map(|o| o.steps).sum();
  let bad: Vec<_> = outs.iter().filter(|o| !o.issues.is_empty()).map(|o| serde_json::to_value(o).unwrap()).collect();
  let sample = outs.iter().find(|o| o.issues.is_empty()).map(|o| serde_json::to_value(o).unwrap());
  crate::util::write_json(out, &serde_json::json!({"runs": outs.len(), "steps": steps, "with_issues": bad.len(), "sample": sample, "outcomes": bad.into_iter().take(40).collect::<Vec<_>>()}));
}
