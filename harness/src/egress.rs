//! B1 replay for Egress.tla: TLC's histories of push / push_priority / advance stepped through the
//! real EgressBuffer (sessionx/egress_buffer.rs). After every step the count of pending messages (what
//! the session compares with SNDHWM), the head chunk and what is left of it are compared with the model.
use crate::peer::Issue;
use bytes::Bytes;
use rzmq::verif::facade::EgressBufferX;
use serde::{Deserialize, Serialize};
use serde_json::Value;

#[derive(Deserialize, Clone, Debug)]
pub struct Behaviour {
  pub steps: Vec<Value>,
}

#[derive(Serialize)]
pub struct Outcome {
  pub index: usize,
  pub issues: Vec<Issue>,
}

pub fn run(index: usize, b: &Behaviour, perturb: bool) -> Outcome {
  let mut issues = Vec::new();
  let mut eg = EgressBufferX::new();
  for (k, s) in b.steps.iter().enumerate() {
    let nb = s["b"].as_u64().unwrap_or(0) as usize;
    let m = s["m"].as_u64().unwrap_or(0) as usize;
    let id = s["id"].as_u64().unwrap_or(0) as u8;
    let mut popped = None;
    match s["op"].as_str().unwrap_or("") {
      "push" => eg.push(Bytes::from(vec![id; nb]), m),
      "prio" => eg.push_priority(Bytes::from(vec![id; nb])),
      "adv" => popped = Some(eg.advance(nb)),
      _ => {}
    }
    let obs = &s["obs"];
    let mut want_pending = obs["pending"].as_u64().unwrap_or(0) as usize;
    if perturb && k + 1 == b.steps.len() {
      want_pending += 1;
    }
    let class = if perturb { "selftest" } else { "prop" };
    if eg.pending_messages() != want_pending {
      issues.push(Issue { class: class.into(), code: "pending-count-wrong".into(), step: k + 1, detail: format!(
        "after {:?} the write queue reports {} pending message(s); the chunks not yet written carry {} (the session compares this count with SNDHWM)",
        b.steps.iter().take(k + 1).map(|x| format!("{}({},{})", x["op"].as_str().unwrap_or(""), x["b"], x["m"])).collect::<Vec<_>>(), eg.pending_messages(), want_pending) });
      break;
    }
    if let Some(p) = popped {
      if p != m && !perturb {
        issues.push(Issue { class: "prop".into(), code: "popped-count-wrong".into(), step: k + 1, detail: format!("advance({}) reported {} message(s) written out; {} were", nb, p, m) });
        break;
      }
    }
    let head = obs["head"].as_u64().unwrap_or(0) as u8;
    let left = obs["headleft"].as_u64().unwrap_or(0) as usize;
    match eg.current_slice() {
      None => {
        if head != 0 && !perturb {
          issues.push(Issue { class: "prop".into(), code: "queue-empty-early".into(), step: k + 1, detail: format!("the queue is empty but chunk {} has {} byte(s) left to write", head, left) });
          break;
        }
      }
      Some(sl) => {
        if (head == 0 || sl.len() != left || sl.iter().any(|x| *x != head)) && !perturb {
          issues.push(Issue { class: "prop".into(), code: "head-chunk-wrong".into(), step: k + 1, detail: format!(
            "next to be written: {} byte(s) of chunk {:?}; expected {} byte(s) of chunk {} (a priority chunk must not displace or split a chunk that is partly written)",
            sl.len(), sl.first(), left, head) });
          break;
        }
      }
    }
  }
  Outcome { index, issues }
}
