pub mod util;
pub mod wire;
