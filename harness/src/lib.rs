pub mod compat;
pub mod eng;
pub mod peer;
pub mod rpq;
pub mod sched;
pub mod script;
pub mod util;
pub mod wire;
