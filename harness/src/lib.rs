pub mod util;
