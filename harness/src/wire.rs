//! B1 replay for Wire.tla (C03, and the MAXMSGSIZE part of C07).
//!
//! Input : one JSON object per line, as exported by MC_Wire:
//!         {"frames":[{"len":..,"more":..,"cmd":..}], "reads":[{"cut":..,"dec":..,"err":..}], "maxmsg":..}
//! Output: one JSON object per behaviour with every disagreement between the real
//!         encoders/decoders and the model.
use bytes::{Buf, BufMut, Bytes, BytesMut};
use rzmq::protocol::zmtp::manual_parser::ZmtpManualParser;
use rzmq::protocol::zmtp::ZmtpCodec;
use rzmq::verif::facade::{FrameEncoderX, NullFramerX};
use rzmq::{FrameBatch, Msg, MsgFlags};
use serde::{Deserialize, Serialize};
use std::panic::{catch_unwind, AssertUnwindSafe};
use tokio_util::codec::{Decoder, Encoder};

#[derive(Deserialize, Clone, Debug)]
pub struct Frame {
  pub len: usize,
  pub more: bool,
  pub cmd: bool,
}
#[derive(Deserialize, Clone, Debug)]
pub struct Read {
  pub cut: usize,
  pub dec: usize,
  pub err: bool,
}
#[derive(Deserialize, Clone, Debug)]
pub struct Behaviour {
  pub frames: Vec<Frame>,
  pub reads: Vec<Read>,
  pub maxmsg: i64,
}

#[derive(Serialize, Clone, Debug)]
pub struct Mismatch {
  pub site: String,
  /// "bytes" (encoder output differs from reference), "content" (decoded frame differs),
  /// "final" (stream not fully/rightly decoded), "limit" (MAXMSGSIZE verdict wrong),
  /// "panic", "lag" (decoder behind the model mid-stream; harmless by itself)
  pub kind: String,
  pub detail: String,
}

/// Position-dependent payload: byte j of frame i.
pub fn payload(i: usize, len: usize) -> Vec<u8> {
  let mut v = Vec::with_capacity(len);
  let mut x: u32 = 0x9E37_79B9u32.wrapping_mul(i as u32 + 1) ^ (len as u32);
  for _ in 0..len {
    x ^= x << 13;
    x ^= x >> 17;
    x ^= x << 5;
    v.push((x & 0xFF) as u8);
  }
  v
}

pub fn mk_msg(i: usize, f: &Frame) -> Msg {
  let mut m = Msg::from_vec(payload(i, f.len));
  let mut fl = MsgFlags::empty();
  if f.more {
    fl |= MsgFlags::MORE;
  }
  if f.cmd {
    fl |= MsgFlags::COMMAND;
  }
  m.set_flags(fl);
  m
}

/// Reference encoder, written from the ZMTP 3.1 specification (RFC 37), not from rzmq.
pub fn reference_encode(frames: &[Frame]) -> Vec<u8> {
  let mut out = Vec::new();
  for (i, f) in frames.iter().enumerate() {
    let mut flags = 0u8;
    if f.more {
      flags |= 0x01;
    }
    if f.cmd {
      flags |= 0x04;
    }
    if f.len <= 255 {
      out.push(flags);
      out.push(f.len as u8);
    } else {
      out.push(flags | 0x02);
      out.extend_from_slice(&(f.len as u64).to_be_bytes());
    }
    out.extend_from_slice(&payload(i, f.len));
  }
  out
}

/// Group frames into logical messages the way a sender would hold them (a FrameBatch
/// ends at the first frame without MORE).
fn group(frames: &[Frame]) -> Vec<FrameBatch> {
  let mut out = Vec::new();
  let mut cur = FrameBatch::new();
  for (i, f) in frames.iter().enumerate() {
    cur.push(mk_msg(i, f));
    if !f.more {
      out.push(std::mem::replace(&mut cur, FrameBatch::new()));
    }
  }
  if !cur.is_empty() {
    out.push(cur);
  }
  out
}

fn concat(v: &[Bytes]) -> Vec<u8> {
  let mut o = Vec::new();
  for b in v {
    o.extend_from_slice(b);
  }
  o
}

pub fn encoders(frames: &[Frame]) -> Vec<(&'static str, Result<Vec<u8>, String>)> {
  let mut res: Vec<(&'static str, Result<Vec<u8>, String>)> = Vec::new();
  macro_rules! guarded {
    ($name:expr, $body:block) => {
      let r = catch_unwind(AssertUnwindSafe(|| -> Result<Vec<u8>, String> { $body }));
      res.push(($name, r.unwrap_or_else(|_| Err("PANIC".into()))));
    };
  }
  guarded!("codec.encode", {
    let mut c = ZmtpCodec::new();
    let mut b = BytesMut::new();
    for (i, f) in frames.iter().enumerate() {
      c.encode(mk_msg(i, f), &mut b).map_err(|e| e.to_string())?;
    }
    Ok(b.to_vec())
  });
  guarded!("codec.encode_header_only+payload", {
    let c = ZmtpCodec::new();
    let mut b = BytesMut::new();
    for (i, f) in frames.iter().enumerate() {
      let m = mk_msg(i, f);
      c.encode_header_only(&m, &mut b).map_err(|e| e.to_string())?;
      b.put_slice(m.data().unwrap_or(&[]));
    }
    Ok(b.to_vec())
  });
  guarded!("encoder.frame_contiguous", {
    let mut e = FrameEncoderX::new(64, 64);
    let g = group(frames);
    e.frame_contiguous(&g).map(|b| b.to_vec()).map_err(|e| e.to_string())
  });
  guarded!("encoder.frame_contiguous(per message)", {
    let mut e = FrameEncoderX::new(64, 64);
    let mut o = Vec::new();
    for g in group(frames) {
      o.extend_from_slice(&e.frame_contiguous(&[g]).map_err(|e| e.to_string())?);
    }
    Ok(o)
  });
  guarded!("encoder.frame_vectored", {
    let mut e = FrameEncoderX::new(64, 64);
    let g = group(frames);
    e.frame_vectored(&g).map(|v| concat(&v)).map_err(|e| e.to_string())
  });
  guarded!("nullframer.write_msg_batch", {
    let mut e = NullFramerX::new(-1, 4, 1024);
    let g = group(frames);
    e.write_msg_batch(&g).map(|b| b.to_vec()).map_err(|e| e.to_string())
  });
  guarded!("nullframer.write_msg_multipart", {
    let mut e = NullFramerX::new(-1, 4, 1024);
    let mut o = Vec::new();
    for g in group(frames) {
      o.extend_from_slice(&e.write_msg_multipart(g).map_err(|e| e.to_string())?);
    }
    Ok(o)
  });
  guarded!("nullframer.frame_vectored", {
    let mut e = NullFramerX::new(-1, 4, 1024);
    let g = group(frames);
    e.frame_vectored(&g).map(|v| concat(&v)).map_err(|e| e.to_string())
  });
  guarded!("nullframer.write_msg_split", {
    let mut e = NullFramerX::new(-1, 4, 1024);
    let mut o = Vec::new();
    for (i, f) in frames.iter().enumerate() {
      let (h, p) = e.write_msg_split(mk_msg(i, f)).map_err(|e| e.to_string())?;
      o.extend_from_slice(&h);
      if let Some(p) = p {
        o.extend_from_slice(&p);
      }
    }
    Ok(o)
  });
  res
}

#[derive(Debug)]
pub struct Dec {
  pub data: Vec<u8>,
  pub more: bool,
  pub cmd: bool,
}
fn dec_of(m: &Msg) -> Dec {
  Dec {
    data: m.data().unwrap_or(&[]).to_vec(),
    more: m.is_more(),
    cmd: m.is_command(),
  }
}

/// A decoder under test: fed one read at a time, returns the frames that came out.
pub trait StreamDecoder {
  fn name(&self) -> &'static str;
  fn enforces_limit(&self) -> bool {
    true
  }
  /// Frames that came out of this read, and the error that ended it (if any).
  fn feed(&mut self, chunk: &[u8]) -> (Vec<Dec>, Option<String>);
  /// The entry point itself returns either frames or an error, never both.
  fn drops_frames_on_error(&self) -> bool {
    false
  }
}

struct DManual {
  p: ZmtpManualParser,
  acc: BytesMut,
}
impl StreamDecoder for DManual {
  fn name(&self) -> &'static str {
    "manual.decode_from_buffer"
  }
  fn feed(&mut self, chunk: &[u8]) -> (Vec<Dec>, Option<String>) {
    self.acc.extend_from_slice(chunk);
    let mut out = Vec::new();
    loop {
      match self.p.decode_from_buffer(&mut self.acc) {
        Ok(Some(m)) => out.push(dec_of(&m)),
        Ok(None) => return (out, None),
        Err(e) => return (out, Some(e.to_string())),
      }
    }
  }
}
struct DSlice {
  p: ZmtpManualParser,
  acc: Vec<u8>,
}
impl StreamDecoder for DSlice {
  fn name(&self) -> &'static str {
    "manual.decode_frame_from_slice"
  }
  fn feed(&mut self, chunk: &[u8]) -> (Vec<Dec>, Option<String>) {
    self.acc.extend_from_slice(chunk);
    let mut out = Vec::new();
    loop {
      match self.p.decode_frame_from_slice(&self.acc) {
        Ok(Some((m, n))) => {
          out.push(dec_of(&m));
          self.acc.drain(..n);
        }
        Ok(None) => return (out, None),
        Err(e) => return (out, Some(e.to_string())),
      }
    }
  }
}
struct DBytes {
  p: ZmtpManualParser,
  acc: BytesMut,
}
impl StreamDecoder for DBytes {
  fn name(&self) -> &'static str {
    "manual.decode_frame_from_bytes"
  }
  fn feed(&mut self, chunk: &[u8]) -> (Vec<Dec>, Option<String>) {
    self.acc.extend_from_slice(chunk);
    let mut out = Vec::new();
    loop {
      let snapshot = Bytes::copy_from_slice(&self.acc);
      match self.p.decode_frame_from_bytes(&snapshot) {
        Ok(Some((m, n))) => {
          out.push(dec_of(&m));
          self.acc.advance(n);
        }
        Ok(None) => return (out, None),
        Err(e) => return (out, Some(e.to_string())),
      }
    }
  }
}
/// peek_frame_len + manual slicing (how the io_uring multishot reader uses it).
struct DPeek {
  p: ZmtpManualParser,
  acc: Vec<u8>,
}
impl StreamDecoder for DPeek {
  fn name(&self) -> &'static str {
    "manual.peek_frame_len"
  }
  fn feed(&mut self, chunk: &[u8]) -> (Vec<Dec>, Option<String>) {
    self.acc.extend_from_slice(chunk);
    let mut out = Vec::new();
    loop {
      match self.p.peek_frame_len(&self.acc) {
        Err(e) => return (out, Some(e.to_string())),
        Ok(Some(total)) if self.acc.len() >= total => {
          let fl = self.acc[0];
          let h = if fl & 0x02 != 0 { 9 } else { 2 };
          out.push(Dec {
            data: self.acc[h..total].to_vec(),
            more: fl & 0x01 != 0,
            cmd: fl & 0x04 != 0,
          });
          self.acc.drain(..total);
        }
        Ok(_) => return (out, None),
      }
    }
  }
}
struct DCodec {
  c: ZmtpCodec,
  acc: BytesMut,
  primed: bool,
  use_prefix: bool,
  switch_buffers: bool,
}
impl StreamDecoder for DCodec {
  fn name(&self) -> &'static str {
    if self.switch_buffers {
      "codec.decode(prefix handed over at every read)"
    } else if self.use_prefix {
      "codec.decode(primed prefix)"
    } else {
      "codec.decode"
    }
  }
  fn enforces_limit(&self) -> bool {
    false
  }
  fn feed(&mut self, chunk: &[u8]) -> (Vec<Dec>, Option<String>) {
    if self.switch_buffers {
      // a buffer switch at every read: whatever the codec has not consumed yet (possibly the first part of
      // a frame's body, its header already taken) is handed back as the prefix, and the new read comes in a
      // fresh buffer
      let rest = self.acc.split();
      if !rest.is_empty() {
        self.c.prime_with_prefix(rest);
      }
      self.acc = BytesMut::from(chunk);
    } else if self.use_prefix && !self.primed {
      // the first read becomes the primed prefix; decode is first called on the next read
      self.primed = true;
      self.c.prime_with_prefix(BytesMut::from(chunk));
      // a primed codec only looks at its prefix on the next decode() call: call it now
      // with an empty buffer, as the session does when it hands over leftover bytes
    } else {
      self.acc.extend_from_slice(chunk);
    }
    let mut out = Vec::new();
    loop {
      match self.c.decode(&mut self.acc) {
        Ok(Some(m)) => out.push(dec_of(&m)),
        Ok(None) => return (out, None),
        Err(e) => return (out, Some(e.to_string())),
      }
    }
  }
}
struct DNullFramer {
  f: NullFramerX,
  acc: BytesMut,
  bulk: bool,
}
impl StreamDecoder for DNullFramer {
  fn name(&self) -> &'static str {
    if self.bulk {
      "nullframer.try_read_msgs_from_bytes"
    } else {
      "nullframer.try_read_msg"
    }
  }
  fn drops_frames_on_error(&self) -> bool {
    self.bulk
  }
  fn feed(&mut self, chunk: &[u8]) -> (Vec<Dec>, Option<String>) {
    let mut out = Vec::new();
    if self.bulk {
      match self.f.try_read_msgs_from_bytes(Bytes::copy_from_slice(chunk), &mut self.acc) {
        Ok(v) => {
          for m in v {
            out.push(dec_of(&m));
          }
          (out, None)
        }
        Err(e) => (out, Some(e.to_string())),
      }
    } else {
      self.acc.extend_from_slice(chunk);
      loop {
        match self.f.try_read_msg(&mut self.acc) {
          Ok(Some(m)) => out.push(dec_of(&m)),
          Ok(None) => return (out, None),
          Err(e) => return (out, Some(e.to_string())),
        }
      }
    }
  }
}

pub fn decoders(maxmsg: i64) -> Vec<Box<dyn StreamDecoder>> {
  vec![
    Box::new(DManual { p: ZmtpManualParser::new(maxmsg), acc: BytesMut::new() }),
    Box::new(DSlice { p: ZmtpManualParser::new(maxmsg), acc: Vec::new() }),
    Box::new(DBytes { p: ZmtpManualParser::new(maxmsg), acc: BytesMut::new() }),
    Box::new(DPeek { p: ZmtpManualParser::new(maxmsg), acc: Vec::new() }),
    Box::new(DCodec { c: ZmtpCodec::new(), acc: BytesMut::new(), primed: false, use_prefix: false, switch_buffers: false }),
    Box::new(DCodec { c: ZmtpCodec::new(), acc: BytesMut::new(), primed: false, use_prefix: true, switch_buffers: false }),
    Box::new(DCodec { c: ZmtpCodec::new(), acc: BytesMut::new(), primed: false, use_prefix: false, switch_buffers: true }),
    Box::new(DNullFramer { f: NullFramerX::new(maxmsg, 4, 1024), acc: BytesMut::new(), bulk: false }),
    Box::new(DNullFramer { f: NullFramerX::new(maxmsg, 4, 1024), acc: BytesMut::new(), bulk: true }),
  ]
}

#[derive(Serialize)]
pub struct BehaviourResult {
  pub index: usize,
  pub nframes: usize,
  pub nreads: usize,
  pub combos: usize,
  pub mismatches: Vec<Mismatch>,
}

/// `perturb`: binding self-test - pretend the model expected one more decoded frame at the
/// last read; the replay must then report a mismatch.
pub fn run_behaviour(index: usize, b: &Behaviour, perturb: bool) -> BehaviourResult {
  let mut mm: Vec<Mismatch> = Vec::new();
  let reference = reference_encode(&b.frames);
  let mut streams: Vec<(&'static str, Vec<u8>)> = vec![("reference", reference.clone())];
  for (name, r) in encoders(&b.frames) {
    match r {
      Ok(bytes) => {
        if bytes != reference {
          let at = bytes.iter().zip(reference.iter()).position(|(a, b)| a != b).unwrap_or(bytes.len().min(reference.len()));
          mm.push(Mismatch {
            site: name.into(),
            kind: "bytes".into(),
            detail: format!(
              "encoder output differs from the ZMTP reference at byte {} (got {:?} want {:?}; lens {} vs {})",
              at,
              bytes.get(at),
              reference.get(at),
              bytes.len(),
              reference.len()
            ),
          });
        }
        streams.push((name, bytes));
      }
      Err(e) => mm.push(Mismatch {
        site: name.into(),
        kind: if e == "PANIC" { "panic".into() } else { "bytes".into() },
        detail: format!("encoder failed: {}", e),
      }),
    }
  }
  // Decoders are run on every distinct byte stream the encoders produced.
  let mut seen: Vec<Vec<u8>> = Vec::new();
  let mut combos = 0usize;
  for (ename, bytes) in &streams {
    if seen.iter().any(|s| s == bytes) {
      continue;
    }
    seen.push(bytes.clone());
    for mut d in decoders(b.maxmsg) {
      if b.maxmsg >= 0 && !d.enforces_limit() {
        continue; // the tokio codec has no MAXMSGSIZE; it is not on the live receive path
      }
      combos += 1;
      let site = format!("{} -> {}", ename, d.name());
      let limit_applies = b.maxmsg >= 0 && d.enforces_limit();
      let mut got: Vec<Dec> = Vec::new();
      let mut pos = 0usize;
      let mut failed: Option<(usize, String)> = None;
      let mut lag_reported = false;
      for (ri, r) in b.reads.iter().enumerate() {
        // the model's last cut is the end of the reference stream: hand over whatever this
        // encoder produced beyond it as well
        let end = if r.cut >= reference.len() { bytes.len() } else { r.cut.min(bytes.len()) };
        let chunk = &bytes[pos.min(end)..end];
        pos = end;
        let res = catch_unwind(AssertUnwindSafe(|| d.feed(chunk)));
        match res {
          Err(_) => {
            mm.push(Mismatch { site: site.clone(), kind: "panic".into(), detail: format!("panic at read {}", ri + 1) });
            failed = Some((ri, "PANIC".into()));
            break;
          }
          Ok((v, Some(e))) => {
            got.extend(v);
            failed = Some((ri, e));
            break;
          }
          Ok((v, None)) => got.extend(v),
        }
        let mut want = r.dec;
        if perturb && ri + 1 == b.reads.len() {
          want += 1;
        }
        if got.len() > want || (perturb && got.len() != want) {
          mm.push(Mismatch {
            site: site.clone(),
            kind: "final".into(),
            detail: format!("read {} (cut {}): {} frames out, model says {}", ri + 1, r.cut, got.len(), want),
          });
          break;
        }
        if got.len() < want && !lag_reported && ri + 1 < b.reads.len() {
          lag_reported = true;
          mm.push(Mismatch {
            site: site.clone(),
            kind: "lag".into(),
            detail: format!("read {} (cut {}): {} frames out, model says {}", ri + 1, r.cut, got.len(), want),
          });
        }
      }
      // content of everything that came out must be a prefix of what was sent
      for (i, g) in got.iter().enumerate() {
        let f = &b.frames[i.min(b.frames.len() - 1)];
        if i >= b.frames.len() || g.data != payload(i, f.len) || g.more != f.more || g.cmd != f.cmd {
          mm.push(Mismatch {
            site: site.clone(),
            kind: "content".into(),
            detail: format!(
              "decoded frame {} differs from sent frame (len {} more {} cmd {} vs sent len {} more {} cmd {})",
              i + 1, g.data.len(), g.more, g.cmd, f.len, f.more, f.cmd
            ),
          });
          break;
        }
      }
      // final verdict
      let last = b.reads.last();
      let model_err = last.map(|r| r.err).unwrap_or(false);
      let model_dec = last.map(|r| r.dec).unwrap_or(0);
      match (&failed, model_err && limit_applies) {
        (Some((ri, e)), true) => {
          // the model fails at its last read; the code must fail at that read, having emitted model_dec frames
          if *ri + 1 != b.reads.len() || (got.len() != model_dec && !d.drops_frames_on_error()) {
            mm.push(Mismatch {
              site: site.clone(),
              kind: "limit".into(),
              detail: format!("MAXMSGSIZE error at read {} after {} frames ({}); model: read {} after {}", ri + 1, got.len(), e, b.reads.len(), model_dec),
            });
          }
        }
        (Some((ri, e)), false) => {
          if e != "PANIC" {
            mm.push(Mismatch {
              site: site.clone(),
              kind: if b.maxmsg >= 0 { "limit".into() } else { "final".into() },
              detail: format!("decoder error at read {}: {}", ri + 1, e),
            });
          }
        }
        (None, true) => mm.push(Mismatch {
          site: site.clone(),
          kind: "limit".into(),
          detail: format!("frame above MAXMSGSIZE {} was not rejected", b.maxmsg),
        }),
        (None, false) => {
          let fully_fed = last.map(|r| r.cut >= reference.len()).unwrap_or(false);
          if !model_err && fully_fed && got.len() != b.frames.len() && !perturb {
            mm.push(Mismatch {
              site: site.clone(),
              kind: "final".into(),
              detail: format!("stream fully read but {} of {} frames decoded", got.len(), b.frames.len()),
            });
          }
        }
      }
    }
  }
  BehaviourResult { index, nframes: b.frames.len(), nreads: b.reads.len(), combos, mismatches: mm }
}
