//! B1 replay for Script.tla: one real engine against a scripted peer (attacker / legacy peer).
//!
//! The harness owns the table token -> bytes (hand-assembled from the ZMTP RFCs and the
//! mechanisms' wire formats, independent of rzmq's encoders).  Faithful replays compare every
//! step with the model (drift) and judge the properties on the real observations; *mutated*
//! replays additionally corrupt the byte stream (bit flips, truncation, length extremes,
//! invalid UTF-8, random bytes) and judge the one-sided properties only: no panic, no
//! completed handshake / delivery without proof, bounded buffering.
use crate::eng::*;
use crate::peer::{tok_label, Issue};
use rand::rngs::StdRng;
use rand::{Rng, SeedableRng};
use serde::{Deserialize, Serialize};
use serde_json::Value;
use std::collections::VecDeque;

#[derive(Deserialize, Clone, Debug)]
pub struct Behaviour {
  pub cfg: Cfg,
  pub steps: Vec<Value>,
}

pub const MAXMSG: i64 = 4096;

fn props(st: &str, id: &str) -> Vec<u8> {
  let mut v = b"\x05READY".to_vec();
  v.push(11);
  v.extend_from_slice(b"Socket-Type");
  v.extend_from_slice(&(st.len() as u32).to_be_bytes());
  v.extend_from_slice(st.as_bytes());
  if !id.is_empty() {
    v.push(8);
    v.extend_from_slice(b"Identity");
    v.extend_from_slice(&(id.len() as u32).to_be_bytes());
    v.extend_from_slice(id.as_bytes());
  }
  v
}

fn frame(flags: u8, body: &[u8]) -> Vec<u8> {
  let mut v = Vec::with_capacity(body.len() + 9);
  if body.len() <= 255 {
    v.push(flags);
    v.push(body.len() as u8);
  } else {
    v.push(flags | 0x02);
    v.extend_from_slice(&(body.len() as u64).to_be_bytes());
  }
  v.extend_from_slice(body);
  v
}

fn mech_name(m: &str, enc: EncImpl) -> Vec<u8> {
  let n: &[u8] = match m {
    "NULL" => b"NULL",
    "PLAIN" => b"PLAIN",
    "ENC" => match enc {
      EncImpl::Curve => b"CURVE",
      EncImpl::Noise => b"NOISE_XX",
    },
    _ => b"BOGUS",
  };
  let mut v = n.to_vec();
  v.resize(20, 0);
  v
}

fn rnd(rng: &mut StdRng, n: usize) -> Vec<u8> {
  (0..n).map(|_| rng.random::<u8>()).collect()
}

/// Bytes of one token of the grammar, as a peer *without secrets* would produce it.
pub fn concretize(t: &Value, cfg: &Cfg, enc: EncImpl, rng: &mut StdRng) -> Vec<u8> {
  match t["k"].as_str().unwrap_or("?") {
    "sig" => {
      let mut v = vec![0xFF, 0, 0, 0, 0, 0, 0, 0, 0, 0x7F];
      if !t["ok"].as_bool().unwrap_or(true) {
        if rng.random::<bool>() {
          v[0] = 0xFE;
        } else {
          v[9] = 0x00;
        }
      }
      v
    }
    "rev" => vec![t["r"].as_u64().unwrap_or(3) as u8],
    "tail" => {
      let mut v = vec![0u8]; // minor version
      v.extend(mech_name(t["mech"].as_str().unwrap_or("?"), enc));
      v.push(t["srv"].as_bool().unwrap_or(false) as u8);
      v.extend(std::iter::repeat(0u8).take(31));
      if !t["ok"].as_bool().unwrap_or(true) {
        let i = 22 + rng.random_range(0..31);
        v[i] = 1 + rng.random_range(0..255) as u8; // non-zero padding
      }
      v
    }
    "t2" => {
      let st = t["st"].as_str().unwrap_or("?");
      vec![rzmq::protocol::zmtp::greeting::socket_type_code(st).unwrap_or(0x63)]
    }
    "rec" => {
      let body = rnd(rng, 40);
      let mut v = (body.len() as u16).to_be_bytes().to_vec();
      v.extend(body);
      v
    }
    "fr" => {
      let mut flags = 0u8;
      if t["more"].as_bool().unwrap_or(false) {
        flags |= 1;
      }
      if t["cmd"].as_bool().unwrap_or(false) {
        flags |= 4;
      }
      let b = &t["b"];
      let body: Vec<u8> = match b["b"].as_str().unwrap_or("?") {
        "ready" => props(b["st"].as_str().unwrap_or(""), b["id"].as_str().unwrap_or("")),
        "error" => b"\x05ERROR\x03bad".to_vec(),
        "unk" => b"\x03FOObar".to_vec(),
        "ping" => {
          let mut v = b"\x04PING\x00\x0a".to_vec();
          v.extend_from_slice(b["ctx"].as_str().unwrap_or("").as_bytes());
          v
        }
        "pong" => {
          let mut v = b"\x04PONG".to_vec();
          v.extend_from_slice(b["ctx"].as_str().unwrap_or("").as_bytes());
          v
        }
        "data" => b["id"].as_str().unwrap_or("").as_bytes().to_vec(),
        "mech" => {
          let i = b["i"].as_u64().unwrap_or(1);
          let as_enc = cfg.mech == "ENC";
          if !as_enc {
            match i {
              1 if b["ok"].as_bool().unwrap_or(false) => b"\x05HELLO\x04user\x06secret".to_vec(),
              1 => b"\x05HELLO\x04user\x05wrong".to_vec(),
              2 => b"\x07WELCOME".to_vec(),
              _ => {
                let mut v = b"\x08INITIATE".to_vec();
                v.extend(rnd(rng, 24));
                v
              }
            }
          } else {
            match (enc, i) {
              (EncImpl::Curve, 1) => {
                // HELLO as rzmq's CURVE expects it: prefix + metadata(Public-Key-Client) padded to 198
                let mut v = b"\x05HELLO".to_vec();
                v.push(17);
                v.extend_from_slice(b"Public-Key-Client");
                v.extend_from_slice(&32u32.to_be_bytes());
                v.extend(rzmq::verif::facade::x25519_public(OTHER_SK));
                v.resize(198, 0);
                v
              }
              (EncImpl::Curve, 2) => {
                let mut v = b"\x07WELCOME".to_vec();
                v.extend(rnd(rng, 144));
                v
              }
              (EncImpl::Curve, _) => {
                let mut v = b"\x08INITIATE".to_vec();
                v.extend(rnd(rng, 200));
                v
              }
              (EncImpl::Noise, 1) => rzmq::verif::facade::x25519_public(OTHER_SK).to_vec(),
              (EncImpl::Noise, 2) => rnd(rng, 96),
              (EncImpl::Noise, _) => rnd(rng, 64),
            }
          }
        }
        "bad" => {
          // a frame announcing far more than MAXMSGSIZE: rejected when its header is complete
          let mut v = vec![flags | 0x02];
          let sizes: [u64; 5] = [MAXMSG as u64 + 1, 1 << 31, 1 << 63, u64::MAX, (MAXMSG as u64) * 2];
          v.extend_from_slice(&sizes[rng.random_range(0..sizes.len())].to_be_bytes());
          return v;
        }
        _ => b"?".to_vec(),
      };
      frame(flags, &body)
    }
    _ => vec![0],
  }
}

#[derive(Serialize)]
pub struct Outcome {
  pub index: usize,
  pub enc: String,
  pub mutated: Option<String>,
  pub issues: Vec<Issue>,
  pub final_phase: String,
  pub max_buffer: usize,
}

fn peer_must_prove(cfg: &Cfg) -> bool {
  (cfg.mech == "PLAIN" && cfg.srv) || cfg.mech == "ENC"
}

fn app_matches(model: &Value, real: &AppObs, expand: usize) -> bool {
  let a = model["a"].as_str().unwrap_or("?");
  if a != real.a {
    return false;
  }
  match a {
    "hc" => {
      let mid = model["id"].as_str().unwrap_or("");
      (mid == "?" || mid == real.id) && model["st"].as_str().unwrap_or("") == real.st
    }
    "deliver" => {
      let ids: Vec<String> = model["ids"].as_array().map(|v| v.iter().map(|x| x.as_str().unwrap_or("").to_string()).collect()).unwrap_or_default();
      if expand > 1 {
        let more = ids.len().saturating_sub(1);
        return real.ids.len() == more * expand + if more > 0 { 1 } else { 0 } + 1;
      }
      ids.len() == real.ids.len() && ids.iter().zip(real.ids.iter()).all(|(m, r)| m == "?" || m == r)
    }
    _ => true,
  }
}

/// One-sided property checks on what the real engine did.
fn prop_checks(cfg: &Cfg, ep: &Endpoint, script_labels: &[String], step: usize, quiescent: bool, issues: &mut Vec<Issue>) {
  let mut push = |code: &str, detail: String| {
    if !issues.iter().any(|i| i.code == code) {
      issues.push(Issue { class: "prop".into(), code: code.into(), step, detail });
    }
  };
  let hc = ep.apps.iter().filter(|x| x.a == "hc").count();
  let dl = ep.apps.iter().filter(|x| x.a == "deliver").count();
  // a PLAIN client that sent the right password has proved what PLAIN asks for
  let proved = cfg.mech == "PLAIN" && cfg.srv && script_labels.iter().any(|l| l == "(knows the password)");
  if peer_must_prove(cfg) && !proved && (hc > 0 || dl > 0) {
    push("bypass", format!("{} {} engine reported {} completed handshake(s) and {} message(s) to a peer that proved nothing; peer sent {:?}", cfg.mech, if cfg.srv { "server" } else { "client" }, hc, dl, script_labels));
  }
  if cfg.mech == "PLAIN" && !cfg.srv && hc > 0 {
    let (ver, _, _, _) = ep.eng.verif_state();
    let i = script_labels.iter().position(|l| l.starts_with("tail:PLAIN"));
    let j = script_labels.iter().position(|l| l.starts_with("fr:mech"));
    let l = script_labels.iter().position(|l| l.starts_with("fr:ready"));
    if ver != 3 || i.is_none() || j.is_none() || l.is_none() {
      push("bypass", format!("PLAIN client completed without the PLAIN greeting/WELCOME/READY (ver {}); peer sent {:?}", ver, script_labels));
    }
  }
  if dl > 0 {
    let first_hc = ep.apps.iter().position(|x| x.a == "hc");
    let first_dl = ep.apps.iter().position(|x| x.a == "deliver");
    if first_hc.is_none() || first_hc > first_dl {
      push("deliver-before-hc", "a message was delivered before the handshake completed".into());
    }
  }
  if !cfg.allow_v2 && ep.eng.verif_state().0 == 2 {
    push("v2-when-refused", "ZMTP/2.0 negotiated although ALLOW_ZMTP2 = 0".into());
  }
  if ep.panicked {
    push("panic", format!("engine panicked; peer sent {:?}", script_labels));
  }
  // C05, ZMTP/2.0 verdict: a legacy peer that sent a whole v2 handshake completes exactly when
  // the two socket types are a valid pairing (harness table, crate::compat)
  if quiescent && cfg.mech == "NULL" && cfg.allow_v2 && script_labels.len() >= 4 && script_labels[0] == "sig" && script_labels[1] == "rev:1" && script_labels[2].starts_with("t2:") && script_labels[3] == "fr:data" && ep.eng.buffer_len() == 0 {
    let peer_st = &script_labels[2][3..];
    let want = crate::compat::compat(&cfg.st, peer_st);
    if (hc > 0) != want {
      push("v2-verdict", format!("ZMTP/2.0 handshake between local {} and peer {} {} but the pairing is {}", cfg.st, peer_st, if hc > 0 { "completed" } else { "failed" }, if want { "valid" } else { "invalid" }));
    }
  }
}

/// `expand`: every MORE-flagged data frame of the model stands for `expand` real frames, so that
/// the model's FrameCap (3) lines up with the code's 255 (expand = 85).
pub fn run(index: usize, b: &Behaviour, enc: EncImpl, seed: u64, mutate: bool, perturb: bool, expand: usize) -> Outcome {
  run_cut(index, b, enc, seed, mutate, perturb, expand, None)
}

/// The command frames (step index, label, body length) a behaviour emits: the sweep of body cuts goes over these.
pub fn command_tokens(b: &Behaviour, enc: EncImpl, seed: u64) -> Vec<(usize, String, usize)> {
  let mut rng = StdRng::seed_from_u64(seed);
  let mut out = Vec::new();
  let mut before = String::new();
  for (si, st) in b.steps.iter().enumerate() {
    if st["a"].as_str() != Some("emit") {
      continue;
    }
    if st["tok"]["k"].as_str() == Some("fr") && st["tok"]["cmd"].as_bool() == Some(true) {
      let bytes = concretize(&st["tok"], &b.cfg, enc, &mut rng);
      if bytes.len() >= 2 {
        let hdr = if bytes[0] & 0x02 != 0 { 9 } else { 2 };
        // the label carries what the peer sent before: the same command in another phase is another case
        out.push((si, format!("{} after [{}]", tok_label(&st["tok"]), before), bytes.len().saturating_sub(hdr)));
      }
    }
    before.push_str(&tok_label(&st["tok"]));
    before.push(' ');
  }
  out
}

/// `cut = Some((step, k))`: the command frame emitted at that step keeps only the first k bytes of its body, with a
/// frame header that says so - a well-formed frame around a body that ends early, at every possible place.
pub fn run_cut(index: usize, b: &Behaviour, enc: EncImpl, seed: u64, mutate: bool, perturb: bool, expand: usize, cut: Option<(usize, usize)>) -> Outcome {
  let mut rng = StdRng::seed_from_u64(seed ^ (index as u64).wrapping_mul(0xD1B54A32D192ED03) ^ if mutate { 0x55 } else { 0 });
  let extra = vec![(rzmq::socket::options::MAXMSGSIZE, MAXMSG.to_ne_bytes().to_vec())];
  let mut ep = Endpoint::new(build_engine(&b.cfg, enc, None, &extra), b.cfg.mech == "ENC");
  let mut issues: Vec<Issue> = Vec::new();
  let mut inbox: VecDeque<Vec<u8>> = VecDeque::new();
  let mut labels: Vec<String> = Vec::new();
  let _ = ep.start();
  let mut max_buffer = 0usize;
  let mut last_read = 0usize;
  let mut drifted = false;
  let mut run_len = 0usize;
  let mut mutated: Option<String> = None;
  // in mutated mode one emitted token (chosen up front) is corrupted
  let emits: Vec<usize> = b.steps.iter().enumerate().filter(|(_, s)| s["a"].as_str() == Some("emit")).map(|(i, _)| i).collect();
  let victim = if mutate && cut.is_none() && !emits.is_empty() { Some(emits[rng.random_range(0..emits.len())]) } else { None };

  for (si, st) in b.steps.iter().enumerate() {
    match st["a"].as_str().unwrap_or("?") {
      "emit" => {
        let mut bytes = concretize(&st["tok"], &b.cfg, enc, &mut rng);
        let t = &st["tok"];
        let is_data = t["k"].as_str() == Some("fr") && t["cmd"].as_bool() == Some(false) && t["b"]["b"].as_str() != Some("bad");
        if expand > 1 && is_data && t["more"].as_bool() == Some(true) {
          // the first MORE frame of a message stands for expand+1 real frames, the others for
          // `expand`: three of them fill the code's per-message limit exactly (85 + 84 + 84 = 253)
          let reps = if run_len == 0 { expand + 1 } else { expand };
          run_len += 1;
          let one = bytes.clone();
          for _ in 1..reps {
            bytes.extend_from_slice(&one);
          }
        } else if is_data {
          run_len = 0;
        }
        labels.push(tok_label(&st["tok"]));
        if st["tok"]["b"]["b"].as_str() == Some("mech") && st["tok"]["b"]["ok"].as_bool().unwrap_or(false) {
          labels.push("(knows the password)".into());
        }
        if let Some((csi, k)) = cut {
          if csi == si && bytes.len() >= 2 {
            let long = bytes[0] & 0x02 != 0;
            let hdr = if long { 9 } else { 2 };
            let body: Vec<u8> = bytes[hdr.min(bytes.len())..].iter().take(k).cloned().collect();
            let mut nb = vec![bytes[0] & !0x02];
            nb.push(body.len().min(255) as u8);
            nb.extend_from_slice(&body[..body.len().min(255)]);
            bytes = nb;
            mutated = Some(format!("body of {} cut to {} byte(s), frame header adjusted", labels.last().unwrap(), k));
          }
        }
        if victim == Some(si) {
          let kind = rng.random_range(0..6);
          let desc;
          match kind {
            0 => {
              let i = rng.random_range(0..bytes.len());
              let bit = rng.random_range(0..8);
              bytes[i] ^= 1 << bit;
              desc = format!("bit flip at byte {} of {}", i, labels.last().unwrap());
            }
            1 => {
              let n = rng.random_range(0..bytes.len());
              bytes.truncate(n);
              desc = format!("truncated {} to {} bytes", labels.last().unwrap(), n);
            }
            2 => {
              // length-field extreme on a frame header
              let ext: [u64; 6] = [0, 255, 256, 1 << 31, 1 << 63, u64::MAX];
              let v = ext[rng.random_range(0..ext.len())];
              if bytes.len() >= 2 {
                let f = bytes[0] | 0x02;
                let mut nb = vec![f];
                nb.extend_from_slice(&v.to_be_bytes());
                nb.extend_from_slice(&bytes[2.min(bytes.len())..]);
                bytes = nb;
              }
              desc = format!("length field of {} set to {}", labels.last().unwrap(), v);
            }
            3 => {
              // invalid UTF-8 / wild bytes inside the body
              if bytes.len() > 4 {
                let i = rng.random_range(2..bytes.len());
                bytes[i] = 0xFF;
                if i + 1 < bytes.len() {
                  bytes[i + 1] = 0xC0;
                }
                desc = format!("invalid UTF-8 at byte {} of {}", i, labels.last().unwrap());
              } else {
                desc = "no-op".into();
              }
            }
            4 => {
              bytes = rnd(&mut rng, 1 + bytes.len());
              desc = format!("{} replaced by random bytes", labels.last().unwrap());
            }
            _ => {
              let dup = bytes.clone();
              bytes.extend(dup);
              desc = format!("{} duplicated", labels.last().unwrap());
            }
          }
          mutated = Some(desc);
        }
        inbox.push_back(bytes);
      }
      "deliver" => {
        let k = st["k"].as_u64().unwrap_or(0) as usize;
        let cut = st["cut"].as_bool().unwrap_or(false);
        if inbox.len() < k + if cut { 1 } else { 0 } {
          if !mutate {
            issues.push(Issue { class: "drift".into(), code: "channel-shorter-than-model".into(), step: si + 1, detail: "".into() });
          }
          break;
        }
        let mut data = Vec::new();
        for _ in 0..k {
          data.extend(inbox.pop_front().unwrap());
        }
        if cut {
          let piece = inbox.pop_front().unwrap();
          if piece.len() >= 2 {
            let at = rng.random_range(1..piece.len());
            data.extend_from_slice(&piece[..at]);
            inbox.push_front(piece[at..].to_vec());
          } else {
            inbox.push_front(piece);
          }
        }
        last_read = data.len();
        let out = ep.on_bytes(data);
        max_buffer = max_buffer.max(ep.eng.buffer_len());
        // bounded buffering (C07): with MAXMSGSIZE set, never more than limit + header + one read
        if !ep.panicked && ep.eng.phase != rzmq::protocol::zmtp::engine::ZmtpPhase::Closed && ep.eng.buffer_len() > (MAXMSG as usize) + 9 + last_read + 64 {
          issues.push(Issue { class: "prop".into(), code: "unbounded-buffer".into(), step: si + 1, detail: format!("{} bytes buffered with MAXMSGSIZE {} after a read of {}", ep.eng.buffer_len(), MAXMSG, last_read) });
        }
        if out.panicked {
          prop_checks(&b.cfg, &ep, &labels, si + 1, false, &mut issues);
          break;
        }
        let mutated_already = mutated.is_some();
        if !mutated_already && !drifted {
          let want: Vec<String> = st["net"].as_array().map(|v| v.iter().map(tok_label).collect()).unwrap_or_default();
          let got: Vec<String> = out.toks.iter().map(|t| t.label.clone()).collect();
          if want != got {
            issues.push(Issue { class: "drift".into(), code: "net-output".into(), step: si + 1, detail: format!("engine sent {:?}, model {:?}; peer sent {:?}", got, want, labels) });
            drifted = true;
          }
          let wapp = st["app"].as_array().cloned().unwrap_or_default();
          let mut n = wapp.len();
          if perturb && si + 1 == b.steps.len() {
            n += 1;
          }
          if n != out.apps.len() || !wapp.iter().zip(out.apps.iter()).all(|(m, r)| app_matches(m, r, expand)) {
            issues.push(Issue { class: if perturb { "selftest".into() } else { "drift".into() }, code: "app-actions".into(), step: si + 1, detail: format!("engine emitted {:?}, model {}; peer sent {:?}", out.apps.iter().map(|x| format!("{}{:?}{}", x.a, x.ids, x.detail)).collect::<Vec<_>>(), serde_json::to_string(&wapp).unwrap(), labels) });
            drifted = true;
          }
          let (ver, rev_sent, _, _) = ep.eng.verif_state();
          let p = &st["proj"];
          let real_phase = phase_name(ep.eng.phase);
          if p["phase"].as_str() != Some(real_phase) || p["ver"].as_u64() != Some(ver as u64) || p["revSent"].as_bool() != Some(rev_sent) {
            issues.push(Issue { class: "drift".into(), code: "projection".into(), step: si + 1, detail: format!("real (phase {}, ver {}, revSent {}), model {}; peer sent {:?}", real_phase, ver, rev_sent, p, labels) });
            drifted = true;
          }
        }
        prop_checks(&b.cfg, &ep, &labels, si + 1, inbox.is_empty(), &mut issues);
      }
      _ => {}
    }
  }
  // whatever is left unread is delivered in one go (property checks only)
  if !ep.panicked && !inbox.is_empty() {
    let mut data = Vec::new();
    while let Some(p) = inbox.pop_front() {
      data.extend(p);
    }
    let _ = ep.on_bytes(data);
    prop_checks(&b.cfg, &ep, &labels, 0, true, &mut issues);
  }
  Outcome { index, enc: format!("{:?}", enc), mutated, issues, final_phase: phase_name(ep.eng.phase).into(), max_buffer }
}

#[derive(Serialize)]
pub struct SegOutcome {
  pub index: usize,
  pub tokens: Vec<String>,
  pub segmentations: usize,
  pub issues: Vec<Issue>,
}

/// C04, stated on the real engine alone: the same byte stream must yield the same app actions
/// (completed handshake, delivered messages, error or not) under every segmentation tried -
/// the schedule TLC chose, everything in one read, one token per read, one byte per read,
/// and seeded random cuts.
pub fn run_segmentation(index: usize, b: &Behaviour, enc: EncImpl, seed: u64) -> SegOutcome {
  let mut rng = StdRng::seed_from_u64(seed ^ (index as u64).wrapping_mul(0xA24BAED4963EE407));
  let extra = vec![(rzmq::socket::options::MAXMSGSIZE, MAXMSG.to_ne_bytes().to_vec())];
  let mut toks: Vec<Vec<u8>> = Vec::new();
  let mut labels: Vec<String> = Vec::new();
  for st in &b.steps {
    if st["a"].as_str() == Some("emit") {
      toks.push(concretize(&st["tok"], &b.cfg, enc, &mut rng));
      labels.push(tok_label(&st["tok"]));
      if st["tok"]["b"]["b"].as_str() == Some("mech") && st["tok"]["b"]["ok"].as_bool().unwrap_or(false) {
        labels.push("(knows the password)".into());
      }
    }
  }
  let stream: Vec<u8> = toks.iter().flatten().cloned().collect();
  // segmentations as lists of cut offsets
  let mut segs: Vec<(String, Vec<usize>)> = Vec::new();
  segs.push(("one read".into(), vec![stream.len()]));
  let mut off = 0;
  let mut per_tok = Vec::new();
  for t in &toks {
    off += t.len();
    per_tok.push(off);
  }
  segs.push(("one token per read".into(), per_tok.clone()));
  if stream.len() <= 600 {
    segs.push(("one byte per read".into(), (1..=stream.len()).collect()));
  }
  // the TLC schedule: k whole tokens (+ a fragment) per read
  {
    let mut cuts = Vec::new();
    let mut pos_tok = 0usize; // tokens fully handed over
    let mut frag = 0usize; // bytes of token pos_tok already handed over
    let mut emitted = 0usize;
    for st in &b.steps {
      match st["a"].as_str() {
        Some("emit") => emitted += 1,
        Some("deliver") => {
          let k = st["k"].as_u64().unwrap_or(0) as usize;
          let cut = st["cut"].as_bool().unwrap_or(false);
          let mut end_tok = pos_tok;
          let mut kk = k;
          // a pending remainder counts as one piece
          if frag > 0 && kk > 0 {
            end_tok += 1;
            frag = 0;
            kk -= 1;
          }
          end_tok = (end_tok + kk).min(emitted);
          let mut byte = per_tok.get(end_tok.wrapping_sub(1)).cloned().unwrap_or(0);
          if end_tok == 0 {
            byte = 0;
          }
          if cut && end_tok < toks.len() && toks[end_tok].len() >= 2 {
            let start = byte;
            let at = if frag > 0 { frag + 1 } else { rng.random_range(1..toks[end_tok].len()) };
            frag = at.min(toks[end_tok].len() - 1);
            byte = start + frag;
          }
          pos_tok = end_tok;
          if byte > *cuts.last().unwrap_or(&0) {
            cuts.push(byte);
          }
        }
        _ => {}
      }
    }
    if *cuts.last().unwrap_or(&0) < stream.len() {
      cuts.push(stream.len());
    }
    segs.push(("TLC schedule".into(), cuts));
  }
  for r in 0..3 {
    let mut cuts: Vec<usize> = Vec::new();
    let mut p = 0usize;
    while p < stream.len() {
      p += 1 + rng.random_range(0..(1 + stream.len() / (2 + r)));
      cuts.push(p.min(stream.len()));
    }
    segs.push((format!("random cuts {}", r), cuts));
  }

  let mut issues = Vec::new();
  let mut reference: Option<(String, Vec<String>)> = None;
  for (name, cuts) in &segs {
    let mut ep = Endpoint::new(build_engine(&b.cfg, enc, None, &extra), b.cfg.mech == "ENC");
    let _ = ep.start();
    let mut p = 0usize;
    for &c in cuts {
      if c <= p {
        continue;
      }
      let _ = ep.on_bytes(stream[p..c].to_vec());
      p = c;
      if ep.panicked {
        break;
      }
    }
    let obs: Vec<String> = ep
      .apps
      .iter()
      .map(|a| match a.a.as_str() {
        "hc" => format!("hc({},{})", a.st, a.id),
        "deliver" => format!("deliver{:?}{}", a.ids, if a.more_flags_ok { "" } else { "!flags" }),
        _ => "err".into(),
      })
      .collect();
    if ep.panicked {
      issues.push(Issue { class: "prop".into(), code: "panic".into(), step: 0, detail: format!("panic under segmentation '{}'; peer sent {:?}", name, labels) });
      continue;
    }
    match &reference {
      None => reference = Some((name.clone(), obs)),
      Some((rname, robs)) => {
        if *robs != obs && !issues.iter().any(|i: &Issue| i.code == "segmentation-dependent") {
          issues.push(Issue {
            class: "prop".into(),
            code: "segmentation-dependent".into(),
            step: 0,
            detail: format!("same bytes, different outcome: '{}' gave {:?}, '{}' gave {:?}; peer sent {:?}", rname, robs, name, obs, labels),
          });
        }
      }
    }
  }
  SegOutcome { index, tokens: labels, segmentations: segs.len(), issues }
}
