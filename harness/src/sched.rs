//! Controlled scheduler (binding B2).
//!
//! Every logical task runs on its own OS thread under a tiny `block_on`.  The code under test
//! calls `rzmq::verif::point(name)` between its atomic steps; on a controlled thread that call
//! blocks until the controller grants the task one step.  A real `.await` that is not ready makes
//! the top-level poll return Pending: the thread reports Blocked and parks; its waker (the
//! standard `Waker`, which fibre's channels and tokio's sync primitives use) reports Runnable.
//! Exactly one task runs at any time, so the controller always knows the enabled set, can replay
//! a TLC schedule step by step, can tell "everybody is blocked" without a timeout, and can drop a
//! future at a chosen Pending poll (cancellation).
use std::future::Future;
use std::pin::Pin;
use std::sync::{Arc, Condvar, Mutex};
use std::task::{Context, Poll, RawWaker, RawWakerVTable, Waker};

#[derive(Clone, Copy, Debug, PartialEq, Eq)]
pub enum Status {
  Starting,
  AtPoint,
  Running,
  Blocked,
  Runnable,
  Done,
}

#[derive(Clone, Debug)]
pub struct TaskView {
  pub name: String,
  pub status: Status,
  /// the point the task is waiting at (AtPoint), or was last released from (Blocked/Runnable)
  pub point: &'static str,
  /// number of operations of its script the task has finished
  pub ops_done: usize,
}

struct Task {
  name: String,
  status: Status,
  point: &'static str,
  granted: bool,
  cancel: bool,
  woken: bool,
  ops_done: usize,
  /// step released and not yet known to have completed
  pending: Option<&'static str>,
}

#[derive(Clone, Debug)]
pub struct StepEvent {
  pub task: usize,
  pub label: &'static str,
}

struct State {
  abort: bool,
  tasks: Vec<Task>,
  /// completed steps, in completion order
  log: Vec<StepEvent>,
}

pub struct Inner {
  m: Mutex<State>,
  cv: Condvar,
  handles: Mutex<Vec<std::thread::JoinHandle<()>>>,
  /// Tokio runtime the task threads enter (needed when the code under test creates timers or
  /// spawns: real sockets). The controlled tasks are still polled by this module's block_on.
  rt: Mutex<Option<tokio::runtime::Handle>>,
}

#[derive(Clone)]
pub struct Controller {
  inner: Arc<Inner>,
}

/// What a task thread reports when one operation of its script ends.
pub enum OpEnd {
  Finished,
  Cancelled,
}

pub type BoxFut = Pin<Box<dyn Future<Output = ()> + Send>>;

fn lock(i: &Inner) -> std::sync::MutexGuard<'_, State> {
  i.m.lock().unwrap_or_else(|e| e.into_inner())
}

// ---- waker ------------------------------------------------------------------
struct WakeData {
  inner: Arc<Inner>,
  id: usize,
}
fn wake_impl(d: &WakeData) {
  let mut g = lock(&d.inner);
  let t = &mut g.tasks[d.id];
  t.woken = true;
  if t.status == Status::Blocked {
    t.status = Status::Runnable;
  }
  drop(g);
  d.inner.cv.notify_all();
}
unsafe fn w_clone(p: *const ()) -> RawWaker {
  let a = unsafe { Arc::from_raw(p as *const WakeData) };
  let b = a.clone();
  std::mem::forget(a);
  RawWaker::new(Arc::into_raw(b) as *const (), &VTABLE)
}
unsafe fn w_wake(p: *const ()) {
  let a = unsafe { Arc::from_raw(p as *const WakeData) };
  wake_impl(&a);
}
unsafe fn w_wake_by_ref(p: *const ()) {
  let a = unsafe { Arc::from_raw(p as *const WakeData) };
  wake_impl(&a);
  std::mem::forget(a);
}
unsafe fn w_drop(p: *const ()) {
  drop(unsafe { Arc::from_raw(p as *const WakeData) });
}
static VTABLE: RawWakerVTable = RawWakerVTable::new(w_clone, w_wake, w_wake_by_ref, w_drop);

impl Controller {
  pub fn new() -> Self {
    Self { inner: Arc::new(Inner { m: Mutex::new(State { abort: false, tasks: Vec::new(), log: Vec::new() }), cv: Condvar::new(), handles: Mutex::new(Vec::new()), rt: Mutex::new(None) }) }
  }

  pub fn set_runtime(&self, h: tokio::runtime::Handle) {
    *self.inner.rt.lock().unwrap() = Some(h);
  }

  /// Spawn a task whose script is a list of operations; each operation is a future factory.
  /// `on_end(op_index, OpEnd)` runs on the task thread after each operation.
  pub fn spawn(&self, name: &str, ops: Vec<Box<dyn FnOnce() -> BoxFut + Send>>, on_end: Box<dyn Fn(usize, OpEnd) + Send>) -> usize {
    let id = {
      let mut g = lock(&self.inner);
      g.tasks.push(Task { name: name.to_string(), status: Status::Starting, point: "", granted: false, cancel: false, woken: false, ops_done: 0, pending: None });
      g.tasks.len() - 1
    };
    let inner = self.inner.clone();
    let handle = std::thread::Builder::new()
      .name(format!("task-{}", name))
      .spawn(move || {
        let rt = inner.rt.lock().unwrap().clone();
        let _enter = rt.as_ref().map(|h| h.enter());
        let hook_inner = inner.clone();
        rzmq::verif::set_point_hook(Some(Arc::new(move |pname: &'static str| arrive(&hook_inner, id, pname))));
        for (oi, mk) in ops.into_iter().enumerate() {
          let mut fut = mk();
          let wd = Arc::new(WakeData { inner: inner.clone(), id });
          let waker = unsafe { Waker::from_raw(RawWaker::new(Arc::into_raw(wd) as *const (), &VTABLE)) };
          let mut cx = Context::from_waker(&waker);
          let end = loop {
            {
              let mut g = lock(&inner);
              g.tasks[id].woken = false;
            }
            match fut.as_mut().poll(&mut cx) {
              Poll::Ready(()) => break OpEnd::Finished,
              Poll::Pending => {
                let mut g = lock(&inner);
                {
                  let t = &mut g.tasks[id];
                  t.status = if t.woken { Status::Runnable } else { Status::Blocked };
                }
                inner.cv.notify_all();
                // wait for (Runnable and granted) or cancel
                loop {
                  if g.abort {
                    g.tasks[id].status = Status::Done;
                    drop(g);
                    inner.cv.notify_all();
                    return;
                  }
                  let t = &mut g.tasks[id];
                  if t.cancel {
                    break;
                  }
                  if t.granted {
                    break;
                  }
                  g = inner.cv.wait(g).unwrap_or_else(|e| e.into_inner());
                }
                let t = &mut g.tasks[id];
                if t.cancel {
                  t.cancel = false;
                  t.granted = false;
                  t.status = Status::Running;
                  drop(g);
                  break OpEnd::Cancelled;
                }
                t.granted = false;
                t.status = Status::Running;
              }
            }
          };
          drop(fut);
          let cancelled = matches!(end, OpEnd::Cancelled);
          on_end(oi, end);
          let mut g = lock(&inner);
          // the operation is over: whatever step was pending has completed (or was cancelled)
          if let Some(l) = g.tasks[id].pending.take() {
            if !cancelled {
              g.log.push(StepEvent { task: id, label: l });
            }
          }
          g.tasks[id].ops_done = oi + 1;
        }
        let mut g = lock(&inner);
        g.tasks[id].status = Status::Done;
        drop(g);
        inner.cv.notify_all();
      })
      .expect("spawn");
    self.inner.handles.lock().unwrap().push(handle);
    id
  }

  /// End of a run: let every task thread run off (points no longer block, a Pending poll ends
  /// the thread) and join them.
  pub fn shutdown(&self) {
    {
      let mut g = lock(&self.inner);
      g.abort = true;
    }
    self.inner.cv.notify_all();
    let hs: Vec<_> = std::mem::take(&mut *self.inner.handles.lock().unwrap());
    for h in hs {
      let _ = h.join();
    }
  }

  /// Wait until no task is running, return a view of all tasks.
  pub fn quiesce(&self) -> Vec<TaskView> {
    let mut g = lock(&self.inner);
    loop {
      if g.tasks.iter().all(|t| !matches!(t.status, Status::Running | Status::Starting)) {
        return g.tasks.iter().map(|t| TaskView { name: t.name.clone(), status: t.status, point: if t.status == Status::AtPoint { t.point } else { t.pending.unwrap_or("") }, ops_done: t.ops_done }).collect();
      }
      let (ng, to) = self.inner.cv.wait_timeout(g, std::time::Duration::from_secs(20)).unwrap_or_else(|e| e.into_inner());
      g = ng;
      if to.timed_out() {
        crate::util::tool_error("controlled scheduler: a task ran for 20 s without reaching a point (code under test spins or blocks the thread)");
      }
    }
  }

  /// Release one task for one step. The task must be AtPoint or Runnable.
  pub fn grant(&self, id: usize) {
    let mut g = lock(&self.inner);
    let t = &mut g.tasks[id];
    match t.status {
      Status::AtPoint => {
        t.pending = Some(t.point);
      }
      Status::Runnable => {}
      other => crate::util::tool_error(&format!("grant({}) in status {:?}", t.name, other)),
    }
    t.granted = true;
    t.status = Status::Running;
    drop(g);
    self.inner.cv.notify_all();
  }

  /// Drop the future of a Blocked / Runnable task (cancellation at this Pending poll).
  pub fn cancel(&self, id: usize) {
    let mut g = lock(&self.inner);
    let t = &mut g.tasks[id];
    if !matches!(t.status, Status::Blocked | Status::Runnable) {
      crate::util::tool_error(&format!("cancel({}) in status {:?}", t.name, t.status));
    }
    t.cancel = true;
    t.status = Status::Running;
    drop(g);
    self.inner.cv.notify_all();
  }

  pub fn take_log(&self) -> Vec<StepEvent> {
    let mut g = lock(&self.inner);
    std::mem::take(&mut g.log)
  }
  pub fn log_len(&self) -> usize {
    lock(&self.inner).log.len()
  }
}

/// Called on the task thread from `rzmq::verif::point`.
fn arrive(inner: &Arc<Inner>, id: usize, name: &'static str) {
  let mut g = lock(inner);
  if g.abort {
    return;
  }
  // arriving at a point completes the step released before
  if let Some(l) = g.tasks[id].pending.take() {
    g.log.push(StepEvent { task: id, label: l });
  }
  {
    let t = &mut g.tasks[id];
    t.status = Status::AtPoint;
    t.point = name;
  }
  inner.cv.notify_all();
  loop {
    if g.abort {
      return;
    }
    if g.tasks[id].granted {
      break;
    }
    g = inner.cv.wait(g).unwrap_or_else(|e| e.into_inner());
  }
  let t = &mut g.tasks[id];
  t.granted = false;
  t.status = Status::Running;
}
