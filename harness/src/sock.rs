//! B3 driver: a small scenario interpreter over the public rzmq API.
//!
//! A scenario (JSON) lists sockets with options and tasks with scripts of operations; the
//! interpreter runs it on a fresh Tokio runtime and records a history: one `call` record before
//! and one `ret` record after every API call (global sequence numbers from rzmq's own recorder,
//! so hook events emitted inside rzmq interleave correctly). The history is what the
//! property-level TLA+ specifications validate and what the Rust oracles read.
use bytes::Bytes;
use rzmq::socket::options as o;
use rzmq::{Context, Msg, MsgFlags, Socket, SocketType, ZmqError};
use serde::{Deserialize, Serialize};
use serde_json::{json, Value};
use std::collections::HashMap;
use std::future::Future;
use std::pin::Pin;
use std::sync::{Arc, Mutex};
use std::task::{Context as TaskCx, Poll};
use std::time::{Duration, Instant};
use tokio::io::{AsyncReadExt, AsyncWriteExt};

#[derive(Deserialize, Clone, Debug)]
pub struct SockSpec {
  pub name: String,
  #[serde(rename = "type")]
  pub ty: String,
  #[serde(default)]
  pub opts: Vec<Value>, // [id, kind, value]
  #[serde(default)]
  pub ctx: usize,
}

#[derive(Deserialize, Clone, Debug)]
pub struct TaskSpec {
  pub name: String,
  pub ops: Vec<Value>,
}

#[derive(Deserialize, Clone, Debug)]
pub struct Scenario {
  #[serde(default)]
  pub name: String,
  #[serde(default)]
  pub flavor: String, // "multi" (default) | "current"
  #[serde(default)]
  pub workers: usize,
  #[serde(default)]
  pub uring: bool,
  pub sockets: Vec<SockSpec>,
  pub tasks: Vec<TaskSpec>,
  #[serde(default)]
  pub deadline_ms: u64,
}

#[derive(Serialize, Clone, Debug)]
pub struct RunResult {
  pub name: String,
  pub records: Vec<Value>,
  pub hung: Vec<String>,
  pub panics: Vec<String>,
  pub wall_ms: u128,
}

pub fn socket_type(s: &str) -> SocketType {
  match s {
    "PUSH" => SocketType::Push,
    "PULL" => SocketType::Pull,
    "PUB" => SocketType::Pub,
    "SUB" => SocketType::Sub,
    "REQ" => SocketType::Req,
    "REP" => SocketType::Rep,
    "DEALER" => SocketType::Dealer,
    "ROUTER" => SocketType::Router,
    other => crate::util::tool_error(&format!("socket type {}", other)),
  }
}

pub fn opt_bytes(kind: &str, v: &Value) -> Vec<u8> {
  match kind {
    "i32" => (v.as_i64().unwrap_or(0) as i32).to_ne_bytes().to_vec(),
    "i64" => v.as_i64().unwrap_or(0).to_ne_bytes().to_vec(),
    "str" => v.as_str().unwrap_or("").as_bytes().to_vec(),
    "hex" => hex(v.as_str().unwrap_or("")),
    other => crate::util::tool_error(&format!("option kind {}", other)),
  }
}

pub fn hex(s: &str) -> Vec<u8> {
  let s: Vec<u8> = s.bytes().filter(|b| !b.is_ascii_whitespace()).collect();
  s.chunks(2).map(|c| u8::from_str_radix(std::str::from_utf8(c).unwrap_or("00"), 16).unwrap_or(0)).collect()
}

// ---- payloads ---------------------------------------------------------------
/// Payload of `size` bytes carrying `id`: "<id>|" then position-dependent fill.
pub fn payload(id: &str, size: usize) -> Vec<u8> {
  let mut v = Vec::with_capacity(size.max(id.len() + 1));
  v.extend_from_slice(id.as_bytes());
  v.push(b'|');
  let mut x: u32 = 2166136261;
  for b in id.bytes() {
    x = (x ^ b as u32).wrapping_mul(16777619);
  }
  while v.len() < size {
    x ^= x << 13;
    x ^= x >> 17;
    x ^= x << 5;
    v.push((x & 0xFF) as u8);
  }
  v
}
/// (id, intact)
pub fn parse_payload(data: &[u8]) -> (String, bool) {
  match data.iter().position(|&b| b == b'|') {
    Some(p) if p <= 64 => {
      let id = String::from_utf8_lossy(&data[..p]).to_string();
      let want = payload(&id, data.len());
      (id, want == data)
    }
    _ => (format!("?{}", rzmq::verif::hex_prefix(data, 8)), data.is_empty()),
  }
}

pub fn err_kind(e: &ZmqError) -> String {
  let s = format!("{:?}", e);
  let k = s.split(|c: char| c == '(' || c == '{' || c == ' ').next().unwrap_or("Err").to_string();
  k
}

// ---- poll-counting cancellation wrapper -------------------------------------
/// Polls `inner` until it has returned Pending `limit` times, then reports `None` (the caller
/// drops the future: cancellation at exactly that await point).
pub struct CancelAt<F> {
  inner: Pin<Box<F>>,
  pendings: usize,
  limit: usize,
}
impl<F: Future> CancelAt<F> {
  pub fn new(f: F, limit: usize) -> Self {
    Self { inner: Box::pin(f), pendings: 0, limit }
  }
}
impl<F: Future> Future for CancelAt<F> {
  type Output = Option<F::Output>;
  fn poll(mut self: Pin<&mut Self>, cx: &mut TaskCx<'_>) -> Poll<Self::Output> {
    if self.pendings >= self.limit {
      return Poll::Ready(None);
    }
    match self.inner.as_mut().poll(cx) {
      Poll::Ready(v) => Poll::Ready(Some(v)),
      Poll::Pending => {
        self.pendings += 1;
        if self.pendings >= self.limit {
          // ask to be polled again so that the cancellation is observed promptly
          cx.waker().wake_by_ref();
        }
        Poll::Pending
      }
    }
  }
}

// ---- interpreter ------------------------------------------------------------
struct Env {
  ctxs: Vec<Context>,
  socks: Mutex<HashMap<String, Socket>>,
  vars: Mutex<HashMap<String, String>>,
  barriers: Mutex<HashMap<String, Arc<tokio::sync::Barrier>>>,
  raws: tokio::sync::Mutex<HashMap<String, tokio::net::TcpStream>>,
  raw_unix: tokio::sync::Mutex<HashMap<String, tokio::net::UnixStream>>,
  listeners: tokio::sync::Mutex<HashMap<String, tokio::net::TcpListener>>,
  monitors: tokio::sync::Mutex<HashMap<String, rzmq::socket::MonitorReceiver>>,
  t0: Instant,
  inflight: Mutex<HashMap<String, String>>,
}

fn rec(task: &str, ev: &str, body: String) {
  let b = if body.is_empty() { format!("\"task\":\"{}\"", task) } else { format!("\"task\":\"{}\",{}", task, body) };
  rzmq::verif::event(ev, &b);
}

fn socket2_linger0(s: std::net::TcpStream) -> std::net::TcpStream {
  // SO_LINGER {on, 0}: closing sends RST
  use std::os::fd::AsRawFd;
  let l = libc::linger { l_onoff: 1, l_linger: 0 };
  unsafe {
    libc::setsockopt(s.as_raw_fd(), libc::SOL_SOCKET, libc::SO_LINGER, &l as *const _ as *const libc::c_void, std::mem::size_of::<libc::linger>() as libc::socklen_t);
  }
  s
}

fn subst(env: &Env, s: &str) -> String {
  if let Some(name) = s.strip_prefix('$') {
    env.vars.lock().unwrap().get(name).cloned().unwrap_or_else(|| s.to_string())
  } else {
    s.to_string()
  }
}

fn ms(_env: &Env) -> u128 {
  // the clock the hook events inside rzmq use
  rzmq::verif::elapsed_ms()
}

/// endpoint and peer address of a monitor event, as JSON fields (monitor conformance, Monitor.tla)
fn ev_detail(ev: &rzmq::socket::SocketEvent) -> String {
  use rzmq::socket::SocketEvent as E;
  let (ep, peer) = match ev {
    E::Listening { endpoint } | E::Closed { endpoint } | E::Disconnected { endpoint } | E::HandshakeSucceeded { endpoint }
    | E::ConnectionCongested { endpoint } | E::ConnectionUncongested { endpoint } => (endpoint.clone(), String::new()),
    E::BindFailed { endpoint, .. } | E::AcceptFailed { endpoint, .. } | E::ConnectDelayed { endpoint, .. } | E::ConnectFailed { endpoint, .. }
    | E::HandshakeFailed { endpoint, .. } | E::ConnectRetried { endpoint, .. } => (endpoint.clone(), String::new()),
    E::Accepted { endpoint, peer_addr } | E::Connected { endpoint, peer_addr } => (endpoint.clone(), peer_addr.clone()),
    _ => (String::new(), String::new()),
  };
  let clean = |x: String| x.replace('\\', "/").replace('"', "'");
  format!("\"endpoint\":\"{}\",\"peer\":\"{}\"", clean(ep), clean(peer))
}

fn res_str<T>(r: &Result<T, ZmqError>) -> String {
  match r {
    Ok(_) => "ok".into(),
    Err(e) => format!("err:{}", err_kind(e)),
  }
}

fn mk_msg(id: &str, size: usize, more: bool) -> Msg {
  // size 0 asks for an empty frame (no id inside)
  let mut m = if size == 0 { Msg::from_vec(Vec::new()) } else { Msg::from_vec(payload(id, size)) };
  if more {
    m.set_flags(MsgFlags::MORE);
  }
  m
}

fn describe_frames(frames: &[Msg]) -> (Vec<String>, bool, Vec<usize>, Vec<bool>) {
  let mut ids = Vec::new();
  let mut intact = true;
  let mut sizes = Vec::new();
  let mut mores = Vec::new();
  for f in frames {
    let d = f.data().unwrap_or(&[]);
    let (id, ok) = parse_payload(d);
    ids.push(id);
    intact &= ok;
    sizes.push(d.len());
    mores.push(f.is_more());
  }
  (ids, intact, sizes, mores)
}

async fn with_timeout<T, F: Future<Output = Result<T, ZmqError>>>(ms_: u64, f: F) -> Result<T, ZmqError> {
  if ms_ == 0 {
    return f.await;
  }
  match tokio::time::timeout(Duration::from_millis(ms_), f).await {
    Ok(r) => r,
    Err(_) => Err(ZmqError::Timeout),
  }
}

async fn run_op(env: Arc<Env>, task: String, op: Value) {
  let name = op["op"].as_str().unwrap_or("?").to_string();
  let sname = op["sock"].as_str().unwrap_or("").to_string();
  let sock = env.socks.lock().unwrap().get(&sname).cloned();
  env.inflight.lock().unwrap().insert(task.clone(), format!("{} {}", name, sname));
  let tmo = op["timeout_ms"].as_u64().unwrap_or(0);
  match name.as_str() {
    "bind" | "connect" | "disconnect" | "unbind" => {
      let s = sock.expect("sock");
      let ep = subst(&env, op["ep"].as_str().unwrap_or(""));
      rec(&task, "call", format!("\"op\":\"{}\",\"sock\":\"{}\",\"ep\":\"{}\",\"t\":{}", name, sname, ep, ms(&env)));
      let t1 = Instant::now();
      let r = match name.as_str() {
        "bind" => s.bind(&ep).await,
        "connect" => s.connect(&ep).await,
        "disconnect" => s.disconnect(&ep).await,
        _ => s.unbind(&ep).await,
      };
      let mut actual = ep.clone();
      if name == "bind" && r.is_ok() {
        if let Ok(v) = s.get_option(o::LAST_ENDPOINT).await {
          actual = String::from_utf8_lossy(&v).trim_end_matches('\0').to_string();
        }
        if let Some(save) = op["save"].as_str() {
          env.vars.lock().unwrap().insert(save.to_string(), actual.clone());
        }
      }
      rec(&task, "ret", format!("\"op\":\"{}\",\"sock\":\"{}\",\"res\":\"{}\",\"ep\":\"{}\",\"dur\":{},\"t\":{}", name, sname, res_str(&r), actual, t1.elapsed().as_millis(), ms(&env)));
    }
    "opt" => {
      let s = sock.expect("sock");
      let id = op["id"].as_i64().unwrap_or(0) as i32;
      rec(&task, "call", format!("\"op\":\"opt\",\"sock\":\"{}\",\"id\":{},\"t\":{}", sname, id, ms(&env)));
      let t1 = Instant::now();
      let r = s.set_option_raw(id, &opt_bytes(op["kind"].as_str().unwrap_or("i32"), &op["value"])).await;
      rec(&task, "ret", format!("\"op\":\"opt\",\"sock\":\"{}\",\"id\":{},\"res\":\"{}\",\"dur\":{},\"t\":{}", sname, id, res_str(&r), t1.elapsed().as_millis(), ms(&env)));
    }
    "getopt" => {
      let s = sock.expect("sock");
      let id = op["id"].as_i64().unwrap_or(0) as i32;
      rec(&task, "call", format!("\"op\":\"getopt\",\"sock\":\"{}\",\"id\":{},\"t\":{}", sname, id, ms(&env)));
      let t1 = Instant::now();
      let r = s.get_option(id).await;
      rec(&task, "ret", format!("\"op\":\"getopt\",\"sock\":\"{}\",\"id\":{},\"res\":\"{}\",\"dur\":{},\"t\":{}", sname, id, res_str(&r), t1.elapsed().as_millis(), ms(&env)));
    }
    "new_socket" => {
      // create a socket now (e.g. in a context that has been terminated)
      let ci = op["ctx"].as_u64().unwrap_or(0) as usize;
      let ty = op["type"].as_str().unwrap_or("PUSH").to_string();
      rec(&task, "call", format!("\"op\":\"new_socket\",\"sock\":\"{}\",\"ctx\":{},\"t\":{}", sname, ci, ms(&env)));
      let t1 = Instant::now();
      let r = env.ctxs[ci].socket(socket_type(&ty));
      let rs = res_str(&r);
      if let Ok(so) = r {
        env.socks.lock().unwrap().insert(sname.clone(), so);
      }
      rec(&task, "ret", format!("\"op\":\"new_socket\",\"sock\":\"{}\",\"ctx\":{},\"res\":\"{}\",\"dur\":{},\"t\":{}", sname, ci, rs, t1.elapsed().as_millis(), ms(&env)));
    }
    "send" => {
      let s = sock.expect("sock");
      let mid = op["mid"].as_str().unwrap_or("?").to_string();
      let size = op["size"].as_u64().unwrap_or(16) as usize;
      let more = op["more"].as_bool().unwrap_or(false);
      let cancel = op["cancel_after_polls"].as_u64();
      rec(&task, "call", format!("\"op\":\"send\",\"sock\":\"{}\",\"mid\":\"{}\",\"size\":{},\"more\":{},\"t\":{}", sname, mid, size, more, ms(&env)));
      let t1 = Instant::now();
      let res = match cancel {
        Some(n) => match tokio::time::timeout(Duration::from_millis(if tmo == 0 { 400 } else { tmo }), CancelAt::new(s.send(mk_msg(&mid, size, more)), n as usize)).await {
          Ok(Some(r)) => res_str(&r),
          // dropped at the k-th Pending - or still parked at an earlier one when the bound ran out
          Ok(None) | Err(_) => "cancelled".to_string(),
        },
        None => res_str(&with_timeout(tmo, s.send(mk_msg(&mid, size, more))).await),
      };
      rec(&task, "ret", format!("\"op\":\"send\",\"sock\":\"{}\",\"mid\":\"{}\",\"res\":\"{}\",\"dur\":{},\"t\":{}", sname, mid, res, t1.elapsed().as_millis(), ms(&env)));
    }
    "send_mp" => {
      let s = sock.expect("sock");
      let mid = op["mid"].as_str().unwrap_or("?").to_string();
      let sizes: Vec<usize> = op["sizes"].as_array().map(|a| a.iter().map(|x| x.as_u64().unwrap_or(0) as usize).collect()).unwrap_or_default();
      let set_more = op["set_more"].as_bool().unwrap_or(true);
      let prefix: Vec<Vec<u8>> = op["prefix_hex"].as_array().map(|a| a.iter().map(|x| hex(x.as_str().unwrap_or(""))).collect()).unwrap_or_default();
      let n = sizes.len();
      let mut frames: Vec<Msg> = Vec::new();
      for p in &prefix {
        let mut m = Msg::from_vec(p.clone());
        if set_more {
          m.set_flags(MsgFlags::MORE);
        }
        frames.push(m);
      }
      for (i, sz) in sizes.iter().enumerate() {
        let fid = format!("{}.{}", mid, i + 1);
        let mut m = if *sz == 0 { Msg::from_vec(Vec::new()) } else { Msg::from_vec(payload(&fid, *sz)) };
        if set_more && i + 1 < n {
          m.set_flags(MsgFlags::MORE);
        }
        frames.push(m);
      }
      let cancel = op["cancel_after_polls"].as_u64();
      rec(&task, "call", format!("\"op\":\"send_mp\",\"sock\":\"{}\",\"mid\":\"{}\",\"sizes\":{:?},\"t\":{}", sname, mid, sizes, ms(&env)));
      let t1 = Instant::now();
      let res = {
        let fut = async {
          // a panic inside the API call is data for the properties, not a harness failure
          s.send_multipart(frames).await
        };
        match cancel {
          Some(k) => match tokio::time::timeout(Duration::from_millis(if tmo == 0 { 400 } else { tmo }), CancelAt::new(fut, k as usize)).await {
            Ok(Some(r)) => res_str(&r),
            Ok(None) | Err(_) => "cancelled".to_string(),
          },
          None => res_str(&with_timeout(tmo, fut).await),
        }
      };
      rec(&task, "ret", format!("\"op\":\"send_mp\",\"sock\":\"{}\",\"mid\":\"{}\",\"res\":\"{}\",\"dur\":{},\"t\":{}", sname, mid, res, t1.elapsed().as_millis(), ms(&env)));
    }
    "recv" => {
      let s = sock.expect("sock");
      let cancel = op["cancel_after_polls"].as_u64();
      rec(&task, "call", format!("\"op\":\"recv\",\"sock\":\"{}\",\"t\":{}", sname, ms(&env)));
      let t1 = Instant::now();
      let r: Option<Result<Msg, ZmqError>> = match cancel {
        Some(k) => tokio::time::timeout(Duration::from_millis(if tmo == 0 { 400 } else { tmo }), CancelAt::new(s.recv(), k as usize)).await.unwrap_or(None),
        None => Some(with_timeout(tmo, s.recv()).await),
      };
      match r {
        None => rec(&task, "ret", format!("\"op\":\"recv\",\"sock\":\"{}\",\"res\":\"cancelled\",\"dur\":{},\"t\":{}", sname, t1.elapsed().as_millis(), ms(&env))),
        Some(Ok(m)) => {
          let d = m.data().unwrap_or(&[]);
          let (id, ok) = parse_payload(d);
          rec(&task, "ret", format!("\"op\":\"recv\",\"sock\":\"{}\",\"res\":\"ok\",\"mid\":\"{}\",\"intact\":{},\"size\":{},\"more\":{},\"hex\":\"{}\",\"dur\":{},\"t\":{}", sname, id, ok, d.len(), m.is_more(), rzmq::verif::hex_prefix(d, 12), t1.elapsed().as_millis(), ms(&env)));
        }
        Some(Err(e)) => rec(&task, "ret", format!("\"op\":\"recv\",\"sock\":\"{}\",\"res\":\"err:{}\",\"dur\":{},\"t\":{}", sname, err_kind(&e), t1.elapsed().as_millis(), ms(&env))),
      }
    }
    "recv_mp" => {
      let s = sock.expect("sock");
      let cancel = op["cancel_after_polls"].as_u64();
      rec(&task, "call", format!("\"op\":\"recv_mp\",\"sock\":\"{}\",\"t\":{}", sname, ms(&env)));
      let t1 = Instant::now();
      let r: Option<Result<Vec<Msg>, ZmqError>> = match cancel {
        Some(k) => tokio::time::timeout(Duration::from_millis(if tmo == 0 { 400 } else { tmo }), CancelAt::new(s.recv_multipart(), k as usize)).await.unwrap_or(None),
        None => Some(with_timeout(tmo, s.recv_multipart()).await),
      };
      match r {
        None => rec(&task, "ret", format!("\"op\":\"recv_mp\",\"sock\":\"{}\",\"res\":\"cancelled\",\"t\":{}", sname, ms(&env))),
        Some(Ok(fr)) => {
          let (ids, ok, sizes, mores) = describe_frames(&fr);
          let first_hex = fr.first().map(|f| rzmq::verif::hex_prefix(f.data().unwrap_or(&[]), 300)).unwrap_or_default();
          rec(&task, "ret", format!("\"op\":\"recv_mp\",\"sock\":\"{}\",\"res\":\"ok\",\"ids\":{:?},\"intact\":{},\"sizes\":{:?},\"mores\":{:?},\"hex\":\"{}\",\"dur\":{},\"t\":{}", sname, ids, ok, sizes, mores, first_hex, t1.elapsed().as_millis(), ms(&env)));
        }
        Some(Err(e)) => rec(&task, "ret", format!("\"op\":\"recv_mp\",\"sock\":\"{}\",\"res\":\"err:{}\",\"dur\":{},\"t\":{}", sname, err_kind(&e), t1.elapsed().as_millis(), ms(&env))),
      }
    }
    // bulk forms: one record per message, no per-message call record
    "send_n" => {
      let s = sock.expect("sock");
      let prefix = op["prefix"].as_str().unwrap_or("m").to_string();
      let n = op["n"].as_u64().unwrap_or(1);
      let sizes: Vec<usize> = op["sizes"].as_array().map(|a| a.iter().map(|x| x.as_u64().unwrap_or(16) as usize).collect()).unwrap_or_else(|| vec![16]);
      let pace_us = op["pace_us"].as_u64().unwrap_or(0);
      let stop_on_err = op["stop_on_err"].as_bool().unwrap_or(false);
      let max_errs = op["max_errs"].as_u64().unwrap_or(u64::MAX);
      let mut errs = 0u64;
      for i in 1..=n {
        let mid = format!("{}:{}", prefix, i);
        let size = sizes[((i - 1) as usize) % sizes.len()];
        rec(&task, "call", format!("\"op\":\"send\",\"sock\":\"{}\",\"mid\":\"{}\",\"size\":{},\"t\":{}", sname, mid, size, ms(&env)));
        let t1 = Instant::now();
        let r = with_timeout(tmo, s.send(mk_msg(&mid, size, false))).await;
        rec(&task, "ret", format!("\"op\":\"send\",\"sock\":\"{}\",\"mid\":\"{}\",\"res\":\"{}\",\"dur\":{},\"t\":{}", sname, mid, res_str(&r), t1.elapsed().as_millis(), ms(&env)));
        if r.is_err() {
          errs += 1;
          if stop_on_err || errs >= max_errs {
            break;
          }
        }
        if pace_us > 0 {
          tokio::time::sleep(Duration::from_micros(pace_us)).await;
        }
      }
    }
    "recv_n" => {
      let s = sock.expect("sock");
      let n = op["n"].as_u64().unwrap_or(1);
      let pace_us = op["pace_us"].as_u64().unwrap_or(0);
      let mp = op["multipart"].as_bool().unwrap_or(false);
      for _ in 0..n {
        let t1 = Instant::now();
        rec(&task, "call", format!("\"op\":\"{}\",\"sock\":\"{}\",\"t\":{}", if mp { "recv_mp" } else { "recv" }, sname, ms(&env)));
        if mp {
          match with_timeout(tmo, s.recv_multipart()).await {
            Ok(fr) => {
              let (ids, ok, sizes, mores) = describe_frames(&fr);
              rec(&task, "ret", format!("\"op\":\"recv_mp\",\"sock\":\"{}\",\"res\":\"ok\",\"ids\":{:?},\"intact\":{},\"sizes\":{:?},\"mores\":{:?},\"dur\":{},\"t\":{}", sname, ids, ok, sizes, mores, t1.elapsed().as_millis(), ms(&env)));
            }
            Err(e) => {
              rec(&task, "ret", format!("\"op\":\"recv_mp\",\"sock\":\"{}\",\"res\":\"err:{}\",\"dur\":{},\"t\":{}", sname, err_kind(&e), t1.elapsed().as_millis(), ms(&env)));
              break;
            }
          }
        } else {
          match with_timeout(tmo, s.recv()).await {
            Ok(m) => {
              let d = m.data().unwrap_or(&[]);
              let (id, ok) = parse_payload(d);
              rec(&task, "ret", format!("\"op\":\"recv\",\"sock\":\"{}\",\"res\":\"ok\",\"mid\":\"{}\",\"intact\":{},\"size\":{},\"more\":{},\"dur\":{},\"t\":{}", sname, id, ok, d.len(), m.is_more(), t1.elapsed().as_millis(), ms(&env)));
            }
            Err(e) => {
              rec(&task, "ret", format!("\"op\":\"recv\",\"sock\":\"{}\",\"res\":\"err:{}\",\"dur\":{},\"t\":{}", sname, err_kind(&e), t1.elapsed().as_millis(), ms(&env)));
              break;
            }
          }
        }
        if pace_us > 0 {
          tokio::time::sleep(Duration::from_micros(pace_us)).await;
        }
      }
    }
    "poll_n" => {
      // a receiver that polls: recv_multipart() in a loop on a socket with RCVTIMEO=0 (would-block
      // answers are not recorded) until n messages have come or `for_ms` has passed
      let s = sock.expect("sock");
      let n = op["n"].as_u64().unwrap_or(1);
      let for_ms = op["for_ms"].as_u64().unwrap_or(3000);
      let t0 = Instant::now();
      let mut got = 0u64;
      let mut polls = 0u64;
      while got < n && (t0.elapsed().as_millis() as u64) < for_ms {
        polls += 1;
        match with_timeout(tmo, s.recv_multipart()).await {
          Ok(fr) => {
            got += 1;
            let (ids, ok, sizes, mores) = describe_frames(&fr);
            let first_hex = fr.first().map(|f| rzmq::verif::hex_prefix(f.data().unwrap_or(&[]), 300)).unwrap_or_default();
            rec(&task, "ret", format!("\"op\":\"recv_mp\",\"sock\":\"{}\",\"res\":\"ok\",\"ids\":{:?},\"intact\":{},\"sizes\":{:?},\"mores\":{:?},\"hex\":\"{}\",\"t\":{}", sname, ids, ok, sizes, mores, first_hex, ms(&env)));
          }
          Err(_) => tokio::task::yield_now().await,
        }
      }
      rec(&task, "mark", format!("\"op\":\"poll_n\",\"sock\":\"{}\",\"got\":{},\"polls\":{},\"t\":{}", sname, got, polls, ms(&env)));
    }
    "echo_n" => {
      // ROUTER-style echo: receive a multipart message and send the very same frames back
      // (first frame = identity of the connection it came from). One record per message.
      let s = sock.expect("sock");
      let n = op["n"].as_u64().unwrap_or(1);
      for _ in 0..n {
        match with_timeout(tmo, s.recv_multipart()).await {
          Ok(fr) => {
            let (ids, ok, sizes, mores) = describe_frames(&fr);
            let first_hex = fr.first().map(|f| rzmq::verif::hex_prefix(f.data().unwrap_or(&[]), 300)).unwrap_or_default();
            rec(&task, "ret", format!("\"op\":\"recv_mp\",\"sock\":\"{}\",\"res\":\"ok\",\"ids\":{:?},\"intact\":{},\"sizes\":{:?},\"mores\":{:?},\"hex\":\"{}\",\"t\":{}", sname, ids, ok, sizes, mores, first_hex, ms(&env)));
            let n_fr = fr.len();
            let mut back: Vec<Msg> = Vec::new();
            for (i, f) in fr.into_iter().enumerate() {
              let mut m = Msg::from_vec(f.data().unwrap_or(&[]).to_vec());
              if i + 1 < n_fr {
                m.set_flags(MsgFlags::MORE);
              }
              back.push(m);
            }
            let r = with_timeout(tmo, s.send_multipart(back)).await;
            rec(&task, "ret", format!("\"op\":\"send_mp\",\"sock\":\"{}\",\"mid\":\"echo\",\"to\":\"{}\",\"res\":\"{}\",\"t\":{}", sname, first_hex, res_str(&r), ms(&env)));
          }
          Err(e) => {
            rec(&task, "ret", format!("\"op\":\"recv_mp\",\"sock\":\"{}\",\"res\":\"err:{}\",\"t\":{}", sname, err_kind(&e), ms(&env)));
            break;
          }
        }
      }
    }
    "close" => {
      let s = sock.expect("sock");
      rec(&task, "call", format!("\"op\":\"close\",\"sock\":\"{}\",\"t\":{}", sname, ms(&env)));
      let t1 = Instant::now();
      let r = with_timeout(tmo, s.close()).await;
      rec(&task, "ret", format!("\"op\":\"close\",\"sock\":\"{}\",\"res\":\"{}\",\"dur\":{},\"t\":{}", sname, res_str(&r), t1.elapsed().as_millis(), ms(&env)));
    }
    "drop" => {
      // the application lets go of its last handle without calling close()
      drop(sock);
      rec(&task, "call", format!("\"op\":\"drop\",\"sock\":\"{}\",\"t\":{}", sname, ms(&env)));
      let gone = env.socks.lock().unwrap().remove(&sname);
      drop(gone);
      rec(&task, "ret", format!("\"op\":\"drop\",\"sock\":\"{}\",\"res\":\"ok\",\"dur\":0,\"t\":{}", sname, ms(&env)));
    }
    "term" => {
      let ci = op["ctx"].as_u64().unwrap_or(0) as usize;
      rec(&task, "call", format!("\"op\":\"term\",\"ctx\":{},\"t\":{}", ci, ms(&env)));
      let t1 = Instant::now();
      let r = with_timeout(tmo, env.ctxs[ci].term()).await;
      rec(&task, "ret", format!("\"op\":\"term\",\"ctx\":{},\"res\":\"{}\",\"dur\":{},\"t\":{}", ci, res_str(&r), t1.elapsed().as_millis(), ms(&env)));
    }
    "sleep" => {
      tokio::time::sleep(Duration::from_millis(op["ms"].as_u64().unwrap_or(1))).await;
    }
    "barrier" => {
      let bname = op["name"].as_str().unwrap_or("b").to_string();
      let parties = op["parties"].as_u64().unwrap_or(2) as usize;
      let b = { env.barriers.lock().unwrap().entry(bname).or_insert_with(|| Arc::new(tokio::sync::Barrier::new(parties))).clone() };
      b.wait().await;
    }
    "mark" => {
      rec(&task, "mark", format!("\"name\":\"{}\",\"t\":{}", op["name"].as_str().unwrap_or(""), ms(&env)));
    }
    "monitor" => {
      let s = sock.expect("sock");
      rec(&task, "call", format!("\"op\":\"monitor\",\"sock\":\"{}\",\"t\":{}", sname, ms(&env)));
      let t1 = Instant::now();
      let r = s.monitor_default().await;
      let rs = res_str(&r);
      if let Ok(m) = r {
        env.monitors.lock().await.insert(sname.clone(), m);
      }
      rec(&task, "ret", format!("\"op\":\"monitor\",\"sock\":\"{}\",\"res\":\"{}\",\"dur\":{},\"t\":{}", sname, rs, t1.elapsed().as_millis(), ms(&env)));
    }
    "wait_event" => {
      // waits until the socket's monitor reports an event whose Debug text contains `kind`
      let kind = op["kind"].as_str().unwrap_or("").to_string();
      let deadline = Instant::now() + Duration::from_millis(if tmo == 0 { 5000 } else { tmo });
      let mut seen = false;
      let mut mons = env.monitors.lock().await;
      if let Some(m) = mons.get_mut(&sname) {
        while Instant::now() < deadline {
          match tokio::time::timeout(deadline - Instant::now(), m.recv()).await {
            Ok(Ok(ev)) => {
              let txt = format!("{:?}", ev);
              rec(&task, "event", format!("\"sock\":\"{}\",\"event\":\"{}\",{},\"t\":{}", sname, txt.split(|c: char| c == ' ' || c == '{').next().unwrap_or(""), ev_detail(&ev), ms(&env)));
              if txt.contains(&kind) {
                seen = true;
                break;
              }
            }
            _ => break,
          }
        }
      }
      rec(&task, "ret", format!("\"op\":\"wait_event\",\"sock\":\"{}\",\"kind\":\"{}\",\"res\":\"{}\",\"t\":{}", sname, kind, if seen { "ok" } else { "err:Timeout" }, ms(&env)));
    }
    "drain_events" => {
      let mut mons = env.monitors.lock().await;
      let max_events = op["max_events"].as_u64().unwrap_or(u64::MAX);
      let mut seen = 0u64;
      if let Some(m) = mons.get_mut(&sname) {
        while let Ok(Ok(ev)) = tokio::time::timeout(Duration::from_millis(if tmo == 0 { 50 } else { tmo }), m.recv()).await {
          seen += 1;
          if seen > max_events {
            break;
          }
          let txt = format!("{:?}", ev);
          let ivl = if let rzmq::socket::SocketEvent::ConnectRetried { interval, .. } = &ev { interval.as_millis() as i64 } else { -1 };
          rec(&task, "event", format!("\"sock\":\"{}\",\"event\":\"{}\",\"interval_ms\":{},{},\"t\":{}", sname, txt.split(|c: char| c == ' ' || c == '{').next().unwrap_or(""), ivl, ev_detail(&ev), ms(&env)));
        }
      }
    }
    // ---- raw TCP peer -----------------------------------------------------
    "raw_connect" => {
      let rn = op["raw"].as_str().unwrap_or("r").to_string();
      let ep = subst(&env, op["ep"].as_str().unwrap_or(""));
      let addr = ep.trim_start_matches("tcp://").to_string();
      let r = tokio::net::TcpStream::connect(&addr).await;
      match r {
        Ok(st) => {
          let _ = st.set_nodelay(true);
          env.raws.lock().await.insert(rn.clone(), st);
          rec(&task, "ret", format!("\"op\":\"raw_connect\",\"raw\":\"{}\",\"res\":\"ok\",\"t\":{}", rn, ms(&env)));
        }
        Err(e) => rec(&task, "ret", format!("\"op\":\"raw_connect\",\"raw\":\"{}\",\"res\":\"err:{:?}\",\"t\":{}", rn, e.kind(), ms(&env))),
      }
    }
    "raw_listen" => {
      let rn = op["raw"].as_str().unwrap_or("l").to_string();
      let l = tokio::net::TcpListener::bind("127.0.0.1:0").await.expect("listen");
      let addr = l.local_addr().unwrap();
      if let Some(save) = op["save"].as_str() {
        env.vars.lock().unwrap().insert(save.to_string(), format!("tcp://{}", addr));
      }
      env.listeners.lock().await.insert(rn, l);
    }
    "raw_accept" => {
      let rn = op["raw"].as_str().unwrap_or("r").to_string();
      let ln = op["listener"].as_str().unwrap_or("l").to_string();
      let ls = env.listeners.lock().await;
      let res = if let Some(l) = ls.get(&ln) {
        match tokio::time::timeout(Duration::from_millis(if tmo == 0 { 5000 } else { tmo }), l.accept()).await {
          Ok(Ok((st, _))) => {
            let _ = st.set_nodelay(true);
            env.raws.lock().await.insert(rn.clone(), st);
            "ok".to_string()
          }
          _ => "err:Timeout".to_string(),
        }
      } else {
        "err:NoListener".into()
      };
      rec(&task, "ret", format!("\"op\":\"raw_accept\",\"raw\":\"{}\",\"res\":\"{}\",\"t\":{}", rn, res, ms(&env)));
    }
    "raw_accept_loop" => {
      // accept up to n connections (until nothing comes for timeout_ms), note when each arrived,
      // and get rid of it: "close" (FIN), "rst" (SO_LINGER 0) or "hold" (kept open, silent)
      let ln = op["listener"].as_str().unwrap_or("l").to_string();
      let n = op["n"].as_u64().unwrap_or(5);
      let mode = op["mode"].as_str().unwrap_or("close").to_string();
      let idle = Duration::from_millis(if tmo == 0 { 5000 } else { tmo });
      let ls = env.listeners.lock().await;
      if let Some(l) = ls.get(&ln) {
        let mut held = Vec::new();
        for k in 1..=n {
          match tokio::time::timeout(idle, l.accept()).await {
            Ok(Ok((st, _))) => {
              rec(&task, "ret", format!("\"op\":\"raw_accepted\",\"listener\":\"{}\",\"k\":{},\"t\":{}", ln, k, ms(&env)));
              match mode.as_str() {
                "rst" => {
                  let std_s = st.into_std().expect("std");
                  let s2 = socket2_linger0(std_s);
                  drop(s2);
                }
                "hold" => held.push(st),
                "garbage" => {
                  // a wrong peer that answers at once with something that is not ZMTP, then goes
                  let mut st = st;
                  let _ = tokio::io::AsyncWriteExt::write_all(&mut st, b"HTTP/1.1 400 Bad Request\r\nConnection: close\r\n\r\n").await;
                  drop(st);
                }
                _ => drop(st),
              }
            }
            _ => break,
          }
        }
      }
    }
    "raw_drop_listener" => {
      let ln = op["listener"].as_str().unwrap_or("l").to_string();
      env.listeners.lock().await.remove(&ln);
    }
    "raw_write" => {
      let rn = op["raw"].as_str().unwrap_or("r").to_string();
      let data = hex(op["hex"].as_str().unwrap_or(""));
      let mut g = env.raws.lock().await;
      let res = if let Some(st) = g.get_mut(&rn) {
        match st.write_all(&data).await {
          Ok(()) => {
            let _ = st.flush().await;
            "ok".to_string()
          }
          Err(e) => format!("err:{:?}", e.kind()),
        }
      } else {
        "err:NoRaw".into()
      };
      rec(&task, "ret", format!("\"op\":\"raw_write\",\"raw\":\"{}\",\"n\":{},\"res\":\"{}\",\"t\":{}", rn, data.len(), res, ms(&env)));
    }
    "raw_read" => {
      // read until `n` bytes, EOF or timeout; reports how many bytes came and whether EOF was seen
      let rn = op["raw"].as_str().unwrap_or("r").to_string();
      let want = op["n"].as_u64().unwrap_or(1) as usize;
      let deadline = Instant::now() + Duration::from_millis(if tmo == 0 { 1000 } else { tmo });
      let mut got: Vec<u8> = Vec::new();
      let mut eof = false;
      let mut g = env.raws.lock().await;
      if let Some(st) = g.get_mut(&rn) {
        let mut buf = vec![0u8; 65536];
        while got.len() < want && Instant::now() < deadline {
          match tokio::time::timeout(deadline - Instant::now(), st.read(&mut buf)).await {
            Ok(Ok(0)) => {
              eof = true;
              break;
            }
            Ok(Ok(k)) => got.extend_from_slice(&buf[..k]),
            Ok(Err(_)) => {
              eof = true;
              break;
            }
            Err(_) => break,
          }
        }
      }
      let keep = op["keep_hex"].as_u64().unwrap_or(64) as usize;
      rec(&task, "ret", format!("\"op\":\"raw_read\",\"raw\":\"{}\",\"n\":{},\"eof\":{},\"hex\":\"{}\",\"t\":{}", rn, got.len(), eof, rzmq::verif::hex_prefix(&got, keep), ms(&env)));
    }
    "raw_hb_peer" => {
      // a raw ZMTP peer after its handshake: records every PING it receives (time, context) and,
      // depending on `mode`, stays silent, answers with PONG (echoing the context), or keeps sending
      // small data frames without ever answering. Ends at EOF or after `ms`.
      let rn = op["raw"].as_str().unwrap_or("r").to_string();
      let mode = op["mode"].as_str().unwrap_or("silent").to_string();
      let dur = Duration::from_millis(op["ms"].as_u64().unwrap_or(2000));
      let data_every = Duration::from_millis(op["data_every_ms"].as_u64().unwrap_or(100));
      let start = Instant::now();
      let mut next_data = start + data_every;
      let mut acc: Vec<u8> = Vec::new();
      let mut g = env.raws.lock().await;
      if let Some(st) = g.get_mut(&rn) {
        let mut buf = vec![0u8; 4096];
        let mut k = 0u64;
        loop {
          let now = Instant::now();
          if now >= start + dur {
            rec(&task, "ret", format!("\"op\":\"hb_end\",\"raw\":\"{}\",\"eof\":false,\"t\":{}", rn, ms(&env)));
            break;
          }
          let mut wait = start + dur - now;
          if mode == "data" {
            if now >= next_data {
              k += 1;
              let body = payload(&format!("hb:{}", k), 20);
              let mut f = vec![0u8, body.len() as u8];
              f.extend_from_slice(&body);
              if st.write_all(&f).await.is_err() {
                rec(&task, "ret", format!("\"op\":\"hb_end\",\"raw\":\"{}\",\"eof\":true,\"t\":{}", rn, ms(&env)));
                break;
              }
              rec(&task, "ret", format!("\"op\":\"hb_act\",\"raw\":\"{}\",\"what\":\"data\",\"t\":{}", rn, ms(&env)));
              next_data = now + data_every;
            }
            wait = wait.min(next_data.saturating_duration_since(Instant::now()).max(Duration::from_millis(1)));
          }
          match tokio::time::timeout(wait, st.read(&mut buf)).await {
            Ok(Ok(0)) | Ok(Err(_)) => {
              rec(&task, "ret", format!("\"op\":\"hb_end\",\"raw\":\"{}\",\"eof\":true,\"t\":{}", rn, ms(&env)));
              break;
            }
            Ok(Ok(n)) => acc.extend_from_slice(&buf[..n]),
            Err(_) => {}
          }
          // short frames only (commands are short)
          while acc.len() >= 2 && (acc[0] & 0x02) == 0 && acc.len() >= 2 + acc[1] as usize {
            let len = acc[1] as usize;
            let fl = acc[0];
            let body: Vec<u8> = acc[2..2 + len].to_vec();
            acc.drain(..2 + len);
            if fl & 0x04 != 0 && body.len() >= 7 && &body[..5] == b"\x04PING" {
              let ctx_bytes = body[7..].to_vec();
              rec(&task, "ret", format!("\"op\":\"hb_ping\",\"raw\":\"{}\",\"ctx\":\"{}\",\"t\":{}", rn, rzmq::verif::hex_prefix(&ctx_bytes, 32), ms(&env)));
              if mode == "pong" {
                let mut b = b"\x04PONG".to_vec();
                b.extend_from_slice(&ctx_bytes);
                let mut f = vec![0x04u8, b.len() as u8];
                f.extend_from_slice(&b);
                let _ = st.write_all(&f).await;
                rec(&task, "ret", format!("\"op\":\"hb_act\",\"raw\":\"{}\",\"what\":\"pong\",\"t\":{}", rn, ms(&env)));
              }
            } else if fl & 0x04 != 0 && body.len() >= 5 && &body[..5] == b"\x04PONG" {
              rec(&task, "ret", format!("\"op\":\"hb_pong\",\"raw\":\"{}\",\"ctx\":\"{}\",\"t\":{}", rn, rzmq::verif::hex_prefix(&body[5..], 32), ms(&env)));
            }
          }
        }
      }
    }
    "raw_close" => {
      let rn = op["raw"].as_str().unwrap_or("r").to_string();
      let rst = op["rst"].as_bool().unwrap_or(false);
      if let Some(st) = env.raws.lock().await.remove(&rn) {
        if rst {
          let _ = st.set_linger(Some(Duration::ZERO));
        }
        drop(st);
      }
      rec(&task, "ret", format!("\"op\":\"raw_close\",\"raw\":\"{}\",\"t\":{}", rn, ms(&env)));
    }
    "raw_shutdown" => {
      // half-close: FIN on our side, the socket stays open for reading
      let rn = op["raw"].as_str().unwrap_or("r").to_string();
      if let Some(st) = env.raws.lock().await.get_mut(&rn) {
        let _ = st.shutdown().await;
      }
      rec(&task, "ret", format!("\"op\":\"raw_shutdown\",\"raw\":\"{}\",\"t\":{}", rn, ms(&env)));
    }
    "raw_unix_connect" => {
      let rn = op["raw"].as_str().unwrap_or("r").to_string();
      let ep = subst(&env, op["ep"].as_str().unwrap_or(""));
      let path = ep.trim_start_matches("ipc://").to_string();
      match tokio::net::UnixStream::connect(&path).await {
        Ok(st) => {
          env.raw_unix.lock().await.insert(rn.clone(), st);
          rec(&task, "ret", format!("\"op\":\"raw_unix_connect\",\"raw\":\"{}\",\"res\":\"ok\",\"t\":{}", rn, ms(&env)));
        }
        Err(e) => rec(&task, "ret", format!("\"op\":\"raw_unix_connect\",\"raw\":\"{}\",\"res\":\"err:{:?}\",\"t\":{}", rn, e.kind(), ms(&env))),
      }
    }
    "raw_unix_write" => {
      let rn = op["raw"].as_str().unwrap_or("r").to_string();
      let data = hex(op["hex"].as_str().unwrap_or(""));
      let mut g = env.raw_unix.lock().await;
      if let Some(st) = g.get_mut(&rn) {
        let _ = st.write_all(&data).await;
      }
    }
    "live_actors" => {
      // number of actors the context still counts as running (read-only projection)
      let ci = op["ctx"].as_u64().unwrap_or(0) as usize;
      let n = rzmq::verif::facade::context_live_actors(&env.ctxs[ci]);
      rec(&task, "ret", format!("\"op\":\"live_actors\",\"ctx\":{},\"n\":{},\"t\":{}", ci, n, ms(&env)));
    }
    other => crate::util::tool_error(&format!("unknown op {}", other)),
  }
  env.inflight.lock().unwrap().remove(&task);
}

pub fn run_scenario(sc: &Scenario) -> RunResult {
  let workers = if sc.workers == 0 { 4 } else { sc.workers };
  let rt = if sc.flavor == "current" {
    tokio::runtime::Builder::new_current_thread().enable_all().build().unwrap()
  } else {
    tokio::runtime::Builder::new_multi_thread().worker_threads(workers).enable_all().build().unwrap()
  };
  let t0 = Instant::now();
  let panics: Arc<Mutex<Vec<String>>> = Arc::new(Mutex::new(Vec::new()));
  {
    let p = panics.clone();
    std::panic::set_hook(Box::new(move |info| {
      let loc = info.location().map(|l| format!("{}:{}", l.file(), l.line())).unwrap_or_default();
      let msg = info.payload().downcast_ref::<&str>().map(|s| s.to_string()).or_else(|| info.payload().downcast_ref::<String>().cloned()).unwrap_or_default();
      p.lock().unwrap().push(format!("{} {}", loc, msg.chars().take(200).collect::<String>()));
    }));
  }
  rzmq::verif::recorder_start();
  let deadline = Duration::from_millis(if sc.deadline_ms == 0 { 30_000 } else { sc.deadline_ms });
  let hung = rt.block_on(async {
    #[cfg(target_os = "linux")]
    if sc.uring {
      let _ = rzmq::uring::initialize_uring_backend(Default::default());
    }
    let nctx = sc.sockets.iter().map(|s| s.ctx).max().unwrap_or(0) + 1;
    let ctxs: Vec<Context> = (0..nctx).map(|_| Context::new().expect("context")).collect();
    let mut socks = HashMap::new();
    for s in &sc.sockets {
      let so = ctxs[s.ctx].socket(socket_type(&s.ty)).expect("socket");
      for ov in &s.opts {
        let id = ov[0].as_i64().unwrap_or(0) as i32;
        let r = so.set_option_raw(id, &opt_bytes(ov[1].as_str().unwrap_or("i32"), &ov[2])).await;
        if let Err(e) = r {
          rec("setup", "ret", format!("\"op\":\"opt\",\"sock\":\"{}\",\"id\":{},\"res\":\"err:{}\"", s.name, id, err_kind(&e)));
        }
      }
      socks.insert(s.name.clone(), so);
    }
    let env = Arc::new(Env {
      ctxs,
      socks: Mutex::new(socks),
      vars: Mutex::new(HashMap::new()),
      barriers: Mutex::new(HashMap::new()),
      raws: tokio::sync::Mutex::new(HashMap::new()),
      raw_unix: tokio::sync::Mutex::new(HashMap::new()),
      listeners: tokio::sync::Mutex::new(HashMap::new()),
      monitors: tokio::sync::Mutex::new(HashMap::new()),
      t0,
      inflight: Mutex::new(HashMap::new()),
    });
    let mut handles = Vec::new();
    for t in &sc.tasks {
      let env2 = env.clone();
      let t2 = t.clone();
      handles.push(tokio::spawn(async move {
        for op in t2.ops {
          run_op(env2.clone(), t2.name.clone(), op).await;
        }
        rec(&t2.name, "task_done", String::new());
      }));
    }
    let all = async {
      for h in handles.iter_mut() {
        let _ = h.await;
      }
    };
    let timed_out = tokio::time::timeout(deadline, all).await.is_err();
    let mut hung = Vec::new();
    if timed_out {
      for (task, what) in env.inflight.lock().unwrap().iter() {
        hung.push(format!("{}: {}", task, what));
      }
      for h in &handles {
        h.abort();
      }
    }
    hung
  });
  let records: Vec<Value> = rzmq::verif::recorder_stop().iter().filter_map(|l| serde_json::from_str(l).ok()).collect();
  rt.shutdown_timeout(Duration::from_millis(500));
  let _ = std::panic::take_hook();
  let p = panics.lock().unwrap().clone();
  RunResult { name: sc.name.clone(), records, hung, panics: p, wall_ms: t0.elapsed().as_millis() }
}

pub fn run_file(path: &str, out: &str) {
  let scs: Vec<Scenario> = crate::util::read_jsonl(path);
  let mut f = std::fs::File::create(out).unwrap_or_else(|e| crate::util::tool_error(&format!("{}", e)));
  use std::io::Write;
  for sc in &scs {
    let r = run_scenario(sc);
    f.write_all(serde_json::to_string(&r).unwrap().as_bytes()).unwrap();
    f.write_all(b"\n").unwrap();
  }
  let _ = json!({});
  let _ = Bytes::new();
}
