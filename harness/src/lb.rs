//! Balancer.tla on the real OutgoingMessageOrchestrator / LoadBalancer (B1: histories of
//! add / remove / full / route with the chosen peer compared), and the check-then-wait windows of
//! wait_for_connection and WaitGroup::wait under the controlled scheduler (B2).
use crate::peer::Issue;
use crate::sched::*;
use futures::FutureExt;
use rzmq::verif::facade::{OrchestratorX, ScriptedConn, WaitGroupX};
use rzmq::{FrameBatch, Msg};
use serde::{Deserialize, Serialize};
use serde_json::Value;
use std::collections::BTreeMap;
use std::sync::atomic::Ordering;
use std::sync::Arc;

#[derive(Deserialize, Clone, Debug)]
pub struct Behaviour {
  pub steps: Vec<Value>,
}

#[derive(Serialize)]
pub struct Outcome {
  pub index: usize,
  pub issues: Vec<Issue>,
  pub routes: usize,
}

fn one_msg() -> FrameBatch {
  let mut fb = FrameBatch::new();
  fb.push(Msg::from_vec(b"x".to_vec()));
  fb
}

pub fn run(index: usize, b: &Behaviour, perturb: bool) -> Outcome {
  let orch = OrchestratorX::new();
  let mut conns: BTreeMap<String, Arc<ScriptedConn>> = BTreeMap::new();
  let mut present: Vec<String> = Vec::new();
  let mut issues = Vec::new();
  let mut routes = 0usize;
  // fairness bookkeeping: since the last change of peer set / fullness, how often each peer was chosen
  let mut since_change: BTreeMap<String, usize> = BTreeMap::new();
  for (si, st) in b.steps.iter().enumerate() {
    match st["op"].as_str().unwrap_or("") {
      "add" => {
        let p = st["p"].as_str().unwrap_or("").to_string();
        let c = conns.entry(p.clone()).or_insert_with(|| Arc::new(ScriptedConn::default())).clone();
        orch.add_connection(&p, c);
        present.push(p);
        since_change.clear();
      }
      "remove" => {
        let p = st["p"].as_str().unwrap_or("").to_string();
        orch.remove_connection(&p);
        present.retain(|x| *x != p);
        since_change.clear();
      }
      "full" => {
        let p = st["p"].as_str().unwrap_or("");
        if let Some(c) = conns.get(p) {
          c.full.store(st["f"].as_bool().unwrap_or(false), Ordering::SeqCst);
        }
        since_change.clear();
      }
      "route" => {
        routes += 1;
        let before: BTreeMap<String, usize> = conns.iter().map(|(k, c)| (k.clone(), c.accepted.load(Ordering::SeqCst))).collect();
        let res = if st["kind"].as_str() == Some("sync") {
          orch.try_route_sync(one_msg())
        } else {
          match orch.route_message(one_msg(), false).now_or_never() {
            Some(r) => r,
            None => Err(rzmq::ZmqError::Internal("route_message did not complete".into())),
          }
        };
        let chosen: Vec<String> = conns.iter().filter(|(k, c)| c.accepted.load(Ordering::SeqCst) > before[*k]).map(|(k, _)| k.clone()).collect();
        let nonfull: Vec<String> = present.iter().filter(|p| !conns[*p].full.load(Ordering::SeqCst)).cloned().collect();
        let mut want = st["to"].as_str().unwrap_or("none").to_string();
        if perturb && si + 1 == b.steps.len() {
          want = if want == "none" { "a".into() } else { "none".into() };
        }
        let got = chosen.first().cloned().unwrap_or_else(|| "none".into());
        if got != want {
          // Round-robin in attachment order is what the property states and what Balancer.tla spells out.
          // When the peer whose turn it was is attached and has room, and the message went to another
          // peer, a turn was skipped: that is a verdict on the code, not a disagreement about the model.
          let due_and_able = nonfull.contains(&want) && got != "none";
          let class = if perturb { "selftest" } else if due_and_able { "prop" } else { "drift" };
          let code = if due_and_able && !perturb { "skipped-turn" } else { "chosen-peer" };
          issues.push(Issue { class: class.into(), code: code.into(), step: si + 1, detail: format!("real routed to {}, model to {}{}", got, want,
            if due_and_able { format!(": it was {}'s turn in the rotation (attached, with room) and it was passed over", want) } else { String::new() }) });
        }
        // property level
        if chosen.len() > 1 {
          issues.push(Issue { class: "prop".into(), code: "sent-twice".into(), step: si + 1, detail: format!("one send reached {:?}", chosen) });
        }
        for c in &chosen {
          if !present.contains(c) {
            issues.push(Issue { class: "prop".into(), code: "sent-to-removed-peer".into(), step: si + 1, detail: format!("message went to {} which had been removed", c) });
          }
        }
        if chosen.is_empty() && !nonfull.is_empty() {
          issues.push(Issue { class: "prop".into(), code: "refused-although-room".into(), step: si + 1, detail: format!("send failed ({:?}) although {:?} have room", res.err().map(|e| e.to_string()), nonfull) });
        }
        if let Some(c) = chosen.first() {
          *since_change.entry(c.clone()).or_insert(0) += 1;
          // round-robin over the peers that can accept: counts never differ by more than one
          let counts: Vec<usize> = nonfull.iter().map(|p| *since_change.get(p).unwrap_or(&0)).collect();
          if let (Some(mx), Some(mn)) = (counts.iter().max(), counts.iter().min()) {
            if mx - mn > 1 {
              issues.push(Issue { class: "prop".into(), code: "unfair-rotation".into(), step: si + 1, detail: format!("since the last change the accepting peers {:?} were chosen {:?} times", nonfull, counts) });
            }
          }
        }
      }
      _ => {}
    }
  }
  Outcome { index, issues, routes }
}

#[derive(Serialize)]
pub struct WindowOutcome {
  pub what: String,
  pub schedule: String,
  pub issues: Vec<Issue>,
}

/// wait_for_connection vs add_connection, every placement of the add relative to the waiter's steps.
pub fn wait_windows() -> Vec<WindowOutcome> {
  let mut outs = Vec::new();
  // the add happens after the waiter has been granted `k` steps (k = 0: before it starts checking)
  for k in 0..4usize {
    let ctrl = Controller::new();
    let orch = Arc::new(OrchestratorX::new());
    let result = Arc::new(std::sync::Mutex::new(None::<bool>));
    let o2 = orch.clone();
    let r2 = result.clone();
    let ops: Vec<Box<dyn FnOnce() -> BoxFut + Send>> = vec![Box::new(move || {
      Box::pin(async move {
        let r = o2.wait_for_connection().await;
        *r2.lock().unwrap() = Some(r.is_ok());
      })
    })];
    let w = ctrl.spawn("waiter", ops, Box::new(|_, _| {}));
    let mut trace = Vec::new();
    let mut granted = 0usize;
    let mut added = false;
    let mut issues = Vec::new();
    for _ in 0..12 {
      let v = ctrl.quiesce();
      if granted == k && !added {
        orch.add_connection("peer", Arc::new(ScriptedConn::default()));
        added = true;
        trace.push("add".to_string());
        continue;
      }
      match v[w].status {
        Status::AtPoint | Status::Runnable => {
          trace.push(format!("grant@{}", v[w].point));
          ctrl.grant(w);
          granted += 1;
        }
        _ => break,
      }
    }
    if !added {
      orch.add_connection("peer", Arc::new(ScriptedConn::default()));
      trace.push("add".to_string());
      // let the waiter run on if it was woken
      for _ in 0..6 {
        let v = ctrl.quiesce();
        if matches!(v[w].status, Status::AtPoint | Status::Runnable) {
          ctrl.grant(w);
        } else {
          break;
        }
      }
    }
    let v = ctrl.quiesce();
    if v[w].status != Status::Done {
      issues.push(Issue { class: "prop".into(), code: "sender-sleeps-with-peer-connected".into(), step: k, detail: format!("schedule {:?}: a peer is connected but wait_for_connection() is {:?} at '{}' - the send would sleep until another peer arrives", trace, v[w].status, v[w].point) });
    }
    orch.deactivate();
    ctrl.shutdown();
    outs.push(WindowOutcome { what: "wait_for_connection".into(), schedule: trace.join(","), issues });
  }
  // WaitGroup::wait vs the last done()
  for k in 0..4usize {
    let ctrl = Controller::new();
    let wg = Arc::new(WaitGroupX::new());
    wg.add(1);
    let w2 = wg.clone();
    let ops: Vec<Box<dyn FnOnce() -> BoxFut + Send>> = vec![Box::new(move || Box::pin(async move { w2.wait().await }))];
    let w = ctrl.spawn("waiter", ops, Box::new(|_, _| {}));
    let mut trace = Vec::new();
    let mut granted = 0usize;
    let mut done = false;
    let mut issues = Vec::new();
    for _ in 0..12 {
      let v = ctrl.quiesce();
      if granted == k && !done {
        wg.done();
        done = true;
        trace.push("done".to_string());
        continue;
      }
      match v[w].status {
        Status::AtPoint | Status::Runnable => {
          trace.push(format!("grant@{}", v[w].point));
          ctrl.grant(w);
          granted += 1;
        }
        _ => break,
      }
    }
    if !done {
      wg.done();
      trace.push("done".to_string());
      for _ in 0..6 {
        let v = ctrl.quiesce();
        if matches!(v[w].status, Status::AtPoint | Status::Runnable) {
          ctrl.grant(w);
        } else {
          break;
        }
      }
    }
    let v = ctrl.quiesce();
    if v[w].status != Status::Done {
      issues.push(Issue { class: "prop".into(), code: "term-waits-forever".into(), step: k, detail: format!("schedule {:?}: the counter is zero but WaitGroup::wait() is {:?} at '{}' (Context::term would only return through its timeout)", trace, v[w].status, v[w].point) });
    }
    // release a stuck waiter so the thread can end
    wg.add(1);
    wg.done();
    ctrl.shutdown();
    outs.push(WindowOutcome { what: "WaitGroup::wait".into(), schedule: trace.join(","), issues });
  }
  outs
}
