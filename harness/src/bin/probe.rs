fn main() {
  let e = rzmq::verif::facade::engine_from_options(true, "PULL", &[]).unwrap();
  println!("phase {:?}", e.phase);
}
