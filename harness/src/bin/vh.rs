//! Harness entry point: `vh <subcommand> ...` (see tools/check.py).
use rzmq_verif_harness as h;
use serde_json::json;

fn main() {
  let args: Vec<String> = std::env::args().collect();
  if args.len() < 2 {
    h::util::tool_error("usage: vh <subcommand> ...");
  }
  match args[1].as_str() {
    "wire" => {
      // vh wire <behaviours.jsonl> <out.json> [--perturb]
      let beh: Vec<h::wire::Behaviour> = h::util::read_jsonl(&args[2]);
      let perturb = args.iter().any(|a| a == "--perturb");
      h::util::quiet_panics();
      let mut bad = Vec::new();
      let mut combos = 0usize;
      let mut lag = 0usize;
      for (i, b) in beh.iter().enumerate() {
        let r = h::wire::run_behaviour(i, b, perturb);
        combos += r.combos;
        lag += r.mismatches.iter().filter(|m| m.kind == "lag").count();
        if r.mismatches.iter().any(|m| m.kind != "lag") {
          bad.push(serde_json::to_value(&r).unwrap());
        }
      }
      h::util::write_json(
        &args[3],
        &json!({"behaviours": beh.len(), "combos": combos, "lag_notes": lag, "failing": bad.len(), "failures": bad.into_iter().take(50).collect::<Vec<_>>()}),
      );
    }
    "peer" => {
      // vh peer <behaviours.jsonl> <out.json> [--perturb]
      let beh: Vec<h::peer::Behaviour> = h::util::read_jsonl(&args[2]);
      let perturb = args.iter().any(|a| a == "--perturb");
      let seed = h::util::seed_from_env();
      h::util::quiet_panics();
      let mut outs = Vec::new();
      let mut runs = 0usize;
      for (i, b) in beh.iter().enumerate() {
        let both = b.cfg_a.mech == "ENC" && b.cfg_b.mech == "ENC";
        let impls: Vec<h::eng::EncImpl> = if both { vec![h::eng::EncImpl::Curve, h::eng::EncImpl::Noise] } else { vec![h::eng::EncImpl::Noise] };
        for e in impls {
          let o = h::peer::run(i, b, e, seed, perturb);
          runs += 1;
          if !o.issues.is_empty() {
            outs.push(serde_json::to_value(&o).unwrap());
          }
        }
      }
      h::util::write_json(&args[3], &json!({"behaviours": beh.len(), "runs": runs, "with_issues": outs.len(), "outcomes": outs.into_iter().take(200).collect::<Vec<_>>()}));
    }
    "script" => {
      // vh script <behaviours.jsonl> <out.json> [--mutate N] [--perturb]
      let beh: Vec<h::script::Behaviour> = h::util::read_jsonl(&args[2]);
      let perturb = args.iter().any(|a| a == "--perturb");
      let nmut: usize = args.iter().position(|a| a == "--mutate").and_then(|i| args.get(i + 1)).and_then(|s| s.parse().ok()).unwrap_or(0);
      let expand: usize = args.iter().position(|a| a == "--expand").and_then(|i| args.get(i + 1)).and_then(|s| s.parse().ok()).unwrap_or(1);
      let seed = h::util::seed_from_env();
      h::util::quiet_panics();
      let mut outs = Vec::new();
      let mut runs = 0usize;
      let mut mutated_runs = 0usize;
      for (i, b) in beh.iter().enumerate() {
        let impls: Vec<h::eng::EncImpl> = if b.cfg.mech == "ENC" { vec![h::eng::EncImpl::Curve, h::eng::EncImpl::Noise] } else { vec![h::eng::EncImpl::Noise] };
        for e in impls {
          let o = h::script::run(i, b, e, seed, false, perturb, expand);
          runs += 1;
          if !o.issues.is_empty() {
            outs.push(serde_json::to_value(&o).unwrap());
          }
          for m in 0..nmut {
            let o = h::script::run(i, b, e, seed.wrapping_add(1000 * (m as u64 + 1)), true, false, expand);
            mutated_runs += 1;
            if o.issues.iter().any(|x| x.class == "prop") {
              outs.push(serde_json::to_value(&o).unwrap());
            }
          }
        }
      }
      // --bodycuts: every command frame kind a role can be sent, with its body ending after 0, 1, 2, ... bytes
      if args.iter().any(|a| a == "--bodycuts") {
        let mut seen = std::collections::HashSet::new();
        for (i, b) in beh.iter().enumerate() {
          let impls: Vec<h::eng::EncImpl> = if b.cfg.mech == "ENC" { vec![h::eng::EncImpl::Curve, h::eng::EncImpl::Noise] } else { vec![h::eng::EncImpl::Noise] };
          for e in impls {
            for (si, label, blen) in h::script::command_tokens(b, e, seed) {
              let key = format!("{:?}|{}|{}|{}|{}", e, b.cfg.mech, b.cfg.srv, b.cfg.allow_v2, label);
              if !seen.insert(key) {
                continue;
              }
              for k in 0..blen.min(400) {
                let o = h::script::run_cut(i, b, e, seed, true, false, expand, Some((si, k)));
                mutated_runs += 1;
                if o.issues.iter().any(|x| x.class == "prop") {
                  outs.push(serde_json::to_value(&o).unwrap());
                }
              }
            }
          }
        }
      }
      h::util::write_json(&args[3], &json!({"behaviours": beh.len(), "runs": runs, "mutated_runs": mutated_runs, "with_issues": outs.len(), "outcomes": outs.into_iter().take(300).collect::<Vec<_>>()}));
    }
    "segment" => {
      // vh segment <behaviours.jsonl> <out.json>   (C04: outcome independent of read boundaries)
      let beh: Vec<h::script::Behaviour> = h::util::read_jsonl(&args[2]);
      let seed = h::util::seed_from_env();
      h::util::quiet_panics();
      let mut outs = Vec::new();
      let mut runs = 0usize;
      let mut segs = 0usize;
      let mut seen = std::collections::HashSet::new();
      for (i, b) in beh.iter().enumerate() {
        // one run per distinct token sequence (the schedule is varied inside)
        let key = serde_json::to_string(&(&b.cfg, b.steps.iter().filter(|s| s["a"].as_str() == Some("emit")).collect::<Vec<_>>())).unwrap();
        let fresh = seen.insert(key);
        let impls: Vec<h::eng::EncImpl> = if b.cfg.mech == "ENC" { vec![h::eng::EncImpl::Curve, h::eng::EncImpl::Noise] } else { vec![h::eng::EncImpl::Noise] };
        for e in impls {
          if !fresh && i % 7 != 0 {
            continue;
          }
          let o = h::script::run_segmentation(i, b, e, seed);
          runs += 1;
          segs += o.segmentations;
          if !o.issues.is_empty() {
            outs.push(serde_json::to_value(&o).unwrap());
          }
        }
      }
      h::util::write_json(&args[3], &json!({"behaviours": beh.len(), "runs": runs, "segmentations": segs, "with_issues": outs.len(), "outcomes": outs.into_iter().take(100).collect::<Vec<_>>()}));
    }
    "rpq" => {
      // vh rpq <behaviours.jsonl|-> <out.json> [--random N] [--perturb] [--traces file]
      let perturb = args.iter().any(|a| a == "--perturb");
      let nrand: usize = args.iter().position(|a| a == "--random").and_then(|i| args.get(i + 1)).and_then(|s| s.parse().ok()).unwrap_or(0);
      let traces_path = args.iter().position(|a| a == "--traces").and_then(|i| args.get(i + 1)).cloned();
      let seed = h::util::seed_from_env();
      h::util::quiet_panics();
      let mut outs = Vec::new();
      let mut guided = 0usize;
      let mut steps = 0usize;
      if args[2] != "-" {
        let beh: Vec<h::rpq::Behaviour> = h::util::read_jsonl(&args[2]);
        for (i, b) in beh.iter().enumerate() {
          let o = h::rpq::run_guided(i, b, seed, perturb);
          guided += 1;
          steps += o.steps;
          if !o.issues.is_empty() {
            outs.push(serde_json::to_value(&o).unwrap());
          }
        }
      }
      let mut traces: Vec<serde_json::Value> = Vec::new();
      use rand::SeedableRng;
      let mut rng = rand::rngs::StdRng::seed_from_u64(seed ^ 0xABCD);
      for i in 0..nrand {
        let setup = h::rpq::random_setup(&mut rng);
        let o = h::rpq::run_random(i, &setup, seed);
        steps += o.steps;
        if traces.len() < 400 {
          traces.push(json!({"setup": {"pipes": setup.pipes, "cons": setup.cons, "cap": setup.cap, "readycap": setup.readycap, "batchn": setup.batchn, "scripts": setup.scripts, "modes": setup.modes}, "trace": o.trace}));
        }
        if !o.issues.is_empty() {
          let mut v = serde_json::to_value(&o).unwrap();
          v["setup"] = json!({"pipes": setup.pipes, "cons": setup.cons, "cap": setup.cap, "readycap": setup.readycap, "scripts": setup.scripts, "modes": setup.modes});
          outs.push(v);
        }
      }
      if let Some(tp) = traces_path {
        h::util::write_json(&tp, &traces);
      }
      h::util::write_json(&args[3], &json!({"guided": guided, "random": nrand, "steps": steps, "with_issues": outs.len(), "outcomes": outs.into_iter().take(100).collect::<Vec<_>>()}));
    }
    "sock" => {
      // vh sock <scenarios.jsonl> <out.jsonl>   (VH_TRACE=<filter> prints rzmq's tracing output to stderr)
      if let Ok(f) = std::env::var("VH_TRACE") {
        let _ = tracing_subscriber::fmt().with_env_filter(f).with_writer(std::io::stderr).try_init();
      }
      // VH_URING_CFG="snd_count,snd_size,rcv_count,rcv_size,zerocopy,multishot": the io_uring backend is
      // process-global and configured once, so it is set up before any context exists
      if let Ok(c) = std::env::var("VH_URING_CFG") {
        let v: Vec<usize> = c.split(',').map(|x| x.trim().parse().unwrap_or(0)).collect();
        if v.len() == 6 {
          let mut cfg = rzmq::uring::UringConfig::default();
          cfg.default_send_buffer_count = v[0];
          cfg.default_send_buffer_size = v[1];
          cfg.default_recv_buffer_count = v[2];
          cfg.default_recv_buffer_size = v[3];
          cfg.default_send_zerocopy = v[4] != 0;
          cfg.default_recv_multishot = v[5] != 0;
          if let Err(e) = rzmq::uring::initialize_uring_backend(cfg) {
            h::util::tool_error(&format!("io_uring backend: {}", e));
          }
        }
      }
      h::sock::run_file(&args[2], &args[3]);
    }
    "sockscript" => {
      // vh sockscript <behaviours.jsonl> <out.json> [--uring] [--limit N]
      let uring = args.iter().any(|a| a == "--uring");
      let both = args.iter().any(|a| a == "--both");
      let limit: usize = args.iter().position(|a| a == "--limit").and_then(|i| args.get(i + 1)).and_then(|s| s.parse().ok()).unwrap_or(40);
      let backends = if both { vec![false, true] } else { vec![uring] };
      h::sockscript::run_file(&args[2], &args[3], backends, limit);
    }
    "subsync" => {
      // vh subsync <behaviours.jsonl> <out.json> [--uring|--both] [--limit N] [--perturb]
      let uring = args.iter().any(|a| a == "--uring");
      let both = args.iter().any(|a| a == "--both");
      let perturb = args.iter().any(|a| a == "--perturb");
      let limit: usize = args.iter().position(|a| a == "--limit").and_then(|i| args.get(i + 1)).and_then(|s| s.parse().ok()).unwrap_or(60);
      if let Ok(f) = std::env::var("VH_TRACE") {
        let _ = tracing_subscriber::fmt().with_env_filter(f).with_writer(std::io::stderr).try_init();
      }
      let backends = if both { vec![false, true] } else { vec![uring] };
      h::subsync::run_file(&args[2], &args[3], backends, limit, perturb);
    }
    "hb" => {
      // vh hb <behaviours.jsonl> <out.json> [--perturb]
      let beh: Vec<h::hb::Behaviour> = h::util::read_jsonl(&args[2]);
      let perturb = args.iter().any(|a| a == "--perturb");
      h::util::quiet_panics();
      let mut outs = Vec::new();
      for (i, b) in beh.iter().enumerate() {
        let o = h::hb::run(i, b, perturb);
        if !o.issues.is_empty() {
          outs.push(serde_json::to_value(&o).unwrap());
        }
      }
      h::util::write_json(&args[3], &json!({"runs": beh.len(), "with_issues": outs.len(), "outcomes": outs.into_iter().take(100).collect::<Vec<_>>()}));
    }
    "backoff" => {
      // vh backoff <behaviours.jsonl> <out.json> [--perturb]
      let beh: Vec<h::backoff::Behaviour> = h::util::read_jsonl(&args[2]);
      let perturb = args.iter().any(|a| a == "--perturb");
      let mut outs = Vec::new();
      let mut steps = 0usize;
      for (i, b) in beh.iter().enumerate() {
        steps += b.steps.len();
        let o = h::backoff::run(i, b, perturb);
        if !o.issues.is_empty() {
          outs.push(serde_json::to_value(&o).unwrap());
        }
      }
      h::util::write_json(&args[3], &json!({"runs": beh.len(), "steps": steps, "with_issues": outs.len(), "outcomes": outs.into_iter().take(100).collect::<Vec<_>>()}));
    }
    "egress" => {
      // vh egress <behaviours.jsonl> <out.json> [--perturb]
      let beh: Vec<h::egress::Behaviour> = h::util::read_jsonl(&args[2]);
      let perturb = args.iter().any(|a| a == "--perturb");
      let mut outs = Vec::new();
      let mut steps = 0usize;
      for (i, b) in beh.iter().enumerate() {
        steps += b.steps.len();
        let o = h::egress::run(i, b, perturb);
        if !o.issues.is_empty() {
          outs.push(serde_json::to_value(&o).unwrap());
        }
      }
      h::util::write_json(&args[3], &json!({"runs": beh.len(), "steps": steps, "with_issues": outs.len(), "outcomes": outs.into_iter().take(100).collect::<Vec<_>>()}));
    }
    "sec" => {
      // vh sec <behaviours.jsonl> <out.json> [--perturb]
      let beh: Vec<h::sec::Behaviour> = h::util::read_jsonl(&args[2]);
      let perturb = args.iter().any(|a| a == "--perturb");
      let seed = h::util::seed_from_env();
      h::util::quiet_panics();
      let mut outs = Vec::new();
      let mut runs = 0usize;
      for (i, b) in beh.iter().enumerate() {
        for e in [h::eng::EncImpl::Curve, h::eng::EncImpl::Noise] {
          let o = h::sec::run(i, b, e, seed, perturb);
          runs += 1;
          if !o.issues.is_empty() {
            outs.push(serde_json::to_value(&o).unwrap());
          }
        }
      }
      let mut fresh = Vec::new();
      for e in [h::eng::EncImpl::Curve, h::eng::EncImpl::Noise] {
        fresh.extend(h::sec::fresh_per_session(e));
      }
      h::util::write_json(&args[3], &json!({"runs": runs, "with_issues": outs.len(), "fresh_issues": fresh, "outcomes": outs.into_iter().take(200).collect::<Vec<_>>()}));
    }
    "trie" => {
      // vh trie <behaviours.jsonl> <out.json> [--perturb] [--race N]
      let beh: Vec<h::trie::Behaviour> = h::util::read_jsonl(&args[2]);
      let perturb = args.iter().any(|a| a == "--perturb");
      let race: usize = args.iter().position(|a| a == "--race").and_then(|i| args.get(i + 1)).and_then(|s| s.parse().ok()).unwrap_or(0);
      let mut outs = Vec::new();
      let mut runs = 0usize;
      for (i, b) in beh.iter().enumerate() {
        for m in ["binary", "ascii"] {
          let o = h::trie::run(i, b, m, perturb);
          runs += 1;
          if !o.issues.is_empty() {
            outs.push(serde_json::to_value(&o).unwrap());
          }
        }
      }
      let race_issues = if race > 0 { h::trie::race_probe(race) } else { vec![] };
      h::util::write_json(&args[3], &json!({"runs": runs, "with_issues": outs.len(), "race_issues": race_issues, "outcomes": outs.into_iter().take(100).collect::<Vec<_>>()}));
    }
    "lb" => {
      // vh lb <behaviours.jsonl> <out.json> [--perturb]
      let beh: Vec<h::lb::Behaviour> = h::util::read_jsonl(&args[2]);
      let perturb = args.iter().any(|a| a == "--perturb");
      let mut outs = Vec::new();
      let mut routes = 0usize;
      for (i, b) in beh.iter().enumerate() {
        let o = h::lb::run(i, b, perturb);
        routes += o.routes;
        if !o.issues.is_empty() {
          outs.push(serde_json::to_value(&o).unwrap());
        }
      }
      let windows = h::lb::wait_windows();
      h::util::write_json(&args[3], &json!({"runs": beh.len(), "routes": routes, "with_issues": outs.len(), "windows": windows, "outcomes": outs.into_iter().take(100).collect::<Vec<_>>()}));
    }
    "reqrep" => {
      // vh reqrep <out.json>
      let outs = h::reqrep::run_all();
      h::util::write_json(&args[2], &json!({"runs": outs.len(), "outcomes": outs}));
    }
    "router" => {
      // vh router <behaviours.jsonl> <out.json> [--perturb]
      let beh: Vec<h::router::Behaviour> = h::util::read_jsonl(&args[2]);
      let perturb = args.iter().any(|a| a == "--perturb");
      let mut outs = Vec::new();
      for (i, b) in beh.iter().enumerate() {
        let o = h::router::run(i, b, &["1", "2", "3"], &["A", "B"], perturb);
        if !o.issues.is_empty() {
          outs.push(serde_json::to_value(&o).unwrap());
        }
      }
      let env = h::router::envelope_roundtrip();
      h::util::write_json(&args[3], &json!({"runs": beh.len(), "with_issues": outs.len(), "envelope_issues": env, "outcomes": outs.into_iter().take(100).collect::<Vec<_>>()}));
    }
    "ingress" => {
      // vh ingress <behaviours.jsonl> <out.json> [--perturb]
      let beh: Vec<h::ingress::Behaviour> = h::util::read_jsonl(&args[2]);
      let perturb = args.iter().any(|a| a == "--perturb");
      let mut outs = Vec::new();
      for (i, b) in beh.iter().enumerate() {
        let o = h::ingress::run(i, b, perturb);
        if !o.issues.is_empty() {
          outs.push(serde_json::to_value(&o).unwrap());
        }
      }
      h::util::write_json(&args[3], &json!({"runs": beh.len(), "with_issues": outs.len(), "outcomes": outs.into_iter().take(100).collect::<Vec<_>>()}));
    }
    other => h::util::tool_error(&format!("unknown subcommand {}", other)),
  }
}
