//! Harness entry point: `vh <subcommand> ...` (see tools/check.py).
use rzmq_verif_harness as h;
use serde_json::json;

fn main() {
  let args: Vec<String> = std::env::args().collect();
  if args.len() < 2 {
    h::util::tool_error("usage: vh <subcommand> ...");
  }
  match args[1].as_str() {
    "wire" => {
      // vh wire <behaviours.jsonl> <out.json> [--perturb]
      let beh: Vec<h::wire::Behaviour> = h::util::read_jsonl(&args[2]);
      let perturb = args.iter().any(|a| a == "--perturb");
      h::util::quiet_panics();
      let mut bad = Vec::new();
      let mut combos = 0usize;
      let mut lag = 0usize;
      for (i, b) in beh.iter().enumerate() {
        let r = h::wire::run_behaviour(i, b, perturb);
        combos += r.combos;
        lag += r.mismatches.iter().filter(|m| m.kind == "lag").count();
        if r.mismatches.iter().any(|m| m.kind != "lag") {
          bad.push(serde_json::to_value(&r).unwrap());
        }
      }
      h::util::write_json(
        &args[3],
        &json!({"behaviours": beh.len(), "combos": combos, "lag_notes": lag, "failing": bad.len(), "failures": bad.into_iter().take(50).collect::<Vec<_>>()}),
      );
    }
    other => h::util::tool_error(&format!("unknown subcommand {}", other)),
  }
}
