//! B3 for Script.tla at socket level (C04, and the transport legs of C06/C07/C20):
//! a raw TCP peer writes a transcript (tokens of Script.tla, concretised) against a real rzmq
//! listener, with the write boundaries TLC chose / one write / one write per token, on the Tokio
//! and on the io_uring session backend.  What `recv()` returns must be exactly what the same
//! bytes yield when handed to the engine in a single read (DataOf(transcript)): the outcome
//! depends on the bytes, not on how they were cut.
use crate::eng::*;
use crate::peer::{tok_label, Issue};
use crate::script::{concretize, Behaviour, MAXMSG};
use rand::rngs::StdRng;
use rand::SeedableRng;
use rzmq::socket::options as o;
use rzmq::{Context, Socket, SocketType};
use serde::Serialize;
use std::time::Duration;
use tokio::io::AsyncWriteExt;

#[derive(Serialize)]
pub struct Outcome {
  pub index: usize,
  pub tokens: Vec<String>,
  pub expected: Vec<String>,
  pub runs: Vec<serde_json::Value>,
  pub issues: Vec<Issue>,
}

/// What the engine delivers for this byte stream when it gets it in one read.
fn data_of(b: &Behaviour, stream: &[u8]) -> (Vec<String>, bool) {
  let extra = vec![(o::MAXMSGSIZE, MAXMSG.to_ne_bytes().to_vec())];
  let mut ep = Endpoint::new(build_engine(&b.cfg, EncImpl::Noise, None, &extra), false);
  let _ = ep.start();
  let _ = ep.on_bytes(stream.to_vec());
  let frames: Vec<String> = ep.apps.iter().filter(|a| a.a == "deliver").flat_map(|a| a.ids.clone()).collect();
  let hc = ep.apps.iter().any(|a| a.a == "hc");
  (frames, hc)
}

async fn one_run(ctx: &Context, ty: SocketType, chunks: &[Vec<u8>], uring: bool, expect_n: usize) -> Result<(Vec<String>, bool), String> {
  let s: Socket = ctx.socket(ty).map_err(|e| e.to_string())?;
  s.set_option_raw(o::MAXMSGSIZE, &MAXMSG.to_ne_bytes()).await.map_err(|e| e.to_string())?;
  if uring {
    s.set_option_raw(o::IO_URING_SESSION_ENABLED, &1i32.to_ne_bytes()).await.map_err(|e| e.to_string())?;
  }
  let mon = s.monitor_default().await.map_err(|e| e.to_string())?;
  s.bind("tcp://127.0.0.1:0").await.map_err(|e| e.to_string())?;
  let ep = s.get_option(o::LAST_ENDPOINT).await.map_err(|e| e.to_string())?;
  let ep = String::from_utf8_lossy(&ep).trim_end_matches('\0').to_string();
  let addr = ep.trim_start_matches("tcp://").to_string();
  let mut st = tokio::net::TcpStream::connect(&addr).await.map_err(|e| e.to_string())?;
  let _ = st.set_nodelay(true);
  for (i, c) in chunks.iter().enumerate() {
    if c.is_empty() {
      continue;
    }
    if st.write_all(c).await.is_err() {
      break;
    }
    let _ = st.flush().await;
    if i + 1 < chunks.len() {
      tokio::time::sleep(Duration::from_millis(12)).await;
    }
  }
  // collect what the application is handed
  let mut got = Vec::new();
  loop {
    let wait = if got.len() < expect_n { 1500 } else { 150 };
    match tokio::time::timeout(Duration::from_millis(wait), s.recv()).await {
      Ok(Ok(m)) => got.push(String::from_utf8_lossy(m.data().unwrap_or(&[])).to_string()),
      _ => break,
    }
    if got.len() > expect_n + 8 {
      break;
    }
  }
  let mut hs = false;
  while let Ok(Ok(ev)) = tokio::time::timeout(Duration::from_millis(5), mon.recv()).await {
    if format!("{:?}", ev).starts_with("HandshakeSucceeded") {
      hs = true;
    }
  }
  drop(st);
  let _ = tokio::time::timeout(Duration::from_secs(3), s.close()).await;
  Ok((got, hs))
}

pub async fn run(index: usize, b: &Behaviour, seed: u64, urings: &[bool]) -> Outcome {
  let mut rng = StdRng::seed_from_u64(seed ^ (index as u64).wrapping_mul(0xA24BAED4963EE407));
  let mut toks: Vec<Vec<u8>> = Vec::new();
  let mut labels = Vec::new();
  for st in &b.steps {
    if st["a"].as_str() == Some("emit") {
      toks.push(concretize(&st["tok"], &b.cfg, EncImpl::Noise, &mut rng));
      labels.push(tok_label(&st["tok"]));
    }
  }
  let stream: Vec<u8> = toks.iter().flatten().cloned().collect();
  let (expected, _hc) = data_of(b, &stream);
  // write plans
  let mut plans: Vec<(String, Vec<Vec<u8>>)> = Vec::new();
  plans.push(("one write".into(), vec![stream.clone()]));
  plans.push(("one write per token".into(), toks.clone()));
  {
    // TLC schedule: k tokens per read (fragments rounded to token boundaries + a mid-token split)
    let mut chunks: Vec<Vec<u8>> = Vec::new();
    let mut pos = 0usize;
    let mut emitted = 0usize;
    let mut carry: Vec<u8> = Vec::new();
    for st in &b.steps {
      match st["a"].as_str() {
        Some("emit") => emitted += 1,
        Some("deliver") => {
          let k = st["k"].as_u64().unwrap_or(0) as usize;
          let cut = st["cut"].as_bool().unwrap_or(false);
          let mut c = std::mem::take(&mut carry);
          let mut kk = k;
          if !c.is_empty() && kk > 0 {
            kk -= 1; // the remainder of a cut token counts as one piece
          }
          let end = (pos + kk).min(emitted).min(toks.len());
          for t in &toks[pos..end] {
            c.extend_from_slice(t);
          }
          pos = end;
          if cut && pos < toks.len() && pos < emitted && toks[pos].len() >= 2 {
            let at = toks[pos].len() / 2;
            c.extend_from_slice(&toks[pos][..at]);
            carry = toks[pos][at..].to_vec();
            pos += 1;
          }
          chunks.push(c);
        }
        _ => {}
      }
    }
    let mut rest = carry;
    for t in &toks[pos.min(toks.len())..] {
      rest.extend_from_slice(t);
    }
    if !rest.is_empty() {
      chunks.push(rest);
    }
    plans.push(("TLC schedule".into(), chunks));
  }
  let ty = crate::sock::socket_type(&b.cfg.st);
  let mut issues = Vec::new();
  let mut runs = Vec::new();
  for &uring in urings {
    let ctx = match Context::new() {
      Ok(c) => c,
      Err(e) => {
        issues.push(Issue { class: "tool".into(), code: "context".into(), step: 0, detail: e.to_string() });
        continue;
      }
    };
    for (name, chunks) in &plans {
      match one_run(&ctx, ty, chunks, uring, expected.len()).await {
        Err(e) => issues.push(Issue { class: "tool".into(), code: "setup".into(), step: 0, detail: e }),
        Ok((got, hs)) => {
          runs.push(serde_json::json!({"backend": if uring {"io_uring"} else {"tokio"}, "plan": name, "writes": chunks.len(), "got": got, "handshake": hs}));
          if got != expected {
            let code = if got.len() < expected.len() && expected.starts_with(&got) { "socket-drops-data" } else { "socket-delivery-differs" };
            if !issues.iter().any(|i: &Issue| i.code == code && i.detail.contains(if uring { "io_uring" } else { "tokio" })) {
              issues.push(Issue {
                class: "prop".into(),
                code: code.into(),
                step: 0,
                detail: format!("backend {} / {}: recv() returned {:?} but these bytes carry {:?}; peer sent {:?}", if uring { "io_uring" } else { "tokio" }, name, got, expected, labels),
              });
            }
          }
        }
      }
    }
    let _ = tokio::time::timeout(Duration::from_secs(5), ctx.term()).await;
  }
  Outcome { index, tokens: labels, expected, runs, issues }
}

pub fn run_file(path: &str, out: &str, urings: Vec<bool>, limit: usize) {
  let beh: Vec<Behaviour> = crate::util::read_jsonl(path);
  let seed = crate::util::seed_from_env();
  let rt = tokio::runtime::Builder::new_multi_thread().worker_threads(8).enable_all().build().unwrap();
  // distinct transcripts only, NULL listeners only (the raw peer has no secrets)
  let mut seen = std::collections::HashSet::new();
  let mut sel: Vec<(usize, Behaviour)> = Vec::new();
  for (i, b) in beh.iter().enumerate() {
    if !(b.cfg.srv && b.cfg.mech == "NULL") {
      continue;
    }
    let key = serde_json::to_string(&b.steps).unwrap();
    if seen.insert(key) {
      sel.push((i, b.clone()));
    }
    if sel.len() >= limit {
      break;
    }
  }
  let outs = rt.block_on(async {
    let mut res = Vec::new();
    let mut set = tokio::task::JoinSet::new();
    let mut it = sel.into_iter();
    let par = 12;
    loop {
      while set.len() < par {
        match it.next() {
          Some((i, b)) => {
            let u = urings.clone();
            set.spawn(async move { run(i, &b, seed, &u).await });
          }
          None => break,
        }
      }
      match set.join_next().await {
        Some(Ok(o)) => res.push(o),
        Some(Err(_)) => {}
        None => break,
      }
    }
    res
  });
  rt.shutdown_timeout(Duration::from_millis(500));
  let nruns: usize = outs.iter().map(|o| o.runs.len()).sum();
  let bad: Vec<_> = outs.iter().filter(|o| !o.issues.is_empty()).map(|o| serde_json::to_value(o).unwrap()).collect();
  let sample = outs.first().map(|o| serde_json::to_value(o).unwrap());
  crate::util::write_json(out, &serde_json::json!({"transcripts": outs.len(), "runs": nruns, "with_issues": bad.len(), "sample": sample, "outcomes": bad.into_iter().take(60).collect::<Vec<_>>()}));
}
