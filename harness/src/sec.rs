//! B1 replay for SecureChannel.tla on two real engines with CURVE and with Noise_XX.
use crate::eng::*;
use crate::peer::Issue;
use bytes::Bytes;
use rand::rngs::StdRng;
use rand::{Rng, SeedableRng};
use rzmq::protocol::zmtp::engine::ZmtpPhase;
use rzmq::socket::options as o;
use rzmq::{FrameBatch, Msg};
use serde::{Deserialize, Serialize};
use serde_json::Value;
use std::collections::VecDeque;
use std::time::{Duration, Instant};

#[derive(Deserialize, Clone, Debug)]
pub struct Behaviour {
  pub steps: Vec<Value>,
}

#[derive(Serialize)]
pub struct Outcome {
  pub index: usize,
  pub enc: String,
  pub issues: Vec<Issue>,
  pub records: usize,
}

const MARK: &[u8] = b"TOP-SECRET-PAYLOAD-";

fn size_of(class: &str) -> usize {
  // plaintext of one record = 9-byte long header + payload; the AEAD tag takes 16 of the 65535
  match class {
    "s" => 40,
    "m" => 30_000,
    "edge" => 65_535 - 16 - 9,
    "over" => 65_535 - 16 - 9 + 1,
    _ => 100_000,
  }
}

fn body(id: u64, size: usize) -> Vec<u8> {
  let mut v = MARK.to_vec();
  v.extend_from_slice(format!("{:06}|", id).as_bytes());
  let mut x = id as u32 ^ 0xA5A5_5A5A;
  while v.len() < size {
    // keep the marker findable even if a slice of the payload leaks: repeat it
    if v.len() % 4096 == 0 {
      v.extend_from_slice(MARK);
      continue;
    }
    x ^= x << 13;
    x ^= x >> 17;
    x ^= x << 5;
    v.push(b'a' + (x % 26) as u8);
  }
  v.truncate(size.max(MARK.len() + 7));
  v
}

fn contains(h: &[u8], n: &[u8]) -> bool {
  h.windows(n.len()).any(|w| w == n)
}

pub fn pair(enc: EncImpl, hb: bool) -> (Endpoint, Endpoint) {
  let a_cfg = Cfg { srv: false, st: "PUSH".into(), id: String::new(), mech: "ENC".into(), good: true, allow_v2: true };
  let b_cfg = Cfg { srv: true, st: "PULL".into(), id: String::new(), mech: "ENC".into(), good: true, allow_v2: true };
  let extra: Vec<(i32, Vec<u8>)> = if hb { vec![(o::HEARTBEAT_IVL, 1000i32.to_ne_bytes().to_vec()), (o::HEARTBEAT_TIMEOUT, 5000i32.to_ne_bytes().to_vec())] } else { vec![] };
  let mut a = Endpoint::new(build_engine(&a_cfg, enc, Some(&b_cfg), &extra), true);
  let mut b = Endpoint::new(build_engine(&b_cfg, enc, Some(&a_cfg), &extra), true);
  let mut to_b: Vec<u8> = a.start().toks.into_iter().flat_map(|t| t.bytes).collect();
  let mut to_a: Vec<u8> = b.start().toks.into_iter().flat_map(|t| t.bytes).collect();
  for _ in 0..20 {
    if to_a.is_empty() && to_b.is_empty() {
      break;
    }
    if !to_b.is_empty() {
      let o = b.on_bytes(std::mem::take(&mut to_b));
      to_a.extend(o.toks.into_iter().flat_map(|t| t.bytes));
    }
    if !to_a.is_empty() {
      let o = a.on_bytes(std::mem::take(&mut to_a));
      to_b.extend(o.toks.into_iter().flat_map(|t| t.bytes));
    }
  }
  (a, b)
}

pub fn run(index: usize, b: &Behaviour, enc: EncImpl, seed: u64, perturb: bool) -> Outcome {
  let mut rng = StdRng::seed_from_u64(seed ^ (index as u64).wrapping_mul(0x2545F4914F6CDD1D));
  let mut issues: Vec<Issue> = Vec::new();
  let (mut a, mut bb) = pair(enc, true);
  if a.eng.phase != ZmtpPhase::Data || bb.eng.phase != ZmtpPhase::Data {
    issues.push(Issue { class: "tool".into(), code: "setup".into(), step: 0, detail: format!("handshake did not complete: {} / {}", phase_name(a.eng.phase), phase_name(bb.eng.phase)) });
    return Outcome { index, enc: format!("{:?}", enc), issues, records: 0 };
  }
  let base = Instant::now() + Duration::from_secs(3600);
  a.eng.verif_set_last_activity(base);
  let mut chan: VecDeque<Vec<u8>> = VecDeque::new();
  let mut accepted: Vec<u64> = Vec::new();
  let mut nrec = 0usize;
  let mut ticks = 0u64;
  let mut sender_failed = false;
  let napps0 = bb.apps.len();
  for (si, st) in b.steps.iter().enumerate() {
    match st["a"].as_str().unwrap_or("?") {
      "send" => {
        let id = st["id"].as_u64().unwrap_or(0);
        let class = st["sz"].as_str().unwrap_or("s");
        let too_big = class == "over" || class == "big";
        let payload = body(id, size_of(class));
        // alternate between the two framing entry points the session uses
        let mut fb = FrameBatch::new();
        fb.push(Msg::from_vec(payload));
        let res: Result<Vec<u8>, String> = if id % 2 == 0 {
          a.eng.frame_batch(&[fb]).map(|b| b.to_vec()).map_err(|e| e.to_string())
        } else {
          let out = a.eng.on_app_message(fb);
          let errs: Vec<String> = out.app_actions.iter().filter_map(|x| if let rzmq::protocol::zmtp::actions::AppAction::PeerError(e) = x { Some(e.to_string()) } else { None }).collect();
          let bytes: Vec<u8> = sends(&out).iter().flat_map(|b| b.to_vec()).collect();
          if let Some(e) = errs.first() {
            Err(e.clone())
          } else if bytes.is_empty() {
            Err("on_app_message produced nothing".into())
          } else {
            Ok(bytes)
          }
        };
        match res {
          Ok(bytes) => {
            if contains(&bytes, MARK) {
              issues.push(Issue { class: "prop".into(), code: "cleartext".into(), step: si + 1, detail: format!("application payload visible in the bytes of an encrypted connection (message {}, class {})", id, class) });
            }
            let declared = if bytes.len() >= 2 { u16::from_be_bytes([bytes[0], bytes[1]]) as usize } else { 0 };
            if declared + 2 != bytes.len() {
              issues.push(Issue { class: "prop".into(), code: "mangled-record".into(), step: si + 1, detail: format!("message {} (class {}): the sender emitted a {}-byte record whose length prefix says {} - silently mangled instead of refused", id, class, bytes.len().saturating_sub(2), declared) });
            }
            if too_big {
              // the model refuses it; if the code put something on the wire it must still decode
              issues.push(Issue { class: "drift".into(), code: "oversize-not-refused".into(), step: si + 1, detail: format!("message {} (class {}) was framed into {} bytes instead of being refused", id, class, bytes.len()) });
            }
            nrec += 1;
            accepted.push(id);
            chan.push_back(bytes);
          }
          Err(e) => {
            // The sender's engine may have been closed by this harness's own liveness trick (the record the peer
            // seals in an "hb" step comes with a counter that an earlier "reflect" step has advanced): a closed
            // engine frames nothing, and that says nothing about record sizes.
            let sender_closed = matches!(a.eng.phase, rzmq::protocol::zmtp::engine::ZmtpPhase::Closed);
            if !too_big && sender_closed {
              issues.push(Issue { class: "drift".into(), code: "sender-closed".into(), step: si + 1, detail: format!("message {} not framed: the sending engine is closed", id) });
            } else if !too_big {
              issues.push(Issue { class: "prop".into(), code: "undecodable".into(), step: si + 1, detail: format!("message {} (class {}) that fits a record was refused: {}", id, class, e) });
            }
            sender_failed = true;
          }
        }
      }
      "hb" => {
        ticks += 1;
        if a.eng.is_waiting_for_pong() {
          // the peer shows it is alive with a (sealed) data record of its own
          let mut fb = FrameBatch::new();
          fb.push(Msg::from_vec(b"from-b".to_vec()));
          if let Ok(r) = bb.eng.frame_batch(&[fb]) {
            let _ = a.on_bytes(r.to_vec());
          }
        }
        let out = a.eng.on_tick(base + Duration::from_secs(2 * ticks));
        // pretend the PONG came so the next tick pings again
        let bytes: Vec<u8> = sends(&out).iter().flat_map(|b| b.to_vec()).collect();
        if bytes.is_empty() {
          issues.push(Issue { class: "drift".into(), code: "no-ping".into(), step: si + 1, detail: "tick produced no PING".into() });
        } else {
          nrec += 1;
          chan.push_back(bytes);
        }
        a.eng.verif_set_last_activity(base + Duration::from_secs(2 * ticks));
        // clear the wait through the public path: nothing else to do at engine level
      }
      "mutate" => {
        let i = st["i"].as_u64().unwrap_or(1) as usize - 1;
        if i >= chan.len() {
          issues.push(Issue { class: "drift".into(), code: "channel-shorter-than-model".into(), step: si + 1, detail: String::new() });
          break;
        }
        match st["kind"].as_str().unwrap_or("") {
          "flip" => {
            // the 2-byte length prefix is not authenticated: a flip there re-frames the stream (the
            // receiver waits for / swallows more bytes) - that is the "cut" case; flip the sealed body
            let r = &mut chan[i];
            let pos = rng.random_range(2..r.len());
            r[pos] ^= 1 << rng.random_range(0..8);
          }
          "reflect" => {
            // a record sealed by the receiver itself (its next one) takes the place of record i
            let mut fb = FrameBatch::new();
            fb.push(Msg::from_vec(b"reflected-own-record".to_vec()));
            match bb.eng.frame_batch(&[fb]) {
              Ok(r) => chan[i] = r.to_vec(),
              Err(_) => {
                let r = &mut chan[i];
                let pos = rng.random_range(2..r.len());
                r[pos] ^= 1;
              }
            }
          }
          "drop" => {
            chan.remove(i);
          }
          "dup" => {
            let c = chan[i].clone();
            chan.insert(i + 1, c);
          }
          "swap" => {
            if i + 1 < chan.len() {
              chan.swap(i, i + 1);
            }
          }
          _ => {
            let n = chan[i].len();
            let keep = rng.random_range(1..n.max(2));
            chan[i].truncate(keep);
            chan.truncate(i + 1);
          }
        }
      }
      "recv" => {
        let rec = match chan.pop_front() {
          Some(r) => r,
          None => break,
        };
        let before = bb.apps.len();
        let out = bb.on_bytes(rec);
        if out.panicked {
          issues.push(Issue { class: "prop".into(), code: "panic".into(), step: si + 1, detail: "receiver panicked on a record".into() });
          break;
        }
        let closed = bb.eng.phase == ZmtpPhase::Closed;
        let mut want_closed = st["closed"].as_bool().unwrap_or(false);
        if perturb && si + 1 == b.steps.len() {
          want_closed = !want_closed;
        }
        let ndel = bb.apps[napps0..].iter().filter(|x| x.a == "deliver").count();
        if closed != want_closed || ndel as u64 != st["ndelivered"].as_u64().unwrap_or(0) {
          issues.push(Issue { class: if perturb { "selftest".into() } else { "drift".into() }, code: "recv".into(), step: si + 1, detail: format!("receiver closed={} delivered={} ; model closed={} delivered={}", closed, ndel, want_closed, st["ndelivered"]) });
        }
        let _ = before;
        // what the receiver answers (PONG records) goes straight back to the sender, in order
        for t in &out.toks {
          let _ = a.on_bytes(t.bytes.clone());
        }
      }
      _ => {}
    }
    // property level after every step: what B handed to its application is a prefix of what A accepted
    let got: Vec<u64> = bb.apps[napps0..]
      .iter()
      .filter(|x| x.a == "deliver")
      .map(|x| {
        let s = x.ids.first().cloned().unwrap_or_default();
        s.get(MARK.len()..MARK.len() + 6).and_then(|t| t.parse::<u64>().ok()).unwrap_or(9999)
      })
      .collect();
    let intact = bb.apps[napps0..].iter().filter(|x| x.a == "deliver").all(|x| {
      let s = x.ids.first().cloned().unwrap_or_default();
      let id = s.get(MARK.len()..MARK.len() + 6).and_then(|t| t.parse::<u64>().ok()).unwrap_or(0);
      x.ids.len() == 1 && s.as_bytes() == &body(id, s.len())[..]
    });
    if got.len() > accepted.len() || got.iter().zip(accepted.iter()).any(|(g, a)| g != a) || !intact {
      if !issues.iter().any(|i| i.code == "wrong-delivery") {
        issues.push(Issue { class: "prop".into(), code: "wrong-delivery".into(), step: si + 1, detail: format!("receiver handed {:?} (intact={}) to the application; sender accepted {:?}", got, intact, accepted) });
      }
    }
  }
  // no interference and everything read: the peer must have decoded all the sender emitted
  let mutated = b.steps.iter().any(|s| s["a"].as_str() == Some("mutate"));
  if !mutated && chan.is_empty() && !issues.iter().any(|i| i.class == "prop") {
    let ndel = bb.apps[napps0..].iter().filter(|x| x.a == "deliver").count();
    let recvs = b.steps.iter().filter(|s| s["a"].as_str() == Some("recv")).count();
    if recvs >= nrec && (ndel != accepted.len() || bb.eng.phase == ZmtpPhase::Closed) {
      issues.push(Issue { class: "prop".into(), code: "undecodable".into(), step: 0, detail: format!("nobody tampered with the stream, yet the receiver decoded {} of {} accepted messages (receiver phase {}); heartbeats in this run: {}", ndel, accepted.len(), phase_name(bb.eng.phase), ticks) });
    }
  }
  let _ = sender_failed;
  Outcome { index, enc: format!("{:?}", enc), issues, records: nrec }
}

/// Two sessions between the same static keys, same plaintexts: no record may repeat.
pub fn fresh_per_session(enc: EncImpl) -> Vec<Issue> {
  let mut issues = Vec::new();
  let mut runs: Vec<Vec<Vec<u8>>> = Vec::new();
  for _ in 0..2 {
    let (mut a, _b) = pair(enc, false);
    let mut recs = Vec::new();
    for id in 1..=3u64 {
      let mut fb = FrameBatch::new();
      fb.push(Msg::from_vec(body(id, 64)));
      if let Ok(bts) = a.eng.frame_batch(&[fb]) {
        recs.push(bts.to_vec());
      }
    }
    runs.push(recs);
  }
  if runs.len() == 2 {
    for (i, r) in runs[0].iter().enumerate() {
      if runs[1].get(i) == Some(r) {
        issues.push(Issue { class: "prop".into(), code: "keystream-reuse".into(), step: i + 1, detail: format!("{:?}: record {} of two sessions between the same key pairs is byte-identical for the same plaintext (session keys and nonces do not depend on the session)", enc, i + 1) });
        break;
      }
    }
  }
  let _ = Bytes::new();
  issues
}
