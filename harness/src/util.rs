//! Small helpers shared by the harness binaries.
pub fn seed_from_env() -> u64 {
  std::env::var("VERIF_SEED").ok().and_then(|s| s.parse().ok()).unwrap_or(1)
}
