//! Small helpers shared by the harness subcommands.
use serde::de::DeserializeOwned;
use std::io::{BufRead, BufReader, Write};

pub fn seed_from_env() -> u64 {
  std::env::var("VERIF_SEED").ok().and_then(|s| s.parse().ok()).unwrap_or(1)
}

/// Read a file with one JSON value per line.
pub fn read_jsonl<T: DeserializeOwned>(path: &str) -> Vec<T> {
  let f = std::fs::File::open(path).unwrap_or_else(|e| tool_error(&format!("open {}: {}", path, e)));
  let mut out = Vec::new();
  for (i, line) in BufReader::new(f).lines().enumerate() {
    let line = line.unwrap_or_else(|e| tool_error(&format!("read {}: {}", path, e)));
    if line.trim().is_empty() {
      continue;
    }
    match serde_json::from_str::<T>(&line) {
      Ok(v) => out.push(v),
      Err(e) => tool_error(&format!("{}:{}: {}", path, i + 1, e)),
    }
  }
  out
}

pub fn write_json<T: serde::Serialize>(path: &str, v: &T) {
  let mut f = std::fs::File::create(path).unwrap_or_else(|e| tool_error(&format!("create {}: {}", path, e)));
  f.write_all(serde_json::to_string(v).unwrap().as_bytes()).unwrap();
  f.write_all(b"\n").unwrap();
}

/// Exit code 2 is reserved for tool errors (never for findings).
pub fn tool_error(msg: &str) -> ! {
  eprintln!("TOOL-ERROR {}", msg);
  std::process::exit(2)
}

/// Silence the default panic message (panics in code under test are data, caught and reported).
pub fn quiet_panics() {
  if std::env::var("VH_LOUD").is_ok() {
    return;
  }
  std::panic::set_hook(Box::new(|_| {}));
}
