//! B1 replay for Router.tla on the real RouterMap, and the envelope (delimiter) helpers.
use crate::peer::Issue;
use futures::FutureExt;
use rzmq::verif::facade::{self, RouterMapX};
use rzmq::{FrameBatch, Msg};
use serde::{Deserialize, Serialize};
use serde_json::Value;

#[derive(Deserialize, Clone, Debug)]
pub struct Behaviour {
  pub steps: Vec<Value>,
}
#[derive(Serialize)]
pub struct Outcome {
  pub index: usize,
  pub issues: Vec<Issue>,
}

fn pipe_no(p: &str) -> usize {
  p.parse().unwrap_or(0)
}
fn placeholder(p: &str) -> Vec<u8> {
  format!("auto-{}", p).into_bytes()
}
fn uri(p: &str) -> String {
  format!("tcp://peer-{}", p)
}

pub fn run(index: usize, b: &Behaviour, pipes: &[&str], ids: &[&str], perturb: bool) -> Outcome {
  let map = RouterMapX::new();
  let mut issues = Vec::new();
  // harness-side truth: which pipes are live and what each announced
  let mut live: Vec<String> = Vec::new();
  let mut announced: std::collections::BTreeMap<String, Option<String>> = Default::default();
  let mut tainted: Vec<String> = Vec::new();
  for (si, st) in b.steps.iter().enumerate() {
    let p = st["p"].as_str().unwrap_or("0").to_string();
    match st["op"].as_str().unwrap_or("") {
      "attach" => {
        map.add_peer(&placeholder(&p), pipe_no(&p), &uri(&p)).now_or_never();
        live.push(p.clone());
        announced.insert(p.clone(), None);
      }
      "identify" => {
        let i = st["i"].as_str().unwrap_or("").to_string();
        if live.iter().any(|q| *q != p && announced.get(q).cloned().flatten().as_deref() == Some(i.as_str())) {
          tainted.push(i.clone());
        }
        map.update_peer_identity(pipe_no(&p), i.as_bytes(), &uri(&p), Some("DEALER")).now_or_never();
        announced.insert(p.clone(), Some(i));
      }
      "detach" => {
        map.remove_peer_by_read_pipe(pipe_no(&p)).now_or_never();
        live.retain(|q| *q != p);
        announced.insert(p.clone(), None);
      }
      _ => {}
    }
    // model comparison (drift)
    let snap = &st["st"];
    let mut all_ids: Vec<Vec<u8>> = ids.iter().map(|s| s.as_bytes().to_vec()).collect();
    all_ids.extend(pipes.iter().map(|q| placeholder(q)));
    for id in &all_ids {
      let key = String::from_utf8_lossy(id).to_string();
      let model = snap["fwd"][&key].as_str().unwrap_or("none").to_string();
      let mut want = if model == "none" { None } else { Some(uri(&model)) };
      if perturb && si + 1 == b.steps.len() && *id == all_ids[0] {
        want = if want.is_none() { Some(uri("9")) } else { None };
      }
      let real = map.uri_of_identity(id).now_or_never().flatten();
      if real != want {
        issues.push(Issue { class: if perturb { "selftest".into() } else { "drift".into() }, code: "forward-map".into(), step: si + 1, detail: format!("identity {} routes to {:?}, model {:?}", key, real, want) });
      }
    }
    for q in pipes {
      let model = snap["rev"][*q].as_str().unwrap_or("none");
      let real = map.identity_of_pipe(pipe_no(q)).now_or_never().flatten().map(|v| String::from_utf8_lossy(&v).to_string());
      if real.as_deref().unwrap_or("none") != model {
        issues.push(Issue { class: "drift".into(), code: "reverse-map".into(), step: si + 1, detail: format!("pipe {} maps to {:?}, model {}", q, real, model) });
      }
    }
    // property level on the real maps
    let id_of = |q: &String| -> Vec<u8> { announced.get(q).cloned().flatten().map(|s| s.into_bytes()).unwrap_or_else(|| placeholder(q)) };
    for id in &all_ids {
      if let Some(u) = map.uri_of_identity(id).now_or_never().flatten() {
        let target = live.iter().find(|q| uri(q) == u);
        match target {
          None => issues.push(Issue { class: "prop".into(), code: "routes-to-dead-connection".into(), step: si + 1, detail: format!("identity {:?} routes to {} which is not attached", String::from_utf8_lossy(id), u) }),
          Some(q) => {
            if id_of(q) != *id {
              issues.push(Issue { class: "prop".into(), code: "routes-to-wrong-peer".into(), step: si + 1, detail: format!("a message addressed to {:?} would go to the connection of {:?}", String::from_utf8_lossy(id), String::from_utf8_lossy(&id_of(q))) });
            }
          }
        }
      }
    }
    for q in &live {
      let want = id_of(q);
      let real = map.identity_of_pipe(pipe_no(q)).now_or_never().flatten();
      if real.as_deref() != Some(&want[..]) {
        issues.push(Issue { class: "prop".into(), code: "wrong-identity-prefix".into(), step: si + 1, detail: format!("messages from connection {} would be prefixed with {:?} but its identity is {:?}", q, real.map(|v| String::from_utf8_lossy(&v).to_string()), String::from_utf8_lossy(&want)) });
      }
      let key = String::from_utf8_lossy(&want).to_string();
      if !tainted.contains(&key) {
        let u = map.uri_of_identity(&want).now_or_never().flatten();
        if u != Some(uri(q)) {
          issues.push(Issue { class: "prop".into(), code: "unroutable-live-peer".into(), step: si + 1, detail: format!("connection {} announced {:?} (never contested) but that identity routes to {:?}", q, key, u) });
        }
      }
    }
    if issues.iter().any(|i| i.class == "prop") {
      break;
    }
  }
  Outcome { index, issues }
}

/// Envelope helpers: Decode(Encode(payload)) = payload for every payload shape over {empty, non-empty}.
pub fn envelope_roundtrip() -> Vec<Issue> {
  let mut issues = Vec::new();
  let shapes: Vec<Vec<&[u8]>> = {
    let mut v: Vec<Vec<&[u8]>> = vec![vec![]];
    let mut out = Vec::new();
    for _ in 0..3 {
      let mut next = Vec::new();
      for s in &v {
        for f in [&b""[..], &b"x"[..]] {
          let mut t = s.clone();
          t.push(f);
          next.push(t);
        }
      }
      out.extend(next.iter().cloned());
      v = next;
    }
    out
  };
  let mk = |frames: &[&[u8]]| -> FrameBatch {
    let mut fb = FrameBatch::new();
    for (i, f) in frames.iter().enumerate() {
      let mut m = Msg::from_vec(f.to_vec());
      if i + 1 < frames.len() {
        m.set_flags(rzmq::MsgFlags::MORE);
      }
      fb.push(m);
    }
    fb
  };
  let content = |fb: &FrameBatch| -> Vec<Vec<u8>> { fb.iter().map(|m| m.data().unwrap_or(&[]).to_vec()).collect() };
  for s in &shapes {
    // DEALER side: encode prepends the delimiter, decode strips it
    let mut fb = mk(s);
    facade::dealer_auto_encode(&mut fb);
    facade::dealer_auto_decode(&mut fb);
    if content(&fb) != s.iter().map(|f| f.to_vec()).collect::<Vec<_>>() {
      issues.push(Issue { class: "prop".into(), code: "envelope-dealer".into(), step: 0, detail: format!("dealer decode(encode({:?})) = {:?}", s, content(&fb)) });
    }
    // ROUTER side: [identity] + payload
    let mut with_id: Vec<&[u8]> = vec![&b"ID"[..]];
    with_id.extend(s.iter().cloned());
    let mut fb = mk(&with_id);
    facade::router_auto_encode(&mut fb);
    let more_ok = fb.iter().enumerate().all(|(i, m)| m.is_more() == (i + 1 < fb.len()));
    facade::router_auto_decode(&mut fb);
    if content(&fb) != with_id.iter().map(|f| f.to_vec()).collect::<Vec<_>>() || !more_ok {
      issues.push(Issue { class: "prop".into(), code: "envelope-router".into(), step: 0, detail: format!("router decode(encode({:?})) = {:?} (MORE flags ok: {})", with_id, content(&fb), more_ok) });
    }
  }
  issues
}
