//! B1 replay for Ingress.tla on the real AnonymousIngressEngine.
use crate::peer::Issue;
use futures::FutureExt;
use rzmq::verif::facade::{AnonIngressX, IngressSenderX};
use rzmq::{FrameBatch, Msg, MsgFlags};
use serde::{Deserialize, Serialize};
use serde_json::Value;
use std::collections::BTreeMap;

#[derive(Deserialize, Clone, Debug)]
pub struct Behaviour {
  pub steps: Vec<Value>,
}
#[derive(Serialize)]
pub struct Outcome {
  pub index: usize,
  pub issues: Vec<Issue>,
}

fn msg(id: u64, n: u64) -> FrameBatch {
  let mut fb = FrameBatch::new();
  for k in 1..=n {
    let mut m = Msg::from_vec(format!("{}.{}/{}", id, k, n).into_bytes());
    if k < n {
      m.set_flags(MsgFlags::MORE);
    }
    fb.push(m);
  }
  fb
}
/// (id, k, n, more)
fn parse(m: &Msg) -> (u64, u64, u64, bool) {
  let s = String::from_utf8_lossy(m.data().unwrap_or(&[])).to_string();
  let (a, b) = s.split_once('.').unwrap_or(("0", "0/0"));
  let (k, n) = b.split_once('/').unwrap_or(("0", "0"));
  (a.parse().unwrap_or(0), k.parse().unwrap_or(0), n.parse().unwrap_or(0), m.is_more())
}

pub fn run(index: usize, b: &Behaviour, perturb: bool) -> Outcome {
  let eng = AnonIngressX::new(8);
  let mut senders: BTreeMap<String, IngressSenderX> = BTreeMap::new();
  for p in ["1", "2", "3"] {
    senders.insert(p.to_string(), eng.register_pipe(p.parse().unwrap(), 16));
  }
  let mut issues = Vec::new();
  let mut out: Vec<(u64, u64, u64, bool)> = Vec::new();
  // reference state of Ingress.tla; which connection is served next is the real queue's choice
  let mut queues: BTreeMap<String, Vec<(u64, u64)>> = BTreeMap::new();
  let mut cache: Option<(u64, u64, u64)> = None; // (id, next frame, n)
  for (si, st) in b.steps.iter().enumerate() {
    let last = si + 1 == b.steps.len();
    match st["op"].as_str().unwrap_or("") {
      "arrive" => {
        let p = st["p"].as_str().unwrap_or("1");
        let (id, n) = (st["id"].as_u64().unwrap_or(0), st["n"].as_u64().unwrap_or(1));
        if !senders[p].try_send(msg(id, n)) {
          issues.push(Issue { class: "drift".into(), code: "enqueue-refused".into(), step: si + 1, detail: "try_send refused".into() });
        } else {
          queues.entry(p.to_string()).or_default().push((id, n));
        }
      }
      "detach" => {
        let p = st["p"].as_str().unwrap_or("1");
        eng.deregister_pipe(p.parse().unwrap());
      }
      "recv" => {
        let got = match eng.try_recv().now_or_never() {
          Some(Ok(m)) => Some(parse(&m)),
          _ => None,
        };
        let mut expect_cont = cache.map(|(id, k, n)| (id, k, k < n));
        if perturb && last {
          expect_cont = Some((99, 1, false));
        }
        match (expect_cont, got) {
          (Some(w), g) => {
            if g.map(|x| (x.0, x.1, x.3)) != Some(w) {
              issues.push(Issue { class: if perturb && last { "selftest".into() } else { "drift".into() }, code: "recv".into(), step: si + 1, detail: format!("recv() returned {:?} while message {:?} is being read", g, w) });
            }
            cache = match cache {
              Some((id, k, n)) if k < n => Some((id, k + 1, n)),
              _ => None,
            };
          }
          (None, Some(g)) => {
            let head = queues.iter().find(|(_, q)| q.first().map(|h| h.0) == Some(g.0)).map(|(p, _)| p.clone());
            match head {
              Some(p) if g.1 == 1 => {
                let (id, n) = queues.get_mut(&p).unwrap().remove(0);
                cache = if n > 1 { Some((id, 2, n)) } else { None };
              }
              _ => issues.push(Issue { class: "drift".into(), code: "recv".into(), step: si + 1, detail: format!("recv() returned {:?} which is not the first frame of the next message of any connection ({:?})", g, queues) }),
            }
          }
          (None, None) => {
            if queues.values().any(|q| !q.is_empty()) {
              issues.push(Issue { class: "drift".into(), code: "recv-empty".into(), step: si + 1, detail: format!("recv() returned nothing while {:?} is queued", queues) });
            }
          }
        }
        if let Some(g) = got {
          out.push(g);
        }
      }
      "recvmp" => {
        let frames: Vec<(u64, u64, u64, bool)> = match eng.try_recv_multipart().now_or_never() {
          Some(Ok(fb)) => fb.iter().map(parse).collect(),
          _ => vec![],
        };
        let have: Vec<(u64, u64)> = frames.iter().map(|f| (f.0, f.1)).collect();
        if let Some((id, k, n)) = cache {
          let want: Vec<(u64, u64)> = (k..=n).map(|x| (id, x)).collect();
          if have != want {
            issues.push(Issue { class: "drift".into(), code: "recvmp".into(), step: si + 1, detail: format!("recv_multipart() returned {:?} instead of the rest {:?} of the message being read", have, want) });
          }
          cache = None;
        } else if let Some(first) = have.first() {
          let head = queues.iter().find(|(_, q)| q.first().map(|h| h.0) == Some(first.0)).map(|(p, _)| p.clone());
          match head {
            Some(p) => {
              let (id, n) = queues.get_mut(&p).unwrap().remove(0);
              let want: Vec<(u64, u64)> = (1..=n).map(|x| (id, x)).collect();
              if have != want {
                issues.push(Issue { class: "drift".into(), code: "recvmp".into(), step: si + 1, detail: format!("recv_multipart() returned {:?}, the message is {:?}", have, want) });
              }
            }
            None => issues.push(Issue { class: "drift".into(), code: "recvmp".into(), step: si + 1, detail: format!("recv_multipart() returned {:?}: not the next message of any connection ({:?})", have, queues) }),
          }
        } else if queues.values().any(|q| !q.is_empty()) {
          issues.push(Issue { class: "drift".into(), code: "recv-empty".into(), step: si + 1, detail: format!("recv_multipart() returned nothing while {:?} is queued", queues) });
        }
        out.extend(frames);
      }
      _ => {}
    }
    // property level: what came out so far is a sequence of whole messages
    for i in 0..out.len() {
      let (id, k, n, more) = out[i];
      let ok_more = more == (k < n);
      let ok_seq = if k == 1 { i == 0 || !out[i - 1].3 } else { i > 0 && out[i - 1].0 == id && out[i - 1].1 + 1 == k };
      if !(ok_more && ok_seq) {
        if !issues.iter().any(|x| x.code == "message-not-whole") {
          issues.push(Issue { class: "prop".into(), code: "message-not-whole".into(), step: si + 1, detail: format!("the application was handed frames {:?}: frame {} does not continue the message before it (a half-read message was truncated or interleaved)", out.iter().map(|f| format!("{}.{}/{}{}", f.0, f.1, f.2, if f.3 { "+" } else { "" })).collect::<Vec<_>>(), i + 1) });
        }
        break;
      }
    }
  }
  Outcome { index, issues }
}
