//! B2 for Rpq.tla: the real `ReadyPipeQueue<u64>` under the controlled scheduler.
//!
//! * guided: a TLC behaviour (sequence of (task, label) steps with the expected counters) is
//!   replayed step by step; after each step queued / reserved / channel length / ready-list length
//!   are compared with the model (drift).  Then the system runs free to quiescence.
//! * random: seeded schedules; the steps taken are recorded (for trace validation by TLC).
//! In both modes the property is judged on the real outcome at quiescence: every item whose
//! enqueue succeeded was dequeued exactly once, per-pipe order preserved per consumer, nobody is
//! left blocked while an item is queued (lost wake-up), counters back to zero.
use crate::peer::Issue;
use crate::sched::*;
use rand::rngs::StdRng;
use rand::{Rng, SeedableRng};
use rzmq::verif::facade::{RpqSenderX, RpqX};
use serde::{Deserialize, Serialize};
use serde_json::{json, Value};
use std::collections::{BTreeMap, VecDeque};
use std::sync::{Arc, Mutex};

#[derive(Deserialize, Clone, Debug)]
pub struct Behaviour {
  pub pipes: Vec<String>,
  pub cons: Vec<String>,
  pub cap: usize,
  pub readycap: usize,
  pub batchn: usize,
  pub steps: Vec<Value>,
}

#[derive(Clone, Debug)]
pub struct Setup {
  pub pipes: Vec<String>,
  pub cons: Vec<String>,
  pub cap: usize,
  pub readycap: usize,
  pub batchn: usize,
  /// per producer: ops ("send" | "try" | "batch")
  pub scripts: Vec<Vec<String>>,
  /// per consumer: "pop" | "trypop"
  pub modes: Vec<String>,
}

#[derive(Default)]
struct Shared {
  /// (pipe index, item) in the order the enqueue call returned success
  accepted: Vec<(usize, u64)>,
  refused: Vec<(usize, u64)>,
  /// (consumer index, pipe id, item) in return order
  popped: Vec<(usize, usize, u64)>,
}

pub struct World {
  pub ctrl: Controller,
  pub q: Arc<RpqX<u64>>,
  observers: Vec<RpqSenderX<u64>>,
  shared: Arc<Mutex<Shared>>,
  pub setup: Setup,
  pub prod_ids: Vec<usize>,
  pub cons_ids: Vec<usize>,
}

fn infer_setup(b: &Behaviour) -> Setup {
  let mut scripts: Vec<Vec<String>> = vec![Vec::new(); b.pipes.len()];
  let mut modes: Vec<String> = vec!["pop".into(); b.cons.len()];
  for s in &b.steps {
    let t = s["t"].as_str().unwrap_or("");
    let l = s["l"].as_str().unwrap_or("");
    if let Some(pi) = b.pipes.iter().position(|x| x == t) {
      match l {
        "send.S1" => scripts[pi].push("send".into()),
        "try.T1" => scripts[pi].push("try".into()),
        "batch.B1" => scripts[pi].push("batch".into()),
        _ => {}
      }
    }
    if let Some(ci) = b.cons.iter().position(|x| x == t) {
      if l.starts_with("trypop") {
        modes[ci] = "trypop".into();
      }
    }
  }
  Setup { pipes: b.pipes.clone(), cons: b.cons.clone(), cap: b.cap, readycap: b.readycap, batchn: b.batchn, scripts, modes }
}

pub fn build(setup: &Setup, pops_per_consumer: usize) -> World {
  let ctrl = Controller::new();
  let q = Arc::new(RpqX::<u64>::new(setup.readycap));
  let shared = Arc::new(Mutex::new(Shared::default()));
  let mut observers = Vec::new();
  let mut prod_ids = Vec::new();
  for (pi, _) in setup.pipes.iter().enumerate() {
    let sender = Arc::new(q.register_pipe(pi + 1, setup.cap, 1));
    observers.push(q.register_pipe(pi + 1, setup.cap, 1));
    let mut ops: Vec<Box<dyn FnOnce() -> BoxFut + Send>> = Vec::new();
    let mut item = 1u64;
    for op in &setup.scripts[pi] {
      let s = sender.clone();
      let sh = shared.clone();
      match op.as_str() {
        "send" => {
          let it = item;
          item += 1;
          ops.push(Box::new(move || {
            Box::pin(async move {
              let r = s.send(it).await;
              let mut g = sh.lock().unwrap();
              if r.is_ok() {
                g.accepted.push((pi, it));
              } else {
                g.refused.push((pi, it));
              }
            })
          }));
        }
        "try" => {
          let it = item;
          item += 1;
          ops.push(Box::new(move || {
            Box::pin(async move {
              let r = s.try_send(it);
              let mut g = sh.lock().unwrap();
              if r.is_ok() {
                g.accepted.push((pi, it));
              } else {
                g.refused.push((pi, it));
              }
            })
          }));
        }
        _ => {
          let n = setup.batchn as u64;
          let first = item;
          item += n;
          ops.push(Box::new(move || {
            Box::pin(async move {
              let mut dq: VecDeque<u64> = (first..first + n).collect();
              let sent = s.try_send_batch(&mut dq) as u64;
              let mut g = sh.lock().unwrap();
              for it in first..first + sent {
                g.accepted.push((pi, it));
              }
              for it in dq {
                g.refused.push((pi, it));
              }
            })
          }));
        }
      }
    }
    // a cancelled send never returned: its item was neither accepted nor refused by the queue; the
    // caller knows it was cancelled. Nothing to record.
    prod_ids.push(ctrl.spawn(&setup.pipes[pi], ops, Box::new(|_, _| {})));
  }
  let mut cons_ids = Vec::new();
  for (ci, _) in setup.cons.iter().enumerate() {
    let mut ops: Vec<Box<dyn FnOnce() -> BoxFut + Send>> = Vec::new();
    let trypop = setup.modes[ci] == "trypop";
    for _ in 0..pops_per_consumer {
      let qq = q.clone();
      let sh = shared.clone();
      if trypop {
        ops.push(Box::new(move || {
          Box::pin(async move {
            if let Some((p, it)) = qq.try_pop() {
              sh.lock().unwrap().popped.push((ci, p, it));
            }
          })
        }));
      } else {
        ops.push(Box::new(move || {
          Box::pin(async move {
            if let Ok((p, it)) = qq.pop().await {
              sh.lock().unwrap().popped.push((ci, p, it));
            }
          })
        }));
      }
    }
    cons_ids.push(ctrl.spawn(&setup.cons[ci], ops, Box::new(|_, _| {})));
  }
  World { ctrl, q, observers, shared, setup: setup.clone(), prod_ids, cons_ids }
}

impl World {
  pub fn projection(&self) -> (Vec<usize>, Vec<usize>, Vec<usize>, usize) {
    (
      self.observers.iter().map(|o| o.queued_count()).collect(),
      self.observers.iter().map(|o| o.reserved_count()).collect(),
      self.observers.iter().map(|o| o.len()).collect(),
      self.q.ready_len(),
    )
  }
  fn task_of(&self, name: &str) -> Option<usize> {
    if let Some(i) = self.setup.pipes.iter().position(|x| x == name) {
      return Some(self.prod_ids[i]);
    }
    if let Some(i) = self.setup.cons.iter().position(|x| x == name) {
      return Some(self.cons_ids[i]);
    }
    None
  }
  fn name_of(&self, id: usize) -> String {
    if let Some(i) = self.prod_ids.iter().position(|&x| x == id) {
      return self.setup.pipes[i].clone();
    }
    if let Some(i) = self.cons_ids.iter().position(|&x| x == id) {
      return self.setup.cons[i].clone();
    }
    "?".into()
  }
  fn is_trypop(&self, id: usize) -> bool {
    self.cons_ids.iter().position(|&x| x == id).map(|i| self.setup.modes[i] == "trypop").unwrap_or(false)
  }

  /// Tasks that can take a step now.
  fn enabled(&self, views: &[TaskView]) -> Vec<usize> {
    let mut v = Vec::new();
    for (id, t) in views.iter().enumerate() {
      match t.status {
        Status::Runnable => v.push(id),
        Status::AtPoint => {
          // try_pop on an empty ready list returns None and comes straight back: a stutter
          if self.is_trypop(id) && t.point == "trypop.Q1" && self.q.ready_len() == 0 {
            continue;
          }
          v.push(id)
        }
        _ => {}
      }
    }
    v
  }

  /// Run seeded random steps until nothing is enabled. Returns the steps granted.
  pub fn free_run(&self, rng: &mut StdRng, max_steps: usize, trace: &mut Vec<Value>) -> usize {
    let mut n = 0;
    loop {
      let views = self.ctrl.quiesce();
      self.drain_log(trace);
      let en = self.enabled(&views);
      if en.is_empty() || n >= max_steps {
        return n;
      }
      let id = en[rng.random_range(0..en.len())];
      self.ctrl.grant(id);
      n += 1;
    }
  }

  fn drain_log(&self, trace: &mut Vec<Value>) {
    for e in self.ctrl.take_log() {
      let (q, r, cl, rl) = self.projection();
      // projection is only meaningful for the last drained event (single-step grants): attach to each
      trace.push(json!({"t": self.name_of(e.task), "l": e.label, "q": q, "r": r, "cl": cl, "rl": rl}));
    }
  }

  /// Property-level verdict at quiescence.
  pub fn verdict(&self, views: &[TaskView], issues: &mut Vec<Issue>) {
    let g = self.shared.lock().unwrap();
    let mut acc: BTreeMap<usize, Vec<u64>> = BTreeMap::new();
    for (p, it) in &g.accepted {
      acc.entry(*p + 1).or_default().push(*it);
    }
    let mut pop: BTreeMap<usize, Vec<u64>> = BTreeMap::new();
    for (_, p, it) in &g.popped {
      pop.entry(*p).or_default().push(*it);
    }
    let any_blocked_consumer = self.cons_ids.iter().any(|&c| matches!(views[c].status, Status::Blocked));
    let consumers_left = self.cons_ids.iter().any(|&c| views[c].status != Status::Done);
    for (p, items) in &acc {
      let mut a = items.clone();
      a.sort();
      let mut b = pop.get(p).cloned().unwrap_or_default();
      let dup = {
        let mut s = b.clone();
        s.sort();
        let n = s.len();
        s.dedup();
        s.len() != n
      };
      if dup {
        issues.push(Issue { class: "prop".into(), code: "duplicate".into(), step: 0, detail: format!("pipe {}: dequeued {:?}", p, b) });
      }
      b.sort();
      b.dedup();
      let missing: Vec<u64> = a.iter().filter(|x| !b.contains(x)).cloned().collect();
      let extra: Vec<u64> = b.iter().filter(|x| !a.contains(x)).cloned().collect();
      if !extra.is_empty() {
        issues.push(Issue { class: "prop".into(), code: "phantom".into(), step: 0, detail: format!("pipe {}: dequeued {:?} which was never accepted", p, extra) });
      }
      if !missing.is_empty() && consumers_left {
        let (q, r, cl, rl) = self.projection();
        issues.push(Issue {
          class: "prop".into(),
          code: "lost-wakeup".into(),
          step: 0,
          detail: format!(
            "pipe {}: items {:?} were accepted but never dequeued although consumers keep receiving ({}); queued={:?} reserved={:?} chan={:?} ready={}",
            p, missing, if any_blocked_consumer { "a consumer sleeps in pop()" } else { "nothing is enabled" }, q, r, cl, rl
          ),
        });
      }
    }
    // per-consumer, per-pipe order
    let mut last: BTreeMap<(usize, usize), u64> = BTreeMap::new();
    for (c, p, it) in &g.popped {
      if let Some(prev) = last.get(&(*c, *p)) {
        if prev >= it {
          issues.push(Issue { class: "prop".into(), code: "order".into(), step: 0, detail: format!("consumer {} got item {} of pipe {} after item {}", c, it, p, prev) });
        }
      }
      last.insert((*c, *p), *it);
    }
    // a producer stuck forever while consumers are idle is the same defect seen from the other side
    for &pid in &self.prod_ids {
      if views[pid].status == Status::Blocked && consumers_left {
        let (q, r, cl, rl) = self.projection();
        issues.push(Issue { class: "prop".into(), code: "lost-wakeup".into(), step: 0, detail: format!("producer {} is blocked forever in send() at quiescence; queued={:?} reserved={:?} chan={:?} ready={}", self.name_of(pid), q, r, cl, rl) });
      }
    }
  }
}

#[derive(Serialize)]
pub struct Outcome {
  pub index: usize,
  pub mode: String,
  pub steps: usize,
  pub issues: Vec<Issue>,
  pub trace: Vec<Value>,
}

fn proj_matches(w: &World, st: &Value) -> Option<String> {
  let (q, r, cl, rl) = w.projection();
  let mut diffs = Vec::new();
  for (i, p) in w.setup.pipes.iter().enumerate() {
    let mq = st["q"][p].as_u64().unwrap_or(0) as usize;
    let mr = st["r"][p].as_u64().unwrap_or(0) as usize;
    let mc = st["cl"][p].as_u64().unwrap_or(0) as usize;
    if mq != q[i] {
      diffs.push(format!("queued[{}] real {} model {}", p, q[i], mq));
    }
    if mr != r[i] {
      diffs.push(format!("reserved[{}] real {} model {}", p, r[i], mr));
    }
    if mc != cl[i] {
      diffs.push(format!("chan[{}] real {} model {}", p, cl[i], mc));
    }
  }
  let mrl = st["rl"].as_u64().unwrap_or(0) as usize;
  if mrl != rl {
    diffs.push(format!("ready list real {} model {}", rl, mrl));
  }
  if diffs.is_empty() {
    None
  } else {
    Some(diffs.join("; "))
  }
}

pub fn run_guided(index: usize, b: &Behaviour, seed: u64, perturb: bool) -> Outcome {
  let setup = infer_setup(b);
  let total: usize = setup.scripts.iter().flatten().map(|o| if o == "batch" { setup.batchn } else { 1 }).sum();
  let w = build(&setup, total + 2);
  let mut rng = StdRng::seed_from_u64(seed ^ (index as u64).wrapping_mul(0x9E3779B97F4A7C15));
  let mut issues = Vec::new();
  let mut trace = Vec::new();
  let mut done = 0usize;
  let mut drifted = false;
  for (si, st) in b.steps.iter().enumerate() {
    let views = w.ctrl.quiesce();
    let _ = w.ctrl.take_log();
    let t = st["t"].as_str().unwrap_or("");
    let l = st["l"].as_str().unwrap_or("");
    if l == "dereg" {
      let pi = setup.pipes.iter().position(|x| x == t).unwrap_or(0);
      w.q.deregister_pipe(pi + 1);
    } else {
      let id = match w.task_of(t) {
        Some(i) => i,
        None => break,
      };
      let real_label = if l == "cancel.send" { "send.S2" } else { l };
      let v = &views[id];
      let ok = (v.status == Status::AtPoint && v.point == real_label) || (v.status == Status::Runnable && v.point == real_label);
      if !ok {
        issues.push(Issue { class: "drift".into(), code: "not-at-step".into(), step: si + 1, detail: format!("model takes {}:{} but the real task is {:?} at '{}'", t, l, v.status, v.point) });
        drifted = true;
        break;
      }
      w.ctrl.grant(id);
      let views2 = w.ctrl.quiesce();
      if l == "cancel.send" {
        if views2[id].status != Status::Blocked {
          issues.push(Issue { class: "drift".into(), code: "cancel-not-blocked".into(), step: si + 1, detail: format!("send() on a full pipe did not block (status {:?})", views2[id].status) });
          drifted = true;
          break;
        }
        w.ctrl.cancel(id);
        let _ = w.ctrl.quiesce();
      } else {
        let log = w.ctrl.take_log();
        if !log.iter().any(|e| e.task == id && e.label == real_label) {
          issues.push(Issue { class: "drift".into(), code: "step-did-not-complete".into(), step: si + 1, detail: format!("{}:{} was enabled in the model but the real task is now {:?}", t, l, views2[id].status) });
          drifted = true;
          break;
        }
      }
    }
    done += 1;
    let mut st2 = st.clone();
    if perturb && si + 1 == b.steps.len() {
      st2["rl"] = json!(st["rl"].as_u64().unwrap_or(0) + 1);
    }
    if let Some(d) = proj_matches(&w, &st2) {
      issues.push(Issue { class: if perturb && si + 1 == b.steps.len() { "selftest".into() } else { "drift".into() }, code: "projection".into(), step: si + 1, detail: format!("after {}:{} - {}", t, l, d) });
      drifted = true;
      break;
    }
  }
  let _ = drifted;
  // free run to quiescence, then the verdict
  w.free_run(&mut rng, 10_000, &mut trace);
  let views = w.ctrl.quiesce();
  w.verdict(&views, &mut issues);
  w.q.close();
  w.ctrl.shutdown();
  Outcome { index, mode: "guided".into(), steps: done, issues, trace: Vec::new() }
}

pub fn run_random(index: usize, setup: &Setup, seed: u64) -> Outcome {
  let total: usize = setup.scripts.iter().flatten().map(|o| if o == "batch" { setup.batchn } else { 1 }).sum();
  let w = build(setup, total + 2);
  let mut rng = StdRng::seed_from_u64(seed ^ (index as u64).wrapping_mul(0xD6E8FEB86659FD93));
  let mut issues = Vec::new();
  let mut trace = Vec::new();
  let n = w.free_run(&mut rng, 10_000, &mut trace);
  let views = w.ctrl.quiesce();
  w.verdict(&views, &mut issues);
  w.q.close();
  w.ctrl.shutdown();
  Outcome { index, mode: "random".into(), steps: n, issues, trace }
}

/// Seeded random setups within the bounds of the model.
pub fn random_setup(rng: &mut StdRng) -> Setup {
  let np = rng.random_range(1..=3);
  let nc = rng.random_range(1..=2);
  let ops = ["send", "try", "batch"];
  let scripts = (0..np).map(|_| (0..rng.random_range(1..=4)).map(|_| ops[rng.random_range(0..3)].to_string()).collect()).collect();
  let modes = (0..nc).map(|_| if rng.random_range(0..4) == 0 { "trypop".to_string() } else { "pop".to_string() }).collect();
  Setup {
    pipes: (1..=np).map(|i| format!("p{}", i)).collect(),
    cons: (1..=nc).map(|i| format!("c{}", i)).collect(),
    cap: rng.random_range(1..=2),
    readycap: np.max(2),
    batchn: 2,
    scripts,
    modes,
  }
}
