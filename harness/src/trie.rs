//! B1 replay for PubSub.tla on the real SubscriptionTrie, plus a two-thread probe of the
//! "unsubscribing something never subscribed changes nothing - not even transiently" clause.
use crate::peer::Issue;
use rzmq::verif::facade::TrieX;
use serde::{Deserialize, Serialize};
use serde_json::Value;
use std::sync::atomic::{AtomicBool, Ordering};
use std::sync::Arc;

#[derive(Deserialize, Clone, Debug)]
pub struct Behaviour {
  pub steps: Vec<Value>,
}

#[derive(Serialize)]
pub struct Outcome {
  pub index: usize,
  pub mapping: String,
  pub issues: Vec<Issue>,
}

fn to_bytes(v: &Value, map: &[(u8, u8)]) -> Vec<u8> {
  v.as_array()
    .map(|a| {
      a.iter()
        .map(|x| {
          let c = x.as_str().unwrap_or("a").as_bytes()[0];
          map.iter().find(|(k, _)| *k == c).map(|(_, b)| *b).unwrap_or(c)
        })
        .collect()
    })
    .unwrap_or_default()
}

fn all_msgs(alphabet: &[u8], maxlen: usize) -> Vec<Vec<u8>> {
  let mut out: Vec<Vec<u8>> = vec![vec![]];
  let mut frontier: Vec<Vec<u8>> = vec![vec![]];
  for _ in 0..maxlen {
    let mut next = Vec::new();
    for s in &frontier {
      for &c in alphabet {
        let mut t = s.clone();
        t.push(c);
        next.push(t);
      }
    }
    out.extend(next.iter().cloned());
    frontier = next;
  }
  out
}

pub fn run(index: usize, b: &Behaviour, mapping: &str, perturb: bool) -> Outcome {
  let map: Vec<(u8, u8)> = match mapping {
    "binary" => vec![(b'a', 0x00), (b'b', 0xFF)],
    _ => vec![(b'a', b'x'), (b'b', b'y')],
  };
  let alphabet: Vec<u8> = map.iter().map(|(_, v)| *v).collect();
  let trie = TrieX::new();
  let mut issues = Vec::new();
  // message universe = every string the model enumerates (length taken from the expected sets)
  let maxlen = b.steps.iter().flat_map(|s| s["matches"].as_array().cloned().unwrap_or_default()).map(|m| m.as_array().map(|a| a.len()).unwrap_or(0)).max().unwrap_or(3).max(3);
  let msgs = all_msgs(&alphabet, maxlen);
  for (si, st) in b.steps.iter().enumerate() {
    let t = to_bytes(&st["t"], &map);
    match st["op"].as_str().unwrap_or("") {
      "sub" => trie.subscribe(&t),
      _ => {
        let r = trie.unsubscribe(&t);
        if r != st["ret"].as_bool().unwrap_or(false) {
          issues.push(Issue { class: "drift".into(), code: "unsub-return".into(), step: si + 1, detail: format!("unsubscribe({:?}) returned {}, model {}", t, r, st["ret"]) });
        }
      }
    }
    let mut want: Vec<Vec<u8>> = st["matches"].as_array().map(|a| a.iter().map(|m| to_bytes(m, &map)).collect()).unwrap_or_default();
    if perturb && si + 1 == b.steps.len() {
      // binding self-test: flip the expectation for one message
      if want.is_empty() {
        want.push(vec![alphabet[0]]);
      } else {
        want.pop();
      }
    }
    for m in &msgs {
      let real = trie.matches(m);
      let model = want.contains(m);
      if real != model {
        issues.push(Issue {
          class: if perturb { "selftest".into() } else { "prop".into() },
          code: if real { "false-match".into() } else { "missed-match".into() },
          step: si + 1,
          detail: format!("after step {} ({} {:?}): matches({:?}) = {} but the subscription set says {}", si + 1, st["op"], t, m, real, model),
        });
        break;
      }
    }
    if !issues.is_empty() {
      break;
    }
  }
  Outcome { index, mapping: mapping.into(), issues }
}

/// Unsubscribing a topic that was never subscribed must not be observable, even transiently.
pub fn race_probe(iterations: usize) -> Vec<Issue> {
  let trie = Arc::new(TrieX::new());
  // the node for "ab" must exist for the decrement to be reachable: subscribe a longer topic
  trie.subscribe(b"abc");
  let stop = Arc::new(AtomicBool::new(false));
  let seen = Arc::new(AtomicBool::new(false));
  let t2 = trie.clone();
  let s2 = stop.clone();
  let seen2 = seen.clone();
  let reader = std::thread::spawn(move || {
    while !s2.load(Ordering::Relaxed) {
      if t2.matches(b"abX") || t2.matches(b"ab") {
        seen2.store(true, Ordering::Relaxed);
        break;
      }
    }
  });
  for _ in 0..iterations {
    let _ = trie.unsubscribe(b"ab");
    if seen.load(Ordering::Relaxed) {
      break;
    }
  }
  stop.store(true, Ordering::Relaxed);
  let _ = reader.join();
  let mut issues = Vec::new();
  if seen.load(Ordering::Relaxed) {
    issues.push(Issue { class: "prop".into(), code: "transient-match".into(), step: 0, detail: "while another thread unsubscribed the never-subscribed topic \"ab\", matches(\"abX\") returned true (the counter wrapped before it was compensated)".into() });
  }
  if !trie.matches(b"abcd") || trie.matches(b"ab") {
    issues.push(Issue { class: "prop".into(), code: "false-match".into(), step: 0, detail: "subscription set changed by unsubscribing an unknown topic".into() });
  }
  issues
}
