//! The ZeroMQ socket pairing table, written from the RFCs (23/ZMTP, 28/REQREP, 29/PUBSUB,
//! 30/PIPELINE, 31/EXPAIR) - not from rzmq. Mirrors `Compat` in spec/Engine.tla.
pub fn compat(a: &str, b: &str) -> bool {
  matches!(
    (a, b),
    ("PULL", "PUSH") | ("PUSH", "PULL")
      | ("PUB", "SUB") | ("SUB", "PUB") | ("PUB", "XSUB") | ("XSUB", "PUB")
      | ("XPUB", "SUB") | ("SUB", "XPUB") | ("XPUB", "XSUB") | ("XSUB", "XPUB")
      | ("REQ", "REP") | ("REP", "REQ") | ("REQ", "ROUTER") | ("ROUTER", "REQ")
      | ("REP", "DEALER") | ("DEALER", "REP") | ("DEALER", "ROUTER") | ("ROUTER", "DEALER")
      | ("DEALER", "DEALER") | ("ROUTER", "ROUTER") | ("PAIR", "PAIR")
  )
}
pub const SOCKET_TYPES: [&str; 11] = ["PAIR", "PUB", "SUB", "REQ", "REP", "DEALER", "ROUTER", "PULL", "PUSH", "XPUB", "XSUB"];
