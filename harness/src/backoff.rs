//! B1 replay for Backoff.tla: TLC's histories of failures and successes stepped through the
//! real ReconnectState (socket/core/state.rs); the delay handed out is compared at every step.
use crate::peer::Issue;
use rzmq::verif::facade::ReconnectX;
use serde::{Deserialize, Serialize};
use serde_json::Value;

#[derive(Deserialize, Clone, Debug)]
pub struct Behaviour {
  #[serde(rename = "impl")]
  pub imp: String,
  pub ivl: u64,
  pub max: u64,
  pub steps: Vec<Value>,
}

#[derive(Serialize)]
pub struct Outcome {
  pub index: usize,
  pub issues: Vec<Issue>,
  pub delays: Vec<u128>,
}

pub fn run(index: usize, b: &Behaviour, perturb: bool) -> Outcome {
  let mut issues = Vec::new();
  let mut delays = Vec::new();
  let mut st = ReconnectX::new();
  let mut since_ok: Vec<u128> = Vec::new();
  let floor = if b.max > 0 { b.ivl.min(b.max) } else { b.ivl } as u128;
  for (k, s) in b.steps.iter().enumerate() {
    match s["a"].as_str().unwrap_or("") {
      "fail" => {
        let d = st.on_failure(b.ivl, b.max);
        let mut want = s["d"].as_u64().unwrap_or(0) as u128;
        if perturb && k == b.steps.len() - 1 {
          want += 1;
        }
        if d != want {
          issues.push(Issue { class: if perturb { "selftest".into() } else { "drift".into() }, code: "delay-differs".into(), step: k, detail: format!("ivl={} max={}: the code hands out {} ms where the model says {} ms", b.ivl, b.max, d, want) });
        }
        // the property itself, on the code's own numbers
        if since_ok.is_empty() && d != floor {
          issues.push(Issue { class: "prop".into(), code: "first-delay".into(), step: k, detail: format!("ivl={} max={}: first delay after a success is {} ms", b.ivl, b.max, d) });
        }
        if let Some(prev) = since_ok.last() {
          if d > 2 * prev || d < *prev {
            issues.push(Issue { class: "prop".into(), code: "not-geometric".into(), step: k, detail: format!("ivl={} max={}: delay {} ms follows {} ms", b.ivl, b.max, d, prev) });
          }
        }
        if b.max > 0 && d > b.max as u128 {
          issues.push(Issue { class: "prop".into(), code: "exceeds-max".into(), step: k, detail: format!("ivl={} max={}: delay {} ms", b.ivl, b.max, d) });
        }
        since_ok.push(d);
        delays.push(d);
      }
      "ok" => {
        st.on_success();
        since_ok.clear();
        if st.attempts() != 0 {
          issues.push(Issue { class: "prop".into(), code: "no-reset".into(), step: k, detail: "attempt counter not reset by a successful connection".into() });
        }
      }
      _ => {}
    }
  }
  Outcome { index, issues, delays }
}
