---------------------------- MODULE Trace_Timeo ----------------------------
(***************************************************************************)
(* Validates recorded send()/recv() calls of real sockets against the       *)
(* timeout clauses of Hwm.tla.  One record per call:                         *)
(*   {"timeo": ms | 0 | -1, "res": "ok" | "wouldblock" | "timeout" | "other", "dur": ms} *)
(* Slack is the tolerance the property grants ("not unboundedly later").    *)
(***************************************************************************)
EXTENDS Integers, Sequences, TLC, Json, IOUtils
CONSTANTS Slack, EarlyTolerance

Rec == ndJsonDeserialize(IOEnv.TRACE)
VARIABLE pos

Ok(r) ==
  \/ r.res = "ok"                                        \* success is always allowed by these clauses
  \/ /\ r.timeo = 0 /\ r.res \in {"wouldblock", "timeout"} /\ r.dur <= Slack
  \/ /\ r.timeo > 0 /\ r.res \in {"wouldblock", "timeout"}
     /\ r.dur + EarlyTolerance >= r.timeo /\ r.dur <= r.timeo + Slack
  \* timeo = -1: an error (other than the socket being closed) is never acceptable

TInit == pos = 1
TNext == pos <= Len(Rec) /\ Ok(Rec[pos]) /\ pos' = pos + 1
TSpec == TInit /\ [][TNext]_pos
Accepted == LET d == TLCGet("stats").diameter IN
   \/ d - 1 = Len(Rec)
   \/ PrintT(<<"REJECTED", 1, d - 1, Len(Rec)>>) /\ FALSE
=============================================================================
