----------------------------- MODULE MC_Ingress -----------------------------
EXTENDS Ingress, Json
Export == Terminal => PrintT(<<"REPLAY", ToJson([steps |-> hist])>>)
=============================================================================
