CONSTANTS
  Topics = {"", "a", "ab", "b"}
  Peers = {"p1", "p2"}
  MaxOps = 9
  MaxCount = 2
INIT Init
NEXT Next
CHECK_DEADLOCK FALSE
INVARIANTS Synced SilentWhenDown NoBlindCancel Export
