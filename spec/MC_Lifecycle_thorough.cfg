CONSTANTS
  Socks = {s1, s2, s3}
  Tasks = {t1, t2}
  HandshakeDeaf = FALSE
  CheckThenWait = FALSE
  LateBlind = FALSE
SPECIFICATION Spec
CHECK_DEADLOCK FALSE
INVARIANTS WgExact AfterCloseErr NoBlockedOnStopped NamesFree TermMeansAllGone
PROPERTIES Terminates CloseCleans
