CONSTANTS
  Ivls <- IvlSet
  Maxs <- MaxSet
  MaxSteps = 7
  Impl = "conn"
INIT Init
NEXT Next
CHECK_DEADLOCK FALSE
INVARIANTS Starts NeverBelow Geometric Capped Inherit Export
