---------------------------- MODULE MC_SubSync ----------------------------
EXTENDS SubSync, Json
Export == Terminal => PrintT(<<"REPLAY", ToJson([steps |-> hist])>>)
=============================================================================
