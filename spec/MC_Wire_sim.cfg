\* simulation export: random streams of <= 4 frames, random segmentations
CONSTANTS
  Lens = {0, 1, 2, 254, 255, 256, 257, 65535, 65536, 70000}
  MaxFrames = 4
  MaxMsg <- Unlimited
INIT Init
NEXT Next
CHECK_DEADLOCK FALSE
INVARIANTS RoundTrip Export
