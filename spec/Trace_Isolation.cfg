CONSTANTS
  Socks = {}
  Conns = {}
  Owner = 0
  Outbound = {}
  Kinds = {}
  MaxDeliver = 0
  MaxAttempts = 0
  RefusalFatal = FALSE
  Tol = 15
  Slack = 450
SPECIFICATION TraceSpec
POSTCONDITION TraceAccepted
CHECK_DEADLOCK FALSE
