------------------------------ MODULE Isolation ------------------------------
(***************************************************************************)
(* One connection's failure stays local; lost outbound connections come     *)
(* back (C17).                                                              *)
(*                                                                         *)
(* Sockets own connections.  A connection is inbound (accepted by a         *)
(* listener or an inproc binder) or outbound (made by connect(): the socket *)
(* re-establishes it).  Faults - a protocol violation, failed               *)
(* authentication, an incompatible socket type, a reset, a refused inproc   *)
(* connect - hit one connection at any moment.                              *)
(*   socket/core/pipe_manager.rs cleanup_stopped_child_resources (`Cleanup`) *)
(*   socket/core/command_loop.rs maintenance tick, transport/tcp.rs         *)
(*   connecter loop (`Retry`)                                               *)
(*   socket/core/event_processor.rs: an Err from the event handler starts   *)
(*   the shutdown of the whole socket (`HandlerError`).                     *)
(*                                                                         *)
(* Switch for the pinned revision: RefusalFatal - the binder's handler      *)
(* returns the refusal of an incompatible inproc connector as its own error.*)
(***************************************************************************)
EXTENDS Integers, FiniteSets, TLC

CONSTANTS Socks, Conns,
          Owner,          \* [Conns -> Socks]
          Outbound,       \* subset of Conns made by connect()
          Kinds,          \* fault kinds
          MaxDeliver, MaxAttempts,
          RefusalFatal

VARIABLES sock,           \* [s -> "running" | "stopped"]
          why,            \* [s -> "none" | "user" | "peer"]   who stopped it
          st,             \* [c -> "idle" | "hs" | "up" | "lost" | "wait"]
          reach,          \* [c -> BOOLEAN] the peer can be reached
          attempts,       \* [c -> 0..MaxAttempts] failures since the last success
          delivered,      \* [c -> 0..MaxDeliver]
          lastFault       \* connection hit by the step just taken, or "-"
vars == <<sock, why, st, reach, attempts, delivered, lastFault>>

Init == /\ sock = [s \in Socks |-> "running"] /\ why = [s \in Socks |-> "none"]
        /\ st = [c \in Conns |-> "idle"] /\ reach = [c \in Conns |-> TRUE]
        /\ attempts = [c \in Conns |-> 0] /\ delivered = [c \in Conns |-> 0]
        /\ lastFault = "-"

Running(c) == sock[Owner[c]] = "running"

\* a connection starts: connect() / a peer arrives
Start(c) == /\ st[c] = "idle" /\ Running(c) /\ reach[c]
            /\ st' = [st EXCEPT ![c] = "hs"] /\ lastFault' = "-"
            /\ UNCHANGED <<sock, why, reach, attempts, delivered>>

HsOk(c) == /\ st[c] = "hs" /\ Running(c)
           /\ st' = [st EXCEPT ![c] = "up"] /\ attempts' = [attempts EXCEPT ![c] = 0] /\ lastFault' = "-"
           /\ UNCHANGED <<sock, why, reach, delivered>>

Deliver(c) == /\ st[c] = "up" /\ Running(c) /\ delivered[c] < MaxDeliver
              /\ delivered' = [delivered EXCEPT ![c] = @ + 1] /\ lastFault' = "-"
              /\ UNCHANGED <<sock, why, st, reach, attempts>>

\* the socket stops: all of its connections go with it
StopEffect(s, w) == /\ sock' = [sock EXCEPT ![s] = "stopped"] /\ why' = [why EXCEPT ![s] = w]
                    /\ st' = [c \in Conns |-> IF Owner[c] = s THEN "idle" ELSE st[c]]

\* a fault on one connection
Fault(c, k) == /\ st[c] \in {"hs", "up"} /\ Running(c)
               /\ lastFault' = c
               /\ IF RefusalFatal /\ k = "refused" /\ c \notin Outbound
                    THEN StopEffect(Owner[c], "peer")
                    ELSE st' = [st EXCEPT ![c] = "lost"] /\ UNCHANGED <<sock, why>>
               /\ UNCHANGED <<reach, attempts, delivered>>

\* the owner notices: an inbound connection is forgotten, an outbound one is scheduled for a retry
Cleanup(c) == /\ st[c] = "lost" /\ Running(c)
              /\ st' = [st EXCEPT ![c] = IF c \in Outbound THEN "wait" ELSE "idle"]
              /\ attempts' = [attempts EXCEPT ![c] = IF c \in Outbound /\ @ < MaxAttempts THEN @ + 1 ELSE @]
              /\ lastFault' = "-"
              /\ UNCHANGED <<sock, why, reach, delivered>>

\* the delay is over: try again
Retry(c) == /\ st[c] = "wait" /\ Running(c)
            /\ IF reach[c] THEN st' = [st EXCEPT ![c] = "hs"] /\ UNCHANGED attempts
               ELSE attempts' = [attempts EXCEPT ![c] = IF @ < MaxAttempts THEN @ + 1 ELSE @] /\ UNCHANGED st
            /\ lastFault' = "-"
            /\ UNCHANGED <<sock, why, reach, delivered>>

SetReach(c, b) == /\ reach[c] # b /\ reach' = [reach EXCEPT ![c] = b] /\ lastFault' = "-"
                  /\ UNCHANGED <<sock, why, st, attempts, delivered>>

UserClose(s) == /\ sock[s] = "running" /\ StopEffect(s, "user") /\ lastFault' = "-"
                /\ UNCHANGED <<reach, attempts, delivered>>

Next == \/ \E c \in Conns : Start(c) \/ HsOk(c) \/ Deliver(c) \/ Cleanup(c) \/ Retry(c)
        \/ \E c \in Conns, k \in Kinds : Fault(c, k)
        \/ \E c \in Conns, b \in BOOLEAN : SetReach(c, b)
        \/ \E s \in Socks : UserClose(s)

Fair == \A c \in Conns : WF_vars(Cleanup(c)) /\ WF_vars(Retry(c)) /\ WF_vars(HsOk(c)) /\ WF_vars(Start(c))
Spec == Init /\ [][Next]_vars /\ Fair

---------------------------------------------------------------------------
\* a socket is only ever stopped by its application
OnlyUserStops == \A s \in Socks : sock[s] = "stopped" => why[s] = "user"

\* whatever happens to one connection, the others stay as they are
FaultLocal == [][\A c \in Conns : (st[c] = "up" /\ st'[c] # "up") => (lastFault' = c \/ why'[Owner[c]] = "user")]_vars

\* a lost outbound connection comes back once its peer stays reachable
ComesBack == \A c \in Outbound :
   (<>[](reach[c] /\ sock[Owner[c]] = "running" /\ lastFault # c)) => <>[](st[c] = "up")
=============================================================================
