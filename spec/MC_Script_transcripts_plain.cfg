\* C04: every segmentation of honest transcripts (v3 NULL / v2) followed by up to 3 data frames
CONSTANTS
  Cfgs <- PlainBoth
  Depth = 7
  MaxPending = 7
  AllowCuts = TRUE
  Grammar <- TranscriptPlain
INIT Init
NEXT Next
VIEW view
CHECK_DEADLOCK FALSE
INVARIANTS NoDataBeforeHc PartialBounded
