CONSTANTS
  Lens = {0, 1, 255, 256, 257, 1000}
  MaxFrames = 3
  MaxMsg = 256
INIT Init
NEXT Next
CHECK_DEADLOCK FALSE
INVARIANTS RoundTrip LimitExact AccBound Export
