----------------------------- MODULE MC_PubSub -----------------------------
EXTENDS PubSub, Json
Export == Terminal => PrintT(<<"REPLAY", ToJson([steps |-> hist])>>)
=============================================================================
