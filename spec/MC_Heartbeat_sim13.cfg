CONSTANTS
  Ivl = 1
  Timeout = 3
  MaxTime = 9
  V2 = FALSE
  Ctxs = {"c0", "c17"}
  MaxChunks = 2
  MaxRecv = 4
INIT Init
NEXT Next
CHECK_DEADLOCK FALSE
INVARIANTS ClosedOnlyWhenDead Export
