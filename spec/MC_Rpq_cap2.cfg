\* 3 pipes x capacity 2, one consumer: deeper queues, more tokens
CONSTANTS
  Pipes = {"p1", "p2", "p3"}
  Cons = {"c1"}
  Cap = 2
  ReadyCap = 3
  Scripts <- ScriptsSend
  ConsModes <- ModesPop
  BatchN = 2
  MaxCancel = 0
  MaxDereg = 0
SPECIFICATION Spec
VIEW view
CHECK_DEADLOCK FALSE
INVARIANTS TypeOK AtMostOneToken NoLostToken NoUnderflow ReservedCovers Fifo NoGap NoStuck
PROPERTIES Live
