CONSTANTS
  CfgsA <- AllA
  CfgsB <- AllB
  MaxMsgs = 0
  MaxFrames = 1
  AllowCuts = FALSE
INIT Init
NEXT Next
VIEW view
CHECK_DEADLOCK FALSE
INVARIANTS Agree Export
