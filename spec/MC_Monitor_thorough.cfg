CONSTANTS
  Listeners = {L1, L2}
  Targets = {T1, T2}
  Peers = {P1, P2}
  MaxSteps = 6
SPECIFICATION Spec
INVARIANTS ObserverAccepts CleanWhenClosed ObsMatches Bounded
PROPERTIES Closes
CHECK_DEADLOCK FALSE
