\* 2 pipes x capacity 1, 2 consumers, longer scripts over all enqueue paths, cancellation and deregistration
CONSTANTS
  Pipes = {"p1", "p2"}
  Cons = {"c1", "c2"}
  Cap = 1
  ReadyCap = 2
  Scripts <- ScriptsAll
  ConsModes <- ModesAll
  BatchN = 2
  MaxCancel = 1
  MaxDereg = 1
SPECIFICATION Spec
VIEW view
CHECK_DEADLOCK FALSE
INVARIANTS TypeOK AtMostOneToken NoLostToken NoUnderflow ReservedCovers Fifo NoGap NoStuck
PROPERTIES Live
