\* C05: the ZMTP/2.0 verdict for all 11 x 11 socket-type pairs (engine vs legacy peer)
CONSTANTS
  Cfgs <- AllTypes
  Depth = 4
  MaxPending = 4
  AllowCuts = FALSE
  Grammar <- V2Peer
INIT Init
NEXT Next
CHECK_DEADLOCK FALSE
INVARIANTS V2Verdict Export
