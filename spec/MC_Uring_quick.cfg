CONSTANTS
  Bufs = {b1, b2}
  Slots = {s1, s2}
  Fds = {5, 6}
  MaxOps = 9
INIT Init
NEXT Next
CHECK_DEADLOCK FALSE
INVARIANTS PoolConservation NoOrphanBuffers RingFull QuiescentClean
