--------------------------- MODULE SecureChannel ---------------------------
(***************************************************************************)
(* The data phase of an encrypted (CURVE / Noise_XX) connection:           *)
(* core/src/security/framer/mod.rs LengthPrefixedFramer + the ciphers.     *)
(* Every message batch - and every heartbeat - the sender emits is one     *)
(* record: a 16-bit length, then an AEAD box keyed per direction with an    *)
(* implicit counter nonce.  The network may flip bits, drop, duplicate or   *)
(* swap records and cut the stream.                                        *)
(***************************************************************************)
EXTENDS Integers, Sequences, FiniteSets, TLC

CONSTANTS MaxSends,     \* records the sender may emit
          MaxMut,       \* mutations the network may apply
          Sizes,        \* size classes the application may send
          TooBig        \* subset of Sizes whose plaintext exceeds one record (must be refused)

VARIABLES sctr, sclosed,          \* sender: next nonce counter, failed
          chan,                   \* records in flight: [ctr, id, ok, part]
          rctr, rclosed,          \* receiver
          accepted, delivered,    \* message ids accepted by the sender / handed to the application
          nsent, nmut, cutAt, hist

vars == <<sctr, sclosed, chan, rctr, rclosed, accepted, delivered, nsent, nmut, cutAt, hist>>
view == <<sctr, sclosed, chan, rctr, rclosed, accepted, delivered, nsent, nmut, cutAt>>

Init == /\ sctr = 1 /\ sclosed = FALSE /\ chan = <<>> /\ rctr = 1 /\ rclosed = FALSE
        /\ accepted = <<>> /\ delivered = <<>> /\ nsent = 0 /\ nmut = 0 /\ cutAt = 0 /\ hist = <<>>

Log(r) == hist' = Append(hist, r)

\* the application sends a message of size class sz
Send(sz) ==
  /\ ~sclosed /\ nsent < MaxSends /\ cutAt = 0
  /\ nsent' = nsent + 1
  /\ IF sz \in TooBig
       THEN \* refused at the sender with an error: nothing goes on the wire, no nonce is consumed
            /\ sclosed' = TRUE /\ UNCHANGED <<sctr, chan, accepted>>
       ELSE /\ chan' = Append(chan, [ctr |-> sctr, id |-> nsent + 1, ok |-> TRUE, part |-> FALSE])
            /\ sctr' = sctr + 1
            /\ accepted' = Append(accepted, nsent + 1)
            /\ UNCHANGED sclosed
  /\ Log([a |-> "send", sz |-> sz, id |-> nsent + 1])
  /\ UNCHANGED <<rctr, rclosed, delivered, nmut, cutAt>>

\* a heartbeat PING: a record like any other (id 0 = not application data)
Heartbeat ==
  /\ ~sclosed /\ nsent < MaxSends /\ cutAt = 0
  /\ nsent' = nsent + 1
  /\ chan' = Append(chan, [ctr |-> sctr, id |-> 0, ok |-> TRUE, part |-> FALSE])
  /\ sctr' = sctr + 1
  /\ Log([a |-> "hb"])
  /\ UNCHANGED <<sclosed, rctr, rclosed, accepted, delivered, nmut, cutAt>>

Mutate(kind, i) ==
  /\ nmut < MaxMut /\ i \in 1..Len(chan) /\ cutAt = 0
  /\ nmut' = nmut + 1
  /\ CASE kind = "flip" -> chan' = [chan EXCEPT ![i].ok = FALSE] /\ UNCHANGED cutAt
       \* a record the *receiver* sealed itself is played back to it: authentic for the other
       \* direction only (each direction has its own key), so not authentic here
       [] kind = "reflect" -> chan' = [chan EXCEPT ![i].ok = FALSE, ![i].id = 0] /\ UNCHANGED cutAt
       [] kind = "drop" -> chan' = SubSeq(chan, 1, i - 1) \o SubSeq(chan, i + 1, Len(chan)) /\ UNCHANGED cutAt
       [] kind = "dup"  -> chan' = SubSeq(chan, 1, i) \o <<chan[i]>> \o SubSeq(chan, i + 1, Len(chan)) /\ UNCHANGED cutAt
       [] kind = "swap" -> /\ i < Len(chan)
                           /\ chan' = [chan EXCEPT ![i] = chan[i + 1], ![i + 1] = chan[i]] /\ UNCHANGED cutAt
       [] kind = "cut"  -> \* the stream ends inside record i
                           /\ chan' = SubSeq(chan, 1, i - 1) \o << [chan[i] EXCEPT !.part = TRUE] >>
                           /\ cutAt' = i
  /\ Log([a |-> "mutate", kind |-> kind, i |-> i])
  /\ UNCHANGED <<sctr, sclosed, rctr, rclosed, accepted, delivered, nsent>>

\* the receiver reads the next record
Recv ==
  /\ ~rclosed /\ chan # <<>> /\ ~chan[1].part
  /\ LET r == chan[1] IN
       IF r.ok /\ r.ctr = rctr
         THEN /\ rctr' = rctr + 1
              /\ delivered' = IF r.id = 0 THEN delivered ELSE Append(delivered, r.id)
              /\ UNCHANGED rclosed
         ELSE rclosed' = TRUE /\ UNCHANGED <<rctr, delivered>>
  /\ chan' = Tail(chan)
  /\ Log([a |-> "recv", closed |-> rclosed', ndelivered |-> Len(delivered')])
  /\ UNCHANGED <<sctr, sclosed, accepted, nsent, nmut, cutAt>>

Next == \/ \E sz \in Sizes : Send(sz)
        \/ Heartbeat
        \/ \E k \in {"flip", "reflect", "drop", "dup", "swap", "cut"}, i \in 1..Len(chan) : Mutate(k, i)
        \/ Recv
Spec == Init /\ [][Next]_vars

IsPrefix(s, t) == Len(s) <= Len(t) /\ SubSeq(t, 1, Len(s)) = s
\* C18: never a wrong, partial, reordered or duplicate message
NoWrongDelivery == IsPrefix(delivered, accepted)
\* C18: without interference everything the sender accepted is decodable by the peer
SelfDecodable == (nmut = 0 /\ chan = <<>>) => (delivered = accepted /\ ~rclosed)
\* C18: tampering is detected at the first record that is not the next authentic one; a dropped
\* record at the very end of the stream cannot be noticed before more traffic arrives, so the
\* statement is about what the receiver *accepts*: exactly the first rctr-1 records the sender emitted
TamperCloses == rctr - 1 <= sctr - 1 /\ (rclosed => IsPrefix(delivered, accepted))

\* a refused message leaves the nonce sequence intact
RefusalClean == sclosed => sctr = Len(accepted) + Cardinality({ i \in 1..Len(hist) : hist[i].a = "hb" }) + 1

Terminal == (chan = <<>> \/ rclosed \/ (chan # <<>> /\ chan[1].part)) /\ (nsent = MaxSends \/ sclosed \/ cutAt # 0)
=============================================================================
