----------------------------- MODULE Trace_Uring -----------------------------
(***************************************************************************)
(* Hook events recorded inside the io_uring backend, followed as actions of *)
(* Uring.tla.  Each record must be an enabled step of the resource it       *)
(* touches: a buffer is acquired only when free and released only when in   *)
(* use, a ring slot is taken only while lent to the kernel and re-provided  *)
(* at once, a handler is added only for an fd that has none, a Close is     *)
(* queued once per handler and completes once.  At the end of a run         *)
(* (`quiet`: every socket closed, the worker idle) everything is back.      *)
(* Records: reset | zc.acquire {id} | zc.release {id, in_use} |             *)
(*   ring.take {bgid, bid} | ring.provide {bgid, bid} | fd.add {fd} |       *)
(*   fd.close_queued {fd} | fd.closed {fd, res} | fd.remove {fd, present} | *)
(*   quiet {}                                                               *)
(***************************************************************************)
EXTENDS Integers, Sequences, FiniteSets, TLC, Json, IOUtils

Rec == ndJsonDeserialize(IOEnv.TRACE)

VARIABLES l,
          inuse,      \* set of send-buffer ids out of the pool
          taken,      \* set of <<bgid, bid>> taken and not yet re-provided
          fds,        \* fd -> "open" | "closing"   (absent: no handler)
          everAcq, everTake, everFd
vars == <<l, inuse, taken, fds, everAcq, everTake, everFd>>

NoFds == [x \in {} |-> ""]
TraceInit == l = 1 /\ inuse = {} /\ taken = {} /\ fds = NoFds /\ everAcq = 0 /\ everTake = 0 /\ everFd = 0
R == Rec[l]

Reset == /\ R.ev = "reset" /\ inuse' = {} /\ taken' = {} /\ fds' = NoFds
         /\ UNCHANGED <<everAcq, everTake, everFd>>

\* Acquire(f, b): only a free buffer is handed out
ZcAcquire == /\ R.ev = "zc.acquire" /\ R.id \notin inuse
             /\ inuse' = inuse \cup {R.id} /\ everAcq' = everAcq + 1
             /\ UNCHANGED <<taken, fds, everTake, everFd>>

\* Release(b): only a buffer that is out comes back (the pool's own flag must agree)
ZcRelease == /\ R.ev = "zc.release" /\ R.id \in inuse /\ R.in_use
             /\ inuse' = inuse \ {R.id}
             /\ UNCHANGED <<taken, fds, everAcq, everTake, everFd>>

\* Take(s): the slot was lent to the kernel
RingTake == /\ R.ev = "ring.take" /\ <<R.bgid, R.bid>> \notin taken
            /\ taken' = taken \cup {<<R.bgid, R.bid>>} /\ everTake' = everTake + 1
            /\ UNCHANGED <<inuse, fds, everAcq, everFd>>

\* ... and is provided again (initial provisioning and reprovide() of an unused slot also land here)
RingProvide == /\ R.ev = "ring.provide"
               /\ taken' = taken \ {<<R.bgid, R.bid>>}
               /\ UNCHANGED <<inuse, fds, everAcq, everTake, everFd>>

\* Open(f)
FdAdd == /\ R.ev = "fd.add" /\ R.fd \notin DOMAIN fds
         /\ fds' = [f \in DOMAIN fds \cup {R.fd} |-> IF f = R.fd THEN "open" ELSE fds[f]]
         /\ everFd' = everFd + 1
         /\ UNCHANGED <<inuse, taken, everAcq, everTake>>

\* QueueClose(f): once per handler
FdCloseQueued == /\ R.ev = "fd.close_queued" /\ R.fd \in DOMAIN fds /\ fds[R.fd] = "open"
                 /\ fds' = [fds EXCEPT ![R.fd] = "closing"]
                 /\ UNCHANGED <<inuse, taken, everAcq, everTake, everFd>>

\* Closed(f): the completion belongs to a queued close and succeeds
FdClosed == /\ R.ev = "fd.closed" /\ R.fd \in DOMAIN fds /\ fds[R.fd] = "closing" /\ R.res >= 0
            /\ UNCHANGED <<inuse, taken, fds, everAcq, everTake, everFd>>

\* the handler leaves the table: after its Close completed
FdRemove == /\ R.ev = "fd.remove"
            /\ IF R.present
                 THEN /\ R.fd \in DOMAIN fds /\ fds[R.fd] = "closing"
                      /\ fds' = [f \in DOMAIN fds \ {R.fd} |-> fds[f]]
                 ELSE /\ R.fd \notin DOMAIN fds /\ UNCHANGED fds
            /\ UNCHANGED <<inuse, taken, everAcq, everTake, everFd>>

\* QuiescentClean
Quiet == /\ R.ev = "quiet" /\ inuse = {} /\ taken = {} /\ DOMAIN fds = {}
         /\ UNCHANGED <<inuse, taken, fds, everAcq, everTake, everFd>>

TraceNext == /\ l <= Len(Rec) /\ l' = l + 1
             /\ (Reset \/ ZcAcquire \/ ZcRelease \/ RingTake \/ RingProvide \/ FdAdd \/ FdCloseQueued \/ FdClosed \/ FdRemove \/ Quiet)
TraceSpec == TraceInit /\ [][TraceNext]_vars

TraceAccepted == LET d == TLCGet("stats").diameter IN
   \/ d - 1 = Len(Rec)
   \/ PrintT(<<"REJECTED", 1, d - 1, Len(Rec)>>) /\ FALSE
=============================================================================
