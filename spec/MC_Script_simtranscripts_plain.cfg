CONSTANTS
  Cfgs <- PlainBoth
  Depth = 8
  MaxPending = 8
  AllowCuts = TRUE
  Grammar <- TranscriptPlain
INIT Init
NEXT Next
CHECK_DEADLOCK FALSE
INVARIANTS NoDataBeforeHc Export
