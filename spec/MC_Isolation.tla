---------------------------- MODULE MC_Isolation ----------------------------
EXTENDS Isolation
OwnerMap == [c \in {"a1", "a2", "b1"} |-> IF c = "b1" THEN "B" ELSE "A"]
OutSet == {"a2", "b1"}
KindSet == {"proto", "refused"}
=============================================================================
