---------------------------- MODULE Trace_Cancel ----------------------------
(***************************************************************************)
(* Call sequences on a REQ, REP, DEALER or ROUTER socket in which some      *)
(* calls were dropped at an await point, checked against the state machine  *)
(* part of Cancel.tla / ReqRep.tla: a dropped call may or may not have      *)
(* taken effect (a REQ send either went out or did not), but the socket is  *)
(* never left where every next call is rejected.                            *)
(* Records: reset {kind: "REQ"|"REP"|"FREE"}                                 *)
(*          call  {op: "send"|"recv", res: "ok"|"cancelled"|"state"|"err"}   *)
(*   "state" = the call was rejected because of the socket's state machine  *)
(*   (InvalidState); "err" = any other error (timeout, no peer ...).         *)
(***************************************************************************)
EXTENDS Integers, Sequences, TLC, Json, IOUtils

Rec == ndJsonDeserialize(IOEnv.TRACE)
VARIABLES l, kind,
          may      \* set of operations the state machine may currently accept
vars == <<l, kind, may>>
R == Rec[l]

Both == {"send", "recv"}
First(k) == IF k = "REQ" THEN {"send"} ELSE IF k = "REP" THEN {"recv"} ELSE Both
Other(op) == IF op = "send" THEN "recv" ELSE "send"

TraceInit == l = 1 /\ kind = "FREE" /\ may = Both

Reset == /\ R.e = "reset" /\ kind' = R.kind /\ may' = First(R.kind)

\* DEALER / ROUTER have no alternation: a call is never rejected for the socket's state
FreeCall == /\ R.e = "call" /\ kind = "FREE" /\ R.res # "state" /\ UNCHANGED <<kind, may>>

\* REQ / REP alternate.  `may` is what the socket may be prepared to accept, given what is known.
AltCall ==
  /\ R.e = "call" /\ kind # "FREE"
  /\ CASE R.res = "ok"        -> /\ R.op \in may                  \* an accepted call was acceptable
                                 /\ may' = {Other(R.op)}
       [] R.res = "state"     -> /\ may # {R.op}                  \* never rejected when it is the one valid call
                                 /\ may' = may \ {R.op}           \* ... and then the other one must be
                                 /\ may' # {}
       [] R.res = "cancelled" -> \* dropped: it may have taken effect or not
                                 /\ may' = IF R.op \in may THEN Both ELSE may
       \* timeout, no peer: rzmq's REQ gives up a recv() that timed out and accepts a send again
       \* (see C10); either way the machine stays usable
       [] OTHER               -> may' = IF R.op \in may THEN Both ELSE may
  /\ UNCHANGED kind

TraceNext == /\ l <= Len(Rec) /\ l' = l + 1 /\ (Reset \/ FreeCall \/ AltCall)
TraceSpec == TraceInit /\ [][TraceNext]_vars
TraceAccepted == LET d == TLCGet("stats").diameter IN
   \/ d - 1 = Len(Rec)
   \/ PrintT(<<"REJECTED", 1, d - 1, Len(Rec)>>) /\ FALSE
=============================================================================
