CONSTANTS
  ChunkBytes = {1, 3}
  ChunkMsgs = {1, 3}
  MaxOps = 6
INIT Init
NEXT Next
CHECK_DEADLOCK FALSE
INVARIANTS HeadStays CountExact Export
