CONSTANTS
  Socks = {"A", "B"}
  Conns = {"a1", "a2", "b1"}
  Owner <- OwnerMap
  Outbound <- OutSet
  Kinds <- KindSet
  MaxDeliver = 1
  MaxAttempts = 2
  RefusalFatal = TRUE
SPECIFICATION Spec
CHECK_DEADLOCK FALSE
INVARIANTS OnlyUserStops
PROPERTIES FaultLocal ComesBack
