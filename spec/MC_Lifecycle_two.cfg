CONSTANTS
  Socks = {s1, s2}
  Tasks = {}
  HandshakeDeaf = FALSE
  CheckThenWait = FALSE
  LateBlind = FALSE
INIT Init
NEXT Next
CHECK_DEADLOCK FALSE
INVARIANTS WgExact AfterCloseErr NoBlockedOnStopped NamesFree TermMeansAllGone
