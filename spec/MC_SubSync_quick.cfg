CONSTANTS
  Topics = {"", "a", "ab", "b"}
  Peers = {"p1", "p2"}
  MaxOps = 6
  MaxCount = 2
INIT Init
NEXT Next
VIEW StateView
CHECK_DEADLOCK FALSE
INVARIANTS Synced SilentWhenDown NoBlindCancel
