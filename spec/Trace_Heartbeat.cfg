CONSTANTS
  Early = 15
  Late = 1200
SPECIFICATION TraceSpec
POSTCONDITION TraceAccepted
CHECK_DEADLOCK FALSE
