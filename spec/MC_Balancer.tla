---------------------------- MODULE MC_Balancer ----------------------------
EXTENDS Balancer, Json
Export == Terminal => PrintT(<<"REPLAY", ToJson([steps |-> hist])>>)
=============================================================================
