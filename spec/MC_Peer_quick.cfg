CONSTANTS
  CfgsA <- QA
  CfgsB <- QB
  MaxMsgs = 1
  MaxFrames = 2
  AllowCuts = TRUE
SPECIFICATION Spec
VIEW view
CHECK_DEADLOCK FALSE
INVARIANTS NoStall IncompatibleNeverUp CompatibleNeverFails Agree InOrder AllDelivered HcFirst
PROPERTIES Converge BothFail
