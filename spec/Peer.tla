------------------------------- MODULE Peer -------------------------------
(***************************************************************************)
(* Two rzmq engines (a connects, b accepts) joined by two byte channels.   *)
(* A scheduler decides which direction delivers next and how many pieces   *)
(* one read hands over - from a fragment of one token up to everything     *)
(* buffered.  Once in the data phase either side may send messages.        *)
(*                                                                         *)
(* Properties: C05 (handshakes converge / agree / fail on both sides) and   *)
(* C04/C01 at engine level (what is delivered is what was sent, whatever   *)
(* the read boundaries - including data sharing a read with the last       *)
(* handshake bytes).                                                       *)
(***************************************************************************)
EXTENDS Engine

CONSTANTS CfgsA, CfgsB,   \* sets of engine configurations to pair up (a: srv = FALSE, b: srv = TRUE)
          MaxMsgs,        \* data messages each side may send
          MaxFrames,      \* frames per message (1..MaxFrames)
          AllowCuts       \* whether reads may end inside a token

VARIABLES ea, eb,         \* engine states
          ab, ba,         \* channels a->b, b->a : sequences of pieces
          appA, appB,     \* app actions emitted so far
          sentA, sentB,   \* messages accepted by on_app_message (sequences of id sequences)
          closedA, closedB, \* the transport was closed under this side (peer went away)
          hist

vars == <<ea, eb, ab, ba, appA, appB, sentA, sentB, closedA, closedB, hist>>
view == <<ea, eb, ab, ba, appA, appB, sentA, sentB, closedA, closedB>>

CfgA == ea.cfg
CfgB == eb.cfg

Init == /\ \E ca \in CfgsA, cb \in CfgsB : ea = EInit(ca) /\ eb = EInit(cb)
        /\ ab = Wholes(EStartOut) /\ ba = Wholes(EStartOut)
        /\ appA = <<>> /\ appB = <<>> /\ sentA = <<>> /\ sentB = <<>>
        /\ closedA = FALSE /\ closedB = FALSE
        /\ hist = <<>>

Cuttable(p) == p.part = "w" /\ p.tok.k \in {"sig", "tail", "fr", "rec"}

\* What one read takes off a channel: k whole pieces, then optionally the head of the next.
Take(ch, k, cut) ==
  IF cut THEN SubSeq(ch, 1, k) \o << HeadOf(ch[k + 1].tok) >> ELSE SubSeq(ch, 1, k)
Leave(ch, k, cut) ==
  IF cut THEN << RestOf(ch[k + 1].tok) >> \o SubSeq(ch, k + 2, Len(ch)) ELSE SubSeq(ch, k + 1, Len(ch))

Labels(ts) == [i \in 1..Len(ts) |-> ts[i]]

DeliverToB(k, cut) ==
  /\ ~closedB /\ k \in 0..Len(ab) /\ (k > 0 \/ cut)
  /\ cut => (AllowCuts /\ k < Len(ab) /\ Cuttable(ab[k + 1]))
  /\ LET r == EOnBytes(eb, Take(ab, k, cut)) IN
       /\ eb' = r.e
       /\ ba' = ba \o Wholes(r.net)
       /\ appB' = appB \o r.app
       /\ ab' = Leave(ab, k, cut)
       /\ hist' = Append(hist, [a |-> "deliver", to |-> "b", k |-> k, cut |-> cut,
                                net |-> r.net, app |-> r.app, proj |-> Proj(r.e)])
  /\ UNCHANGED <<ea, appA, sentA, sentB, closedA, closedB>>

DeliverToA(k, cut) ==
  /\ ~closedA /\ k \in 0..Len(ba) /\ (k > 0 \/ cut)
  /\ cut => (AllowCuts /\ k < Len(ba) /\ Cuttable(ba[k + 1]))
  /\ LET r == EOnBytes(ea, Take(ba, k, cut)) IN
       /\ ea' = r.e
       /\ ab' = ab \o Wholes(r.net)
       /\ appA' = appA \o r.app
       /\ ba' = Leave(ba, k, cut)
       /\ hist' = Append(hist, [a |-> "deliver", to |-> "a", k |-> k, cut |-> cut,
                                net |-> r.net, app |-> r.app, proj |-> Proj(r.e)])
  /\ UNCHANGED <<eb, appB, sentA, sentB, closedA, closedB>>

MsgIds(side, n, nf) == [i \in 1..nf |-> side \o ToString(n) \o "." \o ToString(i)]

SendA(nf) ==
  /\ ea.phase = "Data" /\ ~closedA /\ Len(sentA) < MaxMsgs
  /\ LET ids == MsgIds("a", Len(sentA) + 1, nf)  r == EOnApp(ea, ids) IN
       /\ ab' = ab \o Wholes(r.net)
       /\ sentA' = Append(sentA, ids)
       /\ hist' = Append(hist, [a |-> "send", by |-> "a", ids |-> ids, net |-> r.net])
  /\ UNCHANGED <<ea, eb, ba, appA, appB, sentB, closedA, closedB>>

SendB(nf) ==
  /\ eb.phase = "Data" /\ ~closedB /\ Len(sentB) < MaxMsgs
  /\ LET ids == MsgIds("b", Len(sentB) + 1, nf)  r == EOnApp(eb, ids) IN
       /\ ba' = ba \o Wholes(r.net)
       /\ sentB' = Append(sentB, ids)
       /\ hist' = Append(hist, [a |-> "send", by |-> "b", ids |-> ids, net |-> r.net])
  /\ UNCHANGED <<ea, eb, ab, appA, appB, sentA, closedA, closedB>>

\* A side that closed takes the transport down; the other side sees EOF once it has read
\* everything that was sent to it before.
EofAtA == /\ eb.phase = "Closed" /\ ba = <<>> /\ ~closedA /\ ea.phase # "Closed"
          /\ closedA' = TRUE /\ ea' = Close(ea)
          /\ hist' = Append(hist, [a |-> "eof", at |-> "a"])
          /\ UNCHANGED <<eb, ab, ba, appA, appB, sentA, sentB, closedB>>
EofAtB == /\ ea.phase = "Closed" /\ ab = <<>> /\ ~closedB /\ eb.phase # "Closed"
          /\ closedB' = TRUE /\ eb' = Close(eb)
          /\ hist' = Append(hist, [a |-> "eof", at |-> "b"])
          /\ UNCHANGED <<ea, ab, ba, appA, appB, sentA, sentB, closedA>>

Deliveries == \/ \E k \in 0..Len(ab), c \in BOOLEAN : DeliverToB(k, c)
              \/ \E k \in 0..Len(ba), c \in BOOLEAN : DeliverToA(k, c)
Next == \/ Deliveries
        \/ \E nf \in 1..MaxFrames : SendA(nf) \/ SendB(nf)
        \/ EofAtA \/ EofAtB

Spec == Init /\ [][Next]_vars /\ WF_vars(Deliveries) /\ WF_vars(EofAtA) /\ WF_vars(EofAtB)

---------------------------------------------------------------------------
Compatible == /\ CfgA.mech = CfgB.mech
              /\ (CfgA.mech # "NULL" => (CfgA.good /\ CfgB.good))
              /\ Compat(CfgA.st, CfgB.st)

Hc(app) == { i \in 1..Len(app) : app[i].a = "hc" }
Delivered(app) == LET idx == { i \in 1..Len(app) : app[i].a = "deliver" } IN
  [j \in 1..Cardinality(idx) |->
     app[CHOOSE i \in idx : Cardinality({ x \in idx : x <= i }) = j].ids]
IsPrefixOf(s, t) == Len(s) <= Len(t) /\ SubSeq(t, 1, Len(s)) = s

Quiescent == ab = <<>> /\ ba = <<>>

\* C05: nobody waits forever - when nothing is in flight both sides are in the data phase, or
\* both have failed (possibly after the EOF step, which is still enabled otherwise).
NoStall == Quiescent =>
  \/ (ea.phase = "Data" /\ eb.phase = "Data")
  \/ (ea.phase = "Closed" /\ eb.phase = "Closed")
  \/ ENABLED EofAtA \/ ENABLED EofAtB

\* C05: incompatible endpoints never reach the data phase on either side.
IncompatibleNeverUp == ~Compatible => (Hc(appA) = {} /\ Hc(appB) = {})

\* C05: compatible endpoints never fail.
CompatibleNeverFails == Compatible => (ea.phase # "Closed" /\ eb.phase # "Closed")

\* C05: having completed, both agree on version, mechanism, and on each other's type and identity.
Agree == (Hc(appA) # {} /\ Hc(appB) # {}) =>
  /\ ea.ver = eb.ver /\ ea.negotiated = eb.negotiated
  /\ \A i \in Hc(appA) : appA[i].st = CfgB.st /\ appA[i].id = CfgB.id
  /\ \A i \in Hc(appB) : appB[i].st = CfgA.st /\ appB[i].id = CfgA.id
  /\ Cardinality(Hc(appA)) = 1 /\ Cardinality(Hc(appB)) = 1

\* C04 / C01 at engine level: what has been delivered is a prefix of what the peer's
\* application sent - whole messages, in order - whatever the read boundaries were.
InOrder == /\ IsPrefixOf(Delivered(appB), sentA)
           /\ IsPrefixOf(Delivered(appA), sentB)
\* ... and once nothing is in flight, everything has been delivered.
AllDelivered == (Quiescent /\ ea.phase = "Data" /\ eb.phase = "Data") =>
                   (Delivered(appB) = sentA /\ Delivered(appA) = sentB)
\* A message is delivered only after the handshake-complete notification.
HcFirst == /\ (Delivered(appA) # <<>> => appA[1].a = "hc")
           /\ (Delivered(appB) # <<>> => appB[1].a = "hc")

\* Liveness (checked only with SPECIFICATION Spec).
Converge == Compatible ~> (ea.phase = "Data" /\ eb.phase = "Data")
BothFail == (~Compatible) ~> (ea.phase = "Closed" /\ eb.phase = "Closed")

Terminal == Quiescent /\ ~ENABLED EofAtA /\ ~ENABLED EofAtB
            /\ (ea.phase = "Data" => Len(sentA) = MaxMsgs)
            /\ (eb.phase = "Data" => Len(sentB) = MaxMsgs)
=============================================================================
