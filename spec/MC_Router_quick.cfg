CONSTANTS
  Pipes = {"1", "2", "3"}
  Ids = {"A", "B"}
  MaxOps = 7
INIT Init
NEXT Next
CHECK_DEADLOCK FALSE
INVARIANTS SendGoesToAnnouncer PrefixIsTruth Routable
