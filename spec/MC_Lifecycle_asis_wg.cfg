CONSTANTS
  Socks = {s1}
  Tasks = {t1}
  HandshakeDeaf = FALSE
  CheckThenWait = TRUE
  LateBlind = FALSE
SPECIFICATION Spec
CHECK_DEADLOCK FALSE
INVARIANTS WgExact AfterCloseErr NoBlockedOnStopped NamesFree TermMeansAllGone
PROPERTIES Terminates CloseCleans
