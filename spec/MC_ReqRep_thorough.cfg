CONSTANTS
  Callers = {"t1", "t2", "t3"}
  MaxCalls = 4
  Serialize = TRUE
INIT Init
NEXT Next
CHECK_DEADLOCK FALSE
INVARIANTS ReqAlternates RepAlternates RepliesMatch
