CONSTANTS
  MaxSends = 6
  MaxMut = 2
  Sizes <- AllSizes
  TooBig <- Big
INIT Init
NEXT Next
CHECK_DEADLOCK FALSE
INVARIANTS NoWrongDelivery Export
