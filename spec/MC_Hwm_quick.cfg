CONSTANTS
  Cap = 2
  Timeos <- TimeoSet
  MaxTime = 5
  MaxCalls = 5
INIT Init
NEXT Next
CHECK_DEADLOCK FALSE
INVARIANTS Timeo0 TimeoPos TimeoInf Bound RefusedNotDelivered DeliveredPrefix
