--------------------------- MODULE MC_Heartbeat ---------------------------
EXTENDS Heartbeat, Json
Export == Terminal => PrintT(<<"REPLAY", ToJson([ivl |-> Ivl, timeout |-> Timeout, v2 |-> V2, steps |-> hist])>>)
=============================================================================
