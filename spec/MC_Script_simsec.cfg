CONSTANTS
  Cfgs <- Secured
  Depth = 7
  MaxPending = 3
  AllowCuts = TRUE
  Grammar <- Attack
INIT Init
NEXT Next
CHECK_DEADLOCK FALSE
INVARIANTS NoBypass PlainClientPath NoDataBeforeHc Export
