------------------------------ MODULE Engine ------------------------------
(***************************************************************************)
(* The sans-IO protocol engine (core/src/protocol/zmtp/engine.rs) as a     *)
(* library of operators over an engine-state record.  No variables here:   *)
(* Peer.tla composes two engines over byte channels, Attack.tla puts one   *)
(* engine in front of an attacker grammar, Heartbeat.tla adds the clock.   *)
(*                                                                         *)
(* WIRE ALPHABET.  The engine only ever acts on complete protocol units    *)
(* and its greeting thresholds (10, 11, 12 and 64 bytes) fall on unit      *)
(* boundaries, so the byte stream is modelled as a sequence of tokens:     *)
(*                                                                         *)
(*   [k |-> "sig", ok]                 10-byte signature (ok: FF ... 7F)   *)
(*   [k |-> "rev", r]                  revision byte: 1 = ZMTP/2.0, 3 = 3.x*)
(*   [k |-> "tail", mech, srv, ok]     53-byte ZMTP/3 greeting tail        *)
(*   [k |-> "t2", st]                  ZMTP/2.0 socket-type byte           *)
(*   [k |-> "fr", cmd, more, b, sealed] one frame with abstract body b     *)
(*   [k |-> "rec", frames, ok]         one encrypted record (ENC data phase)*)
(*                                                                         *)
(* Frame bodies b (records with field "b"):                                *)
(*   ready(st,id) | mech(i,ok) | error | ping(ctx) | pong(ctx) | unk       *)
(*   | data(id) | bad                                                      *)
(* mech(i, ok) is round i of the security mechanism: PLAIN HELLO/WELCOME,  *)
(* CURVE HELLO/WELCOME/INITIATE, Noise_XX messages 1-3; ok says whether it *)
(* verifies at the receiver (right password / produced with the right      *)
(* keys).  The attacker can only originate ok = FALSE for rounds that      *)
(* need a secret.                                                          *)
(*                                                                         *)
(* SEGMENTATION.  A channel holds PIECES [tok, part] with part "w" (whole  *)
(* token), "h" (a proper prefix of it) or "r" (the remainder).  One call   *)
(* of on_network_bytes receives any number of consecutive pieces.          *)
(***************************************************************************)
EXTENDS Integers, Sequences, FiniteSets, TLC

SocketTypes == {"PAIR", "PUB", "SUB", "REQ", "REP", "DEALER", "ROUTER", "PULL", "PUSH", "XPUB", "XSUB"}

\* The ZeroMQ pairing table (RFC 23/28 ...).  One operator, used for ZMTP/2.0, ZMTP/3.x
\* and inproc alike.  (engine.rs validate_v2_compatibility)
Compat(a, b) ==
  \/ <<a, b>> \in { <<"PULL","PUSH">>, <<"PUSH","PULL">>, <<"PUB","SUB">>, <<"SUB","PUB">>,
                    <<"PUB","XSUB">>, <<"XSUB","PUB">>, <<"XPUB","SUB">>, <<"SUB","XPUB">>,
                    <<"XPUB","XSUB">>, <<"XSUB","XPUB">>, <<"REQ","REP">>, <<"REP","REQ">>,
                    <<"REQ","ROUTER">>, <<"ROUTER","REQ">>, <<"REP","DEALER">>, <<"DEALER","REP">>,
                    <<"DEALER","ROUTER">>, <<"ROUTER","DEALER">>, <<"DEALER","DEALER">>,
                    <<"ROUTER","ROUTER">>, <<"PAIR","PAIR">> }

---------------------------------------------------------------------------
(* Tokens *)
Sig(ok)              == [k |-> "sig", ok |-> ok]
Rev(r)               == [k |-> "rev", r |-> r]
GTail(m, srv, ok)    == [k |-> "tail", mech |-> m, srv |-> srv, ok |-> ok]
T2(st)               == [k |-> "t2", st |-> st]
Fr(cmd, more, b)     == [k |-> "fr", cmd |-> cmd, more |-> more, b |-> b, sealed |-> FALSE]
\* an encrypted record: the frames inside it, and whether it authenticates at the receiver
Rec(frames, ok)      == [k |-> "rec", frames |-> frames, ok |-> ok]
SealFr(f)            == [f EXCEPT !.sealed = TRUE]
BReady(st, id)       == [b |-> "ready", st |-> st, id |-> id]
BMech(i, ok)         == [b |-> "mech", i |-> i, ok |-> ok]
BError               == [b |-> "error"]
BPing(ctx)           == [b |-> "ping", ctx |-> ctx]
BPong(ctx)           == [b |-> "pong", ctx |-> ctx]
BUnk                 == [b |-> "unk"]
BData(id)            == [b |-> "data", id |-> id]
BBad                 == [b |-> "bad"]       \* undecodable frame (e.g. above MAXMSGSIZE)

\* Frames one message may have (255 in the code: FrameBatch spills into a VecU8).
FrameCap == 3

Whole(t) == [tok |-> t, part |-> "w"]
HeadOf(t) == [tok |-> t, part |-> "h"]
RestOf(t) == [tok |-> t, part |-> "r"]
Wholes(ts) == [i \in 1..Len(ts) |-> Whole(ts[i])]

---------------------------------------------------------------------------
(* Engine configuration and state *)

\* cfg: [srv, st, id, mech, good, allowV2]
\*   srv    : TRUE for the accepting side (is_server)
\*   st     : socket type name;  id : routing id ("" = none)
\*   mech   : "NULL" | "PLAIN" | "ENC"  (ENC = CURVE or Noise_XX: three rounds, encrypted data phase)
\*   good   : what this side sends in secret-dependent rounds verifies at an honest peer
\*   allowV2: ALLOW_ZMTP2
EInit(cfg) ==
  [cfg |-> cfg, phase |-> "Greeting", ver |-> 0, revSent |-> FALSE, pre2 |-> FALSE, v2IdSent |-> FALSE,
   peerRev |-> 0, v2Peer |-> "", negotiated |-> "", ms |-> 0, enc |-> FALSE, acc |-> <<>>, partial |-> <<>>,
   wpong |-> FALSE]

\* start(): the signature only (staged greeting, stage A).
EStartOut == << Sig(TRUE) >>

\* Does the accumulator start with a complete token?
HasHead(acc) ==
  /\ acc # <<>>
  /\ \/ acc[1].part = "w"
     \/ (acc[1].part = "h" /\ Len(acc) >= 2 /\ acc[2].part = "r")
HeadTok(acc)  == acc[1].tok
DropHead(acc) == IF acc[1].part = "w" THEN Tail(acc) ELSE Tail(Tail(acc))

ReadyTok(cfg) == Fr(TRUE, FALSE, BReady(cfg.st, cfg.id))
MechTok(cfg, i) == Fr(TRUE, FALSE, BMech(i, cfg.good))

Close(e) == [e EXCEPT !.phase = "Closed"]
Err == [a |-> "err"]

\* An intermediate result: engine state, tokens to send, app actions.
R(e, net, app) == [e |-> e, net |-> net, app |-> app]

\* Rounds of each mechanism: who speaks in round i, and how many rounds.
Rounds(m) == IF m = "PLAIN" THEN 2 ELSE IF m = "ENC" THEN 3 ELSE 0
ClientSpeaks(i) == i \in {1, 3}
\* Does a received round-i token need to verify?  PLAIN: only HELLO (round 1) carries a
\* secret; WELCOME (round 2) proves nothing.  ENC: round 1 is a bare ephemeral public key
\* (CURVE HELLO as rzmq implements it, Noise_XX message "e") and proves nothing; rounds 2 and 3
\* are authenticated (server static key / client vouch).
NeedsOk(m, i) == IF m = "PLAIN" THEN i = 1 ELSE i >= 2

---------------------------------------------------------------------------
(* One call of on_network_bytes: append, then run the phase handlers with the code's
   cascade (greeting -> security -> ready -> data on leftover bytes).  *)

RECURSIVE Run(_)
Run(r) ==
  LET e == r.e  cfg == e.cfg IN
  IF e.phase = "Closed" \/ ~HasHead(e.acc) THEN r
  ELSE LET t == HeadTok(e.acc)  rest == DropHead(e.acc) IN
  CASE e.phase = "Greeting" ->
         IF ~e.revSent THEN
           \* stage B: the peer's signature is in; answer with our revision byte
           IF t.k = "sig" /\ t.ok
             THEN Run(R([e EXCEPT !.revSent = TRUE, !.acc = rest], Append(r.net, Rev(3)), r.app))
             ELSE R(Close(e), r.net, Append(r.app, Err))
         ELSE IF e.ver = 0 /\ ~e.pre2 THEN
           \* stage C: commit to a version on the peer's revision byte
           IF t.k # "rev" THEN R(Close(e), r.net, Append(r.app, Err))
           ELSE IF t.r >= 3 THEN
             Run(R([e EXCEPT !.ver = 3, !.peerRev = t.r, !.acc = rest],
                   Append(r.net, GTail(cfg.mech, cfg.srv, TRUE)), r.app))
           ELSE IF t.r = 1 THEN
             \* ZMTP/2.0 has no security handshake: refused when a mechanism is configured
             IF ~cfg.allowV2 \/ cfg.mech # "NULL"
               THEN R(Close(e), r.net, Append(r.app, Err))
               ELSE Run(R([e EXCEPT !.pre2 = TRUE, !.acc = rest], r.net, r.app))
           ELSE R(Close(e), r.net, Append(r.app, Err))
         ELSE IF e.ver = 0 THEN
           \* ZMTP/2.0: socket-type byte (12-byte header complete), then our type byte and identity frame
           IF t.k # "t2" \/ t.st \notin SocketTypes \/ ~Compat(cfg.st, t.st)
             THEN R(Close(e), r.net, Append(r.app, Err))
             ELSE Run(R([e EXCEPT !.phase = "V2Identity", !.ver = 2, !.v2Peer = t.st, !.v2IdSent = TRUE, !.acc = rest],
                       r.net \o << T2(cfg.st), Fr(FALSE, FALSE, BData(cfg.id)) >>, r.app))
         ELSE
           \* ZMTP/3.x: the 53-byte tail completes the 64-byte greeting
           \* ZmtpGreeting::decode also insists on major version 3 exactly: a peer announcing a
           \* later revision gets our tail and is then refused (as the code does today)
           IF t.k # "tail" \/ ~t.ok \/ e.peerRev # 3 THEN R(Close(e), r.net, Append(r.app, Err))
           ELSE IF t.mech # cfg.mech THEN R(Close(e), r.net, Append(r.app, Err))   \* negotiate_security_mechanism
           ELSE IF cfg.mech = "NULL" THEN
             Run(R([e EXCEPT !.phase = "Ready", !.negotiated = "NULL", !.acc = rest],
                   IF cfg.srv THEN r.net ELSE Append(r.net, ReadyTok(cfg)), r.app))
           ELSE
             \* Security phase; a client speaks first
             Run(R([e EXCEPT !.phase = "Security", !.negotiated = cfg.mech, !.acc = rest,
                             !.ms = IF cfg.srv THEN 0 ELSE 1],
                   IF cfg.srv THEN r.net ELSE Append(r.net, MechTok(cfg, 1)), r.app))
    [] e.phase = "Security" ->
         \* process_security: every frame is a mechanism token (the COMMAND flag is not looked at)
         IF t.k # "fr" \/ t.b.b = "bad" THEN R(Close(e), r.net, Append(r.app, Err))
         ELSE LET m == cfg.mech  n == Rounds(m)  expect == e.ms + 1 IN
           IF t.b.b # "mech" \/ t.b.i # expect \/ ClientSpeaks(expect) # cfg.srv
              \/ (NeedsOk(m, expect) /\ ~t.b.ok)
             THEN R(Close(e), r.net, Append(r.app, Err))
           ELSE
             \* accepted round `expect`; maybe answer with the next round; maybe complete
             LET answer == expect < n /\ (ClientSpeaks(expect + 1) # cfg.srv)
                 ms2 == IF answer THEN expect + 1 ELSE expect
                 done == ms2 = n
                 net2 == IF answer THEN Append(r.net, MechTok(cfg, expect + 1)) ELSE r.net
             IN IF done
                  THEN Run(R([e EXCEPT !.phase = "Ready", !.ms = ms2, !.acc = rest],
                            IF cfg.srv THEN net2 ELSE Append(net2, ReadyTok(cfg)), r.app))
                  ELSE Run(R([e EXCEPT !.ms = ms2, !.acc = rest], net2, r.app))
    [] e.phase = "Ready" ->
         IF t.k # "fr" \/ ~t.cmd \/ t.more \/ t.b.b # "ready"
           THEN R(Close(e), r.net, Append(r.app, Err))
         ELSE IF ~Compat(cfg.st, t.b.st)                   \* Socket-Type is validated (one table for all transports)
           THEN R(Close(e), r.net, Append(r.app, Err))
         ELSE Run(R([e EXCEPT !.phase = "Data", !.enc = (cfg.mech = "ENC"), !.acc = rest],
                   IF cfg.srv THEN Append(r.net, ReadyTok(cfg)) ELSE r.net,
                   Append(r.app, [a |-> "hc", id |-> t.b.id, st |-> t.b.st])))
    [] e.phase = "V2Identity" ->
         \* the peer's identity frame: a plain, single data frame of <= 255 bytes
         IF t.k # "fr" \/ t.cmd \/ t.more \/ t.b.b = "bad"
           THEN R(Close(e), r.net, Append(r.app, Err))
           ELSE Run(R([e EXCEPT !.phase = "Data", !.acc = rest], r.net,
                     Append(r.app, [a |-> "hc", id |-> IF t.b.b = "data" THEN t.b.id ELSE "?", st |-> e.v2Peer])))
    [] e.phase = "Data" ->
         IF t.k = "rec" THEN
           \* LengthPrefixedFramer: decrypt one record, then parse the frames inside it
           IF ~e.enc \/ ~t.ok THEN R(Close(e), r.net, Append(r.app, Err))
           ELSE Run(R([e EXCEPT !.acc = Wholes(t.frames) \o rest], r.net, r.app))
         ELSE IF t.k # "fr" \/ t.b.b = "bad" \/ (e.enc # t.sealed) THEN R(Close(e), r.net, Append(r.app, Err))
         ELSE IF t.cmd THEN
           IF e.ver = 2 THEN R(Close(e), r.net, Append(r.app, Err))
           ELSE IF t.more THEN Run(R([e EXCEPT !.acc = rest], r.net, r.app))       \* ZmtpCommand::parse -> None: ignored
           ELSE IF t.b.b = "ping" THEN Run(R([e EXCEPT !.acc = rest], Append(r.net, Fr(TRUE, FALSE, BPong(t.b.ctx))), r.app))
           ELSE IF t.b.b = "pong" THEN Run(R([e EXCEPT !.acc = rest, !.wpong = FALSE], r.net, r.app))
           ELSE IF t.b.b = "error" THEN R(Close(e), r.net, Append(r.app, Err))
           ELSE Run(R([e EXCEPT !.acc = rest], r.net, r.app))
         ELSE
           LET id == IF t.b.b = "data" THEN t.b.id ELSE "?" IN
           IF Len(e.partial) >= FrameCap THEN R(Close(e), r.net, Append(r.app, Err))   \* too many frames: refuse, never panic
           ELSE IF t.more THEN Run(R([e EXCEPT !.acc = rest, !.partial = Append(@, id)], r.net, r.app))
           ELSE Run(R([e EXCEPT !.acc = rest, !.partial = <<>>], r.net,
                     Append(r.app, [a |-> "deliver", ids |-> Append(e.partial, id)])))

EOnBytes(e, pieces) == Run(R([e EXCEPT !.acc = @ \o pieces], <<>>, <<>>))

\* on_app_message: frames a message in the Data phase; ignored otherwise.
EOnApp(e, ids) ==
  LET frames == [i \in 1..Len(ids) |-> Fr(FALSE, i < Len(ids), BData(ids[i]))] IN
  IF e.phase # "Data" THEN R(e, <<>>, <<>>)
  ELSE IF e.enc THEN R(e, << Rec([i \in 1..Len(frames) |-> SealFr(frames[i])], TRUE) >>, <<>>)
  ELSE R(e, frames, <<>>)

\* Projection compared with the real engine after every step.
Proj(e) == [phase |-> e.phase, ver |-> e.ver, revSent |-> e.revSent]
=============================================================================
