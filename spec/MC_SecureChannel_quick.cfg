CONSTANTS
  MaxSends = 4
  MaxMut = 2
  Sizes <- AllSizes
  TooBig <- Big
INIT Init
NEXT Next
VIEW view
CHECK_DEADLOCK FALSE
INVARIANTS NoWrongDelivery SelfDecodable TamperCloses
