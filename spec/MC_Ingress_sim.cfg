CONSTANTS
  Pipes = {"1", "2", "3"}
  MaxMsgs = 6
  MaxFrames = 4
  MaxOps = 16
INIT Init
NEXT Next
CHECK_DEADLOCK FALSE
INVARIANTS Whole Export
