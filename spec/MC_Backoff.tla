----------------------------- MODULE MC_Backoff -----------------------------
EXTENDS Backoff, Json
IvlSet == {0, 1, 10, 100, 250}
MaxSet == {0, 1, 15, 100, 400, 3000}
\* one line per complete history, replayed on the real ReconnectState / compared with the connecter's events
Export == Terminal => PrintT(<<"REPLAY", ToJson([impl |-> Impl, ivl |-> ivl, max |-> max, steps |-> hist])>>)
=============================================================================
