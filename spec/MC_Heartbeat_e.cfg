CONSTANTS
  Ivl = 1
  Timeout = 3
  MaxTime = 5
  V2 = FALSE
  Ctxs = {"c0", "c17"}
  MaxChunks = 1
  MaxRecv = 3
INIT Init
NEXT Next
VIEW view
CHECK_DEADLOCK FALSE
INVARIANTS PingWindow NotOverdue ClosedOnlyWhenDead DeadDetected NoHbOnV2 WholeChunks DataFifo PongEcho
PROPERTIES PingAfterIdle
