------------------------------ MODULE Delivery ------------------------------
(***************************************************************************)
(* Property-level specification of message delivery between sockets: what  *)
(* an application may observe through send() and recv(), nothing about how *)
(* rzmq achieves it.  Used as the oracle of recorded histories (trace       *)
(* validation, Trace_Delivery) for C01, C02, C09, C13, C14, C20 and, in      *)
(* fan-out mode, C12.                                                      *)
(*                                                                         *)
(*   Offer(s, k)        task calls send() of its k-th message on socket s  *)
(*   Accept / Refuse    send() returned Ok / an error (or was cancelled)   *)
(*   Deliver(r, s, k)   recv() on socket r returned message k of sender s  *)
(*   Quiesce            the workload is over and every receiver was drained *)
(*                                                                         *)
(* Unicast (PUSH, DEALER, REQ, REP, ROUTER): a message is delivered at most *)
(* once, to one receiver, only if it was offered and not refused; messages  *)
(* of one sender arrive at one receiver in the order they were offered; at  *)
(* Quiesce every accepted message has been delivered.                       *)
(* Fan-out (PUB): at most once per receiver, in order per receiver; loss is *)
(* allowed.                                                                *)
(***************************************************************************)
EXTENDS Integers, Sequences, FiniteSets, TLC

CONSTANT Fanout     \* TRUE for PUB/SUB histories

VARIABLES st,       \* <<s, k>> -> "offered" | "accepted" | "refused"
          at,       \* <<s, k>> -> set of receivers that got the message
          last      \* <<r, s>> -> k of the last message of s delivered at r

dvars == <<st, at, last>>

DInit == st = <<>> /\ at = <<>> /\ last = <<>>

Known(f, x) == x \in DOMAIN f
Put(f, x, v) == [y \in (DOMAIN f) \cup {x} |-> IF y = x THEN v ELSE f[y]]
Get(f, x, d) == IF x \in DOMAIN f THEN f[x] ELSE d

Offer(s, k) ==
  /\ ~Known(st, <<s, k>>)
  /\ st' = Put(st, <<s, k>>, "offered") /\ at' = Put(at, <<s, k>>, {})
  /\ UNCHANGED last

Accept(s, k) ==
  /\ Known(st, <<s, k>>) /\ st[<<s, k>>] = "offered"
  /\ st' = Put(st, <<s, k>>, "accepted") /\ UNCHANGED <<at, last>>

\* a refused (or cancelled) send may still have been delivered - "either not at all or whole" -
\* but then it counts as delivered exactly once like any other
Refuse(s, k) ==
  /\ Known(st, <<s, k>>) /\ st[<<s, k>>] = "offered"
  /\ st' = Put(st, <<s, k>>, "refused") /\ UNCHANGED <<at, last>>

Deliver(r, s, k) ==
  /\ Known(st, <<s, k>>)                                  \* never a message nobody sent
  /\ IF Fanout THEN r \notin at[<<s, k>>] ELSE at[<<s, k>>] = {}       \* never twice
  /\ k > Get(last, <<r, s>>, 0)                           \* per-connection order
  /\ at' = Put(at, <<s, k>>, at[<<s, k>>] \cup {r})
  /\ last' = Put(last, <<r, s>>, k)
  /\ UNCHANGED st

\* refused-by-timeout messages must not surface later as a surprise: allowed by the statement
\* ("never loses the message it refused" refers to the caller keeping it) - so no constraint.
Quiesce ==
  /\ Fanout \/ \A x \in DOMAIN st : st[x] = "accepted" => at[x] # {}
  /\ UNCHANGED dvars

\* Invariants (hold by construction of the guards; listed for the exhaustive sanity model)
AtMostOnce == Fanout \/ \A x \in DOMAIN at : Cardinality(at[x]) <= 1
=============================================================================
