------------------------------- MODULE Backoff -------------------------------
(***************************************************************************)
(* Reconnect delays (C17).  rzmq computes them in two places:               *)
(*                                                                         *)
(*  core : socket/core/state.rs ReconnectState::on_connection_failure -     *)
(*         used when an established outbound session is lost: the socket    *)
(*         core schedules a new connecter after delay(attempts) and resets  *)
(*         the counter when a connection succeeds;                          *)
(*  conn : transport/tcp.rs, the connecter's own life loop - used while the *)
(*         peer cannot be reached at all: it sleeps current_retry_delay     *)
(*         between attempts and updates it after each sleep; a connecter    *)
(*         respawned by the core inherits the core's attempt count          *)
(*         (fast-forward).                                                  *)
(*                                                                         *)
(* Both are transcribed below; a history is a sequence of failures and      *)
(* successes, `delays` the delays handed out.  RECONNECT_IVL_MAX = 0 means  *)
(* "not set" (the option's default).  Times are milliseconds.               *)
(***************************************************************************)
EXTENDS Integers, Sequences, TLC

CONSTANTS Ivls, Maxs, MaxSteps,
          Impl            \* "core" | "conn"

VARIABLES ivl, max, attempts, cur, delays, hist
vars == <<ivl, max, attempts, cur, delays, hist>>

RECURSIVE Pow2(_)
Pow2(n) == IF n = 0 THEN 1 ELSE 2 * Pow2(n - 1)
Min(a, b) == IF a < b THEN a ELSE b

\* state.rs: base * 2^attempts, capped by max when max > 0
\* (callers pass RECONNECT_IVL_MAX, or 60 s when the option is None; the default option is Some(0))
CoreDelay(i, m, k) == LET d == i * Pow2(Min(k, 31)) IN IF m > 0 THEN Min(d, m) ELSE d

\* tcp.rs: the update applied to current_retry_delay after each sleep
ConnNext(i, m, c) == IF c > 0 /\ m > 0 THEN Min(2 * c, m) ELSE c
\* ... and the fast-forward for a connecter that inherits k attempts
RECURSIVE ConnStart(_, _, _)
ConnStart(i, m, k) == IF k = 0 \/ i = 0 \/ m = 0 THEN i ELSE Min(2 * ConnStart(i, m, k - 1), m)

\* A cap below the base interval is no cap (libzmq ignores such a value); those pairs are left out.
Init == /\ ivl \in Ivls /\ max \in {m \in Maxs : m = 0 \/ m >= ivl}
        /\ attempts = 0 /\ cur = ivl /\ delays = <<>> /\ hist = <<>>

\* a connection attempt (or an established session) fails: the next delay is handed out
Fail == /\ Len(hist) < MaxSteps
        /\ LET d == IF Impl = "core" THEN CoreDelay(ivl, max, attempts) ELSE cur IN
           /\ delays' = Append(delays, d)
           /\ hist' = Append(hist, [a |-> "fail", d |-> d])
        /\ attempts' = attempts + 1
        /\ cur' = IF Impl = "conn" THEN ConnNext(ivl, max, cur) ELSE cur
        /\ UNCHANGED <<ivl, max>>

\* the peer is back: counters start over
Succeed == /\ Len(hist) < MaxSteps /\ delays # <<>>
           /\ attempts' = 0 /\ cur' = ivl /\ delays' = <<>>
           /\ hist' = Append(hist, [a |-> "ok", d |-> 0])
           /\ UNCHANGED <<ivl, max>>

Next == Fail \/ Succeed
Spec == Init /\ [][Next]_vars

---------------------------------------------------------------------------
Floor == IF max > 0 THEN Min(ivl, max) ELSE ivl

\* delays start at RECONNECT_IVL (or at the cap, if that is lower) and never fall below it
Starts == delays # <<>> => delays[1] = Floor
NeverBelow == \A k \in 1..Len(delays) : delays[k] >= Floor
\* they grow at most geometrically
Geometric == \A k \in 1..(Len(delays) - 1) : delays[k + 1] <= 2 * delays[k] /\ delays[k + 1] >= delays[k]
\* and never exceed RECONNECT_IVL_MAX when that is set
Capped == max > 0 => \A k \in 1..Len(delays) : delays[k] <= max
\* a respawned connecter continues where the core's count stands
Inherit == \A k \in 0..8 : (max > 0) => ConnStart(ivl, max, k) = CoreDelay(ivl, max, k)

Terminal == Len(hist) = MaxSteps
=============================================================================
