------------------------------- MODULE Wire -------------------------------
(***************************************************************************)
(* ZMTP/3.x framing as rzmq implements it: the frame header, the two       *)
(* stateful decoders (the manual parser used on live connections and the   *)
(* tokio codec), MAXMSGSIZE, and arbitrary segmentation of the byte        *)
(* stream into reads.                                                      *)
(*                                                                         *)
(* Bytes are not represented; a stream is a sequence of frames and a       *)
(* position in it is an integer offset.  A frame's header shape (2 or 9    *)
(* bytes, flag bits, big-endian length) is a function of the frame, so the *)
(* concrete bytes are determined by this module and are re-computed by the *)
(* harness's independent reference encoder.                                *)
(*                                                                         *)
(* Anchors: core/src/protocol/zmtp/manual_parser.rs (decode_from_buffer),  *)
(*          core/src/protocol/zmtp/codec.rs (Decoder for ZmtpCodec),       *)
(*          core/src/security/framer/encoder.rs, framer/mod.rs.            *)
(***************************************************************************)
EXTENDS Integers, Sequences, FiniteSets, TLC

CONSTANTS Lens,        \* payload lengths a frame may have
          MaxFrames,   \* stream length bound
          MaxMsg       \* MAXMSGSIZE; -1 = unlimited

Frame == [len : Lens, more : BOOLEAN, cmd : BOOLEAN]

HeaderLen(f) == IF f.len <= 255 THEN 2 ELSE 9
FlagsByte(f) == (IF f.more THEN 1 ELSE 0) + (IF f.len > 255 THEN 2 ELSE 0)
                + (IF f.cmd THEN 4 ELSE 0)
WireLen(f)   == HeaderLen(f) + f.len

RECURSIVE StartOf(_, _)
StartOf(s, i) == IF i = 1 THEN 0 ELSE StartOf(s, i - 1) + WireLen(s[i - 1])
EndOf(s, i)   == StartOf(s, i) + WireLen(s[i])
Total(s)      == IF s = <<>> THEN 0 ELSE EndOf(s, Len(s))

\* Offsets at which a read boundary exercises a distinct case of the decoders.
CutsOfFrame(s, i) ==
  LET b == StartOf(s, i)  h == HeaderLen(s[i])  n == s[i].len IN
  { b + 1, b + 2, b + h - 1, b + h, b + h + 1, b + h + (n \div 2), b + h + n - 1, b + h + n }
Cuts(s) == { c \in UNION { CutsOfFrame(s, i) : i \in 1..Len(s) } : c > 0 /\ c <= Total(s) }

Oversize(f) == MaxMsg >= 0 /\ f.len > MaxMsg

VARIABLES sent,    \* the frames on the wire (built frame by frame, then frozen)
          building,
          fed,     \* bytes handed to the decoders so far
          mdec, mpos, merr,          \* manual parser: frames out, bytes consumed, failed
          cdec, cpos, cbody, cerr,   \* tokio codec:   frames out, bytes consumed, in ReadBody, failed
          hist     \* the reads performed: <<[cut, dec, err]>>  (for replay export)

vars == <<sent, building, fed, mdec, mpos, merr, cdec, cpos, cbody, cerr, hist>>
view == <<sent, building, fed, mdec, mpos, merr, cdec, cpos, cbody, cerr>>

(* manual_parser.rs decode_from_buffer, looped by the framer until Ok(None).
   Nothing is consumed until the whole frame is buffered; MAXMSGSIZE is tested on
   the announced size as soon as the header is complete. *)
RECURSIVE ManualRun(_, _, _, _)
ManualRun(s, avail, dec, pos) ==
  IF dec = Len(s) THEN <<dec, pos, FALSE>>
  ELSE LET f == s[dec + 1]  a == avail - pos IN
       IF a < 1 \/ a < HeaderLen(f) THEN <<dec, pos, FALSE>>
       ELSE IF Oversize(f) THEN <<dec, pos, TRUE>>
       ELSE IF a - HeaderLen(f) < f.len THEN <<dec, pos, FALSE>>
       ELSE ManualRun(s, avail, dec + 1, pos + WireLen(f))

(* codec.rs: the header is consumed as soon as it is complete (state ReadBody), the
   body when it is complete.  The codec has its own fixed 64 MiB cap, outside the
   lengths modelled here. *)
RECURSIVE CodecRun(_, _, _, _, _)
CodecRun(s, avail, dec, pos, body) ==
  IF dec = Len(s) THEN <<dec, pos, body, FALSE>>
  ELSE LET f == s[dec + 1]  a == avail - pos IN
       IF ~body THEN
         IF a < 1 \/ a < HeaderLen(f) THEN <<dec, pos, FALSE, FALSE>>
         ELSE CodecRun(s, avail, dec, pos + HeaderLen(f), TRUE)
       ELSE
         IF a < f.len THEN <<dec, pos, TRUE, FALSE>>
         ELSE CodecRun(s, avail, dec + 1, pos + f.len, FALSE)

Init == /\ sent = <<>> /\ building = TRUE
        /\ fed = 0
        /\ mdec = 0 /\ mpos = 0 /\ merr = FALSE
        /\ cdec = 0 /\ cpos = 0 /\ cbody = FALSE /\ cerr = FALSE
        /\ hist = <<>>

\* The sender side: choose the stream.  (Separate steps rather than one big initial
\* set so that simulation mode can draw long streams over many lengths.)
Add(f) == /\ building /\ Len(sent) < MaxFrames
          /\ sent' = Append(sent, f)
          /\ UNCHANGED <<building, fed, mdec, mpos, merr, cdec, cpos, cbody, cerr, hist>>
Freeze == /\ building /\ sent # <<>>
          /\ building' = FALSE
          /\ UNCHANGED <<sent, fed, mdec, mpos, merr, cdec, cpos, cbody, cerr, hist>>

Feed(c) ==
  /\ ~building /\ ~merr
  /\ c \in Cuts(sent) /\ c > fed
  /\ fed' = c
  /\ LET m == ManualRun(sent, c, mdec, mpos)
         k == CodecRun(sent, c, cdec, cpos, cbody) IN
       /\ mdec' = m[1] /\ mpos' = m[2] /\ merr' = m[3]
       /\ cdec' = k[1] /\ cpos' = k[2] /\ cbody' = k[3] /\ cerr' = k[4]
       /\ hist' = Append(hist, [cut |-> c, dec |-> m[1], err |-> m[3]])
  /\ UNCHANGED <<sent, building>>

Next == (\E f \in Frame : Add(f)) \/ Freeze \/ (\E c \in Cuts(sent) : Feed(c))

Spec == Init /\ [][Next]_vars

---------------------------------------------------------------------------
(* Properties *)

\* Number of frames that lie entirely before offset c.
Complete(s, c) == Cardinality({ i \in 1..Len(s) : EndOf(s, i) <= c })

\* First oversize frame whose header lies entirely before c (0 if none).
FirstBad(s, c) ==
  LET B == { i \in 1..Len(s) : Oversize(s[i]) /\ StartOf(s, i) + HeaderLen(s[i]) <= c } IN
  IF B = {} THEN 0 ELSE CHOOSE i \in B : \A j \in B : i <= j

TypeOK == /\ fed \in 0..Total(sent)
          /\ mdec \in 0..Len(sent) /\ cdec \in 0..Len(sent)
          /\ mpos \in 0..fed /\ cpos \in 0..fed

\* C03: whatever the cuts, the frames handed out so far are exactly the frames
\* that are complete in the bytes read so far, in order (eager, no loss, no extra).
RoundTrip ==
  LET bad == FirstBad(sent, fed) IN
  IF bad = 0 THEN ~merr /\ mdec = Complete(sent, fed)
  ELSE mdec = bad - 1 /\ (merr <=> TRUE)

\* Both stateful decoders agree wherever no limit is configured.
DecodersAgree == (MaxMsg < 0) => (cdec = mdec /\ ~cerr)

\* C03: at the end of the stream everything has been decoded.
AllDecodedAtEnd == (fed = Total(sent) /\ FirstBad(sent, fed) = 0) => mdec = Len(sent)

\* C07: the limit is exact - a frame of exactly MaxMsg passes, MaxMsg+1 fails - and it
\* fails when its header is complete, before any of its body is required.
LimitExact ==
  merr <=> (FirstBad(sent, fed) # 0)

\* C07: with a limit, an incomplete frame never pins more than header + limit bytes
\* (the rest of the accumulator is at most what the last read brought in).
AccBound ==
  (MaxMsg >= 0 /\ ~merr /\ mdec < Len(sent)) =>
     LET f == sent[mdec + 1] IN
       (fed - mpos >= HeaderLen(f)) => (fed - mpos < HeaderLen(f) + MaxMsg + 1)

\* Header shape (documentation of the concrete bytes; the harness reference encoder
\* implements exactly this): flags bit0 MORE, bit1 LONG, bit2 COMMAND.
HeaderShape == \A i \in 1..Len(sent) :
   /\ HeaderLen(sent[i]) = (IF sent[i].len <= 255 THEN 2 ELSE 9)
   /\ FlagsByte(sent[i]) \in 0..7

Terminal == ~building /\ (merr \/ fed = Total(sent))
=============================================================================
