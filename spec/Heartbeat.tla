----------------------------- MODULE Heartbeat -----------------------------
(***************************************************************************)
(* The heartbeat sub-machine of the engine (engine.rs on_tick /            *)
(* process_data), the session's two timers (the interval tick and the      *)
(* PONG deadline), and the egress buffer into which PING / PONG frames are *)
(* inserted ahead of queued data (egress_buffer.rs push_priority).         *)
(*                                                                         *)
(* Time is a bounded integer clock.  The session's interval timer fires    *)
(* every Ivl units (tokio interval_at(now + ivl, ivl)); the PONG deadline  *)
(* (sleep_until(lastPing + Timeout)) closes the connection by itself.      *)
(***************************************************************************)
EXTENDS Integers, Sequences, FiniteSets, TLC

CONSTANTS Ivl, Timeout,   \* HEARTBEAT_IVL, HEARTBEAT_TIMEOUT in clock units (>= 1)
          MaxTime,        \* clock bound
          V2,             \* TRUE: the session negotiated ZMTP/2.0
          Ctxs,           \* PING contexts a peer may send (abstract ids)
          MaxChunks,      \* data chunks that may be queued for writing
          MaxRecv         \* inbound frames the peer may send

VARIABLES now, phase, lastAct, lastPing, wpong,
          inbound,        \* what the peer does next is chosen by the environment: see actions
          egress,         \* sequence of chunks [id, len, prio] waiting to be written
          woff,           \* bytes of the head chunk already written
          wire,           \* chunk ids in the order their *last byte* reached the socket
          started,        \* chunk ids whose first byte reached the socket, in order
          tickDone,       \* the interval timer has fired for the current instant
          nchunks, pingsSent, pongsOwed, hist

vars == <<now, phase, lastAct, lastPing, wpong, inbound, egress, woff, wire, started, tickDone, nchunks, pingsSent, pongsOwed, hist>>
view == <<now, phase, lastAct, lastPing, wpong, inbound, egress, woff, wire, started, tickDone, nchunks, pingsSent, pongsOwed>>

Init == /\ now = 0 /\ phase = "Data" /\ lastAct = 0 /\ lastPing = -1 /\ wpong = FALSE
        /\ inbound = 0 /\ egress = <<>> /\ woff = 0 /\ wire = <<>> /\ started = <<>>
        /\ tickDone = TRUE /\ nchunks = 0 /\ pingsSent = <<>> /\ pongsOwed = <<>> /\ hist = <<>>

Log(r) == hist' = Append(hist, r)

\* egress_buffer.rs push_priority: in front, but behind a head chunk that is partly written
PushPrio(eg, off, c) == IF off > 0 /\ eg # <<>> THEN <<eg[1], c>> \o SubSeq(eg, 2, Len(eg)) ELSE <<c>> \o eg

\* the clock advances; nothing else happens
Advance ==
  /\ now < MaxTime /\ phase = "Data"
  \* the PONG deadline is a timer of its own: time cannot pass it silently
  /\ ~(wpong /\ now + 1 > lastPing + Timeout)
  /\ tickDone                                   \* a due tick fires before time moves on
  /\ now' = now + 1
  /\ tickDone' = ((now + 1) % Ivl # 0)
  /\ Log([a |-> "advance"])
  /\ UNCHANGED <<phase, lastAct, lastPing, wpong, inbound, egress, woff, wire, started, nchunks, pingsSent, pongsOwed>>

\* the session's pong_timeout_future fires
PongDeadline ==
  /\ phase = "Data" /\ wpong /\ now >= lastPing + Timeout
  /\ phase' = "Closed"
  /\ Log([a |-> "pongdeadline"])
  /\ UNCHANGED <<now, lastAct, lastPing, wpong, inbound, egress, woff, wire, started, tickDone, nchunks, pingsSent, pongsOwed>>

\* the interval timer fires (every Ivl units): engine.on_tick(now)
Tick ==
  /\ phase = "Data" /\ ~tickDone
  /\ tickDone' = TRUE
  /\ IF V2 THEN UNCHANGED <<phase, wpong, lastPing, egress, pingsSent>>
     ELSE IF wpong /\ now - lastPing >= Timeout
       THEN phase' = "Closed" /\ UNCHANGED <<wpong, lastPing, egress, pingsSent>>
     ELSE IF ~wpong /\ now - lastAct >= Ivl
       THEN /\ wpong' = TRUE /\ lastPing' = now
            /\ egress' = PushPrio(egress, woff, [id |-> <<"ping", "-">>, len |-> 1, prio |-> TRUE])
            /\ pingsSent' = Append(pingsSent, now)
            /\ UNCHANGED phase
     ELSE UNCHANGED <<phase, wpong, lastPing, egress, pingsSent>>
  /\ Log([a |-> "tick", ping |-> (~V2 /\ ~wpong /\ now - lastAct >= Ivl /\ ~(wpong /\ now - lastPing >= Timeout)),
          closed |-> (~V2 /\ wpong /\ now - lastPing >= Timeout)])
  /\ UNCHANGED <<now, lastAct, inbound, woff, wire, started, nchunks, pongsOwed>>

\* an inbound frame: "data", "pong", or "ping" with a context.  Any inbound frame is activity
\* and proves the peer alive (it clears a pending PONG wait, as libzmq does).
Recv(kind, ctx) ==
  /\ phase = "Data" /\ inbound < MaxRecv
  /\ ~(V2 /\ kind # "data")
  /\ lastAct' = now
  /\ wpong' = FALSE
  /\ IF kind = "ping"
       THEN /\ egress' = PushPrio(egress, woff, [id |-> <<"pong", ctx>>, len |-> 1, prio |-> TRUE])
            /\ pongsOwed' = Append(pongsOwed, ctx)
       ELSE UNCHANGED <<egress, pongsOwed>>
  /\ inbound' = inbound + 1
  /\ Log([a |-> "recv", kind |-> kind, ctx |-> ctx])
  /\ UNCHANGED <<now, phase, lastPing, woff, wire, started, tickDone, nchunks, pingsSent>>

\* the application queues a data chunk (a framed batch) of len 2
QueueData ==
  /\ phase = "Data" /\ nchunks < MaxChunks
  /\ egress' = Append(egress, [id |-> <<"d", ToString(nchunks + 1)>>, len |-> 2, prio |-> FALSE])
  /\ nchunks' = nchunks + 1
  /\ Log([a |-> "queue", id |-> ToString(nchunks + 1)])
  /\ UNCHANGED <<now, phase, lastAct, lastPing, wpong, inbound, woff, wire, started, tickDone, pingsSent, pongsOwed>>

\* the socket accepts n bytes (partial writes): egress_buffer.rs advance(1)
Write ==
  /\ phase = "Data" /\ egress # <<>>
  /\ LET h == egress[1] IN
       /\ started' = IF woff = 0 THEN Append(started, h.id) ELSE started
       /\ IF woff + 1 = h.len
            THEN egress' = Tail(egress) /\ woff' = 0 /\ wire' = Append(wire, h.id)
            ELSE woff' = woff + 1 /\ UNCHANGED <<egress, wire>>
  /\ Log([a |-> "write"])
  /\ UNCHANGED <<now, phase, lastAct, lastPing, wpong, inbound, tickDone, nchunks, pingsSent, pongsOwed>>

Next == Advance \/ PongDeadline \/ Tick \/ QueueData \/ Write
        \/ \E k \in {"data", "pong"} : Recv(k, "-")
        \/ \E c \in Ctxs : Recv("ping", c)

Spec == Init /\ [][Next]_vars

---------------------------------------------------------------------------
\* C19: a PING goes out no sooner than Ivl and (ticks being Ivl apart) before 2*Ivl after the last activity
PingWindow == \A i \in 1..Len(pingsSent) : pingsSent[i] >= Ivl
PingNoEarlier == wpong => lastPing - lastAct >= 0
\* a PING is only sent when the connection has been idle for a full interval
PingAfterIdle == [][(Len(pingsSent') > Len(pingsSent)) => (now - lastAct >= Ivl)]_vars
\* no PING is overdue: at a tick, idle >= Ivl and not waiting implies a PING is sent by that tick
\* (so the PING follows the last activity by less than 2*Ivl)
NotOverdue == (phase = "Data" /\ ~V2 /\ ~wpong) => (now - lastAct < 2 * Ivl)
\* C19: closed by heartbeat logic only when a PING went unanswered AND nothing at all arrived for Timeout
ClosedOnlyWhenDead == phase = "Closed" => (wpong /\ now - lastPing >= Timeout /\ lastAct <= lastPing)
\* C19: a dead peer is detected: the wait never outlives the deadline
DeadDetected == (phase = "Data" /\ wpong) => now <= lastPing + Timeout
\* C19: no heartbeat on ZMTP/2.0
NoHbOnV2 == V2 => (pingsSent = <<>> /\ pongsOwed = <<>>)
\* C19: control frames jump the queue but never land inside a chunk that is being written
WholeChunks == \A i \in 1..Len(wire) : wire[i] = started[i]
DataFifo == LET d == SelectSeq(wire, LAMBDA x : x[1] = "d") IN \A i \in 1..Len(d) : d[i] = <<"d", ToString(i)>>
\* every PONG that goes out echoes the context of a PING that came in, once per PING
\* (several PINGs received back to back are answered last-in first-out: each jumps the queue)
Count(seq, x) == Cardinality({ i \in 1..Len(seq) : seq[i] = x })
PongEcho == LET p == SelectSeq(wire, LAMBDA x : x[1] = "pong") IN
              \A i \in 1..Len(p) : Count(p, p[i]) <= Count(pongsOwed, p[i][2])

Terminal == phase = "Closed" \/ now = MaxTime
=============================================================================
