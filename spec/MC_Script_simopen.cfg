CONSTANTS
  Cfgs <- Open
  Depth = 8
  MaxPending = 4
  AllowCuts = TRUE
  Grammar <- Attack
INIT Init
NEXT Next
CHECK_DEADLOCK FALSE
INVARIANTS NoDataBeforeHc Export
