CONSTANTS
  Socks = {"A", "B", "C"}
  Names = {"n1"}
  Type <- TypeOf
  Compatible <- Compat
  MaxConnects = 2
  Deaf = {"C"}
SPECIFICATION Spec
INVARIANTS RegistrySound NamesFree OnlyCompatible OkMeansAccepted AnsweredOnce
PROPERTIES ConnectReturns NoHalfOpenForever
CHECK_DEADLOCK FALSE
