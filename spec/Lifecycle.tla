------------------------------ MODULE Lifecycle ------------------------------
(***************************************************************************)
(* close() and term(): one context, a few sockets, their child actors and   *)
(* the application tasks that may be blocked in send()/recv() (C16).        *)
(*                                                                         *)
(* Actors (context.rs, command_loop.rs, transport/tcp.rs, sessionx/actor.rs)*)
(*   core[s]      the socket's command loop: Running -> Lingering ->        *)
(*                Finished (unregisters names, leaves the wait group)       *)
(*   lis[s]       a listener: holds the port / ipc path                     *)
(*   con[s]       a connecter retrying an unreachable peer                  *)
(*   ses[s]       a session: Hs (handshake) -> Wp (waiting for the core to  *)
(*                attach its pipes) -> Op -> gone                           *)
(* Every live actor is counted by the context's WaitGroup (`wg`); term()    *)
(* publishes ContextTerminating on the event bus and waits for wg = 0       *)
(* (WaitGroup::wait: arm the notification, check the count, sleep).         *)
(* close() publishes SocketClosing for its socket and starts the core's     *)
(* shutdown (stop flag, pattern Stop releases blocked calls, listeners are  *)
(* stopped, linger, Stop to sessions, Finished).                            *)
(*                                                                         *)
(* Bus and mailbox deliveries are separate steps, so every order in which   *)
(* the actors learn about the shutdown is explored; what the *peer* does    *)
(* (answer the handshake, send a message) is not under any fairness.        *)
(*                                                                         *)
(* Switches for the pinned revision (TLC must find the violation):          *)
(*   HandshakeDeaf    a session in the handshake reads neither bus nor box  *)
(*   CheckThenWait    WaitGroup::wait checks the count before arming        *)
(*   LateBlind        a session spawned after the event was published does  *)
(*                    not look at the socket's / context's shutdown flag    *)
(***************************************************************************)
EXTENDS Integers, Sequences, FiniteSets, TLC

CONSTANTS Socks, Tasks,
          HandshakeDeaf, CheckThenWait, LateBlind

VARIABLES core,        \* [s -> "Running" | "Lingering" | "Finished" | "Exited"]
          lis, con, ses, \* [s -> child state]
          evt,         \* [actor -> set of bus events not yet read]   actor = <<kind, s>>
          box,         \* [actor -> BOOLEAN]  a Stop command in the mailbox
          bound,       \* [s -> BOOLEAN]  port / path / inproc name held
          blocked,     \* [t -> "none" | <<s, op>>]
          results,     \* set of <<s, corestate-at-call, outcome>> for calls made
          wg,          \* WaitGroup counter
          term,        \* "no" | "armed" | "checked" | "sleeping" | "done"   (+ "unarmed" as-is)
          notified     \* a notification is stored for the waiter

vars == <<core, lis, con, ses, evt, box, bound, blocked, results, wg, term, notified>>

Kinds  == {"core", "lis", "con", "ses"}
Actors == Kinds \X Socks
A(k, s) == <<k, s>>

Init == /\ core = [s \in Socks |-> "Running"]
        /\ lis = [s \in Socks |-> "none"] /\ con = [s \in Socks |-> "none"] /\ ses = [s \in Socks |-> "none"]
        /\ evt = [a \in Actors |-> {}] /\ box = [a \in Actors |-> FALSE]
        /\ bound = [s \in Socks |-> FALSE]
        /\ blocked = [t \in Tasks |-> "none"]
        /\ results = {}
        /\ wg = Cardinality(Socks)            \* every socket core is an actor
        /\ term = "no" /\ notified = FALSE

Live(s) == (IF core[s] # "Exited" THEN 1 ELSE 0) + (IF lis[s] = "up" THEN 1 ELSE 0)
           + (IF con[s] = "up" THEN 1 ELSE 0) + (IF ses[s] \in {"Hs", "Wp", "Op"} THEN 1 ELSE 0)
RECURSIVE SumLive(_)
SumLive(S) == IF S = {} THEN 0 ELSE LET s == CHOOSE x \in S : TRUE IN Live(s) + SumLive(S \ {s})

\* WaitGroup::done: the last one out wakes the waiter (notify_waiters / stored permit once armed)
Done == /\ wg' = wg - 1
        /\ notified' = (notified \/ (wg = 1 /\ term \in {"armed", "checked", "sleeping"}))

\* ---- application: set-up --------------------------------------------------
Bind(s) == /\ core[s] = "Running" /\ lis[s] = "none" /\ term = "no"
           /\ lis' = [lis EXCEPT ![s] = "up"] /\ bound' = [bound EXCEPT ![s] = TRUE] /\ wg' = wg + 1
           /\ UNCHANGED <<core, con, ses, evt, box, blocked, results, term, notified>>

Connect(s) == /\ core[s] = "Running" /\ con[s] = "none" /\ ses[s] = "none" /\ term = "no"
              /\ con' = [con EXCEPT ![s] = "up"] /\ wg' = wg + 1
              /\ UNCHANGED <<core, lis, ses, evt, box, bound, blocked, results, term, notified>>

\* the peer becomes reachable: the connecter hands over to a session and leaves
\* (spawn first, then done: the counter never dips)
Connected(s) == /\ con[s] = "up" /\ core[s] = "Running" /\ ses[s] = "none"
                /\ con' = [con EXCEPT ![s] = "gone"] /\ ses' = [ses EXCEPT ![s] = "Hs"]
                /\ UNCHANGED <<core, lis, evt, box, bound, blocked, results, wg, term, notified>>

\* a peer connects to the listener - possibly while the socket is already closing: the accept loop
\* runs until the listener actor stops.  The new session subscribes to the bus now: whatever was
\* published before is not in its queue.
Accepted(s) == /\ lis[s] = "up" /\ ses[s] = "none"
               /\ ses' = [ses EXCEPT ![s] = "Hs"] /\ wg' = wg + 1
               /\ evt' = [evt EXCEPT ![A("ses", s)] = {}]
               /\ UNCHANGED <<core, lis, con, box, bound, blocked, results, term, notified>>

\* the peer answers the handshake (environment: never assumed to happen)
HandshakeDone(s) == /\ ses[s] = "Hs" /\ ses' = [ses EXCEPT ![s] = "Wp"]
                    /\ UNCHANGED <<core, lis, con, evt, box, bound, blocked, results, wg, term, notified>>

\* the running core registers the connection and hands the session its pipes (ScaInitializePipes)
Attach(s) == /\ ses[s] = "Wp" /\ core[s] = "Running" /\ ses' = [ses EXCEPT ![s] = "Op"]
             /\ UNCHANGED <<core, lis, con, evt, box, bound, blocked, results, wg, term, notified>>

\* ---- application: calls ---------------------------------------------------
\* user operations test is_running() first; otherwise they may have to wait for the peer
Call(t, s) == /\ blocked[t] = "none"
              /\ IF core[s] # "Running"
                   THEN results' = results \cup {<<s, "stopped", "err">>} /\ UNCHANGED blocked
                   ELSE \/ blocked' = [blocked EXCEPT ![t] = s] /\ UNCHANGED results
                        \/ results' = results \cup {<<s, "running", "ok">>} /\ UNCHANGED blocked
              /\ UNCHANGED <<core, lis, con, ses, evt, box, bound, wg, term, notified>>

\* the peer lets a blocked call complete (environment)
Unblock(t) == /\ blocked[t] # "none" /\ core[blocked[t]] = "Running" /\ ses[blocked[t]] = "Op"
              /\ blocked' = [blocked EXCEPT ![t] = "none"]
              /\ results' = results \cup {<<blocked[t], "running", "ok">>}
              /\ UNCHANGED <<core, lis, con, ses, evt, box, bound, wg, term, notified>>

\* ---- shutdown of one socket ---------------------------------------------------
\* initiate_core_shutdown: flag off, pattern Stop (queues closed: blocked calls fail), listeners stopped
StartShutdown(s) ==
  /\ core' = [core EXCEPT ![s] = "Lingering"]
  /\ blocked' = [t \in Tasks |-> IF blocked[t] = s THEN "none" ELSE blocked[t]]
  /\ results' = results \cup {<<s, "released", "err">> : t \in {u \in Tasks : blocked[u] = s}}
  /\ box' = [box EXCEPT ![A("lis", s)] = (lis[s] = "up")]

Close(s) == /\ core[s] = "Running"
            /\ evt' = [a \in Actors |-> IF a[2] = s /\ a[1] # "core" THEN evt[a] \cup {"closing"} ELSE evt[a]]
            /\ StartShutdown(s)
            /\ UNCHANGED <<lis, con, ses, bound, wg, term, notified>>

\* the core reads ContextTerminating from the bus
CoreOnTerm(s) == /\ "term" \in evt[A("core", s)]
                 /\ evt' = [evt EXCEPT ![A("core", s)] = @ \ {"term"}]
                 /\ IF core[s] = "Running" THEN StartShutdown(s) ELSE UNCHANGED <<core, blocked, results, box>>
                 /\ UNCHANGED <<lis, con, ses, bound, wg, term, notified>>

\* linger over: Stop to the session, pipes dropped
CoreLingerDone(s) == /\ core[s] = "Lingering"
                     /\ core' = [core EXCEPT ![s] = "Finished"]
                     /\ box' = [box EXCEPT ![A("ses", s)] = (ses[s] \in {"Hs", "Wp", "Op"})]
                     /\ UNCHANGED <<lis, con, ses, evt, bound, blocked, results, wg, term, notified>>

\* the command loop ends: names unregistered, ActorDropGuard leaves the wait group
CoreExit(s) == /\ core[s] = "Finished"
               /\ core' = [core EXCEPT ![s] = "Exited"]
               /\ bound' = [bound EXCEPT ![s] = (lis[s] = "up")]     \* the port lives as long as the listener
               /\ Done
               /\ UNCHANGED <<lis, con, ses, evt, box, blocked, results, term>>

\* ---- children ------------------------------------------------------------------
ListenerStop(s) == /\ lis[s] = "up"
                   /\ box[A("lis", s)] \/ evt[A("lis", s)] # {}
                   /\ lis' = [lis EXCEPT ![s] = "gone"]
                   /\ bound' = [bound EXCEPT ![s] = FALSE]
                   /\ Done
                   /\ UNCHANGED <<core, con, ses, evt, box, blocked, results, term>>

ConnecterStop(s) == /\ con[s] = "up" /\ evt[A("con", s)] # {}
                    /\ con' = [con EXCEPT ![s] = "gone"]
                    /\ Done
                    /\ UNCHANGED <<core, lis, ses, evt, box, bound, blocked, results, term>>

\* the session reads the bus (always) and its mailbox (not during the handshake)
SessionStop(s) == /\ ses[s] \in {"Hs", "Wp", "Op"}
                  /\ \/ evt[A("ses", s)] # {} /\ ~(HandshakeDeaf /\ ses[s] = "Hs") /\ ses[s] # "Wp"
                     \/ box[A("ses", s)] /\ ses[s] \in {"Wp", "Op"}
                     \* waiting for pipes, only the mailbox is read: it closes when the core is gone
                     \/ ses[s] = "Wp" /\ core[s] = "Exited"
                     \* the handshake loop looks at the running flag of its socket and of the context
                     \/ ses[s] = "Hs" /\ ~LateBlind /\ ~HandshakeDeaf /\ (core[s] # "Running" \/ term # "no")
                  /\ ses' = [ses EXCEPT ![s] = "gone"]
                  /\ Done
                  /\ UNCHANGED <<core, lis, con, evt, box, bound, blocked, results, term>>

\* ---- term() ----------------------------------------------------------------------
\* shutdown(): publish ContextTerminating to every subscriber, then WaitGroup::wait
TermCall == /\ term = "no"
            /\ evt' = [a \in Actors |-> evt[a] \cup {"term"}]
            /\ term' = IF CheckThenWait THEN "unarmed" ELSE "armed"
            /\ UNCHANGED <<core, lis, con, ses, box, bound, blocked, results, wg, notified>>

\* as-is: the count is read before the notification is armed
WgCheckUnarmed == /\ term = "unarmed"
                  /\ term' = IF wg = 0 THEN "done" ELSE "unarmedchecked"
                  /\ UNCHANGED <<core, lis, con, ses, evt, box, bound, blocked, results, wg, notified>>
WgArmLate == /\ term = "unarmedchecked" /\ term' = "sleeping" /\ notified' = FALSE
             /\ UNCHANGED <<core, lis, con, ses, evt, box, bound, blocked, results, wg>>

WgCheck == /\ term = "armed"
           /\ term' = IF wg = 0 THEN "done" ELSE "sleeping"
           /\ UNCHANGED <<core, lis, con, ses, evt, box, bound, blocked, results, wg, notified>>

WgWake == /\ term = "sleeping" /\ notified
          /\ notified' = FALSE
          /\ term' = IF wg = 0 THEN "done" ELSE IF CheckThenWait THEN "unarmedchecked" ELSE "sleeping"
          /\ UNCHANGED <<core, lis, con, ses, evt, box, bound, blocked, results, wg>>

Env == \/ \E s \in Socks : Bind(s) \/ Connect(s) \/ Connected(s) \/ Accepted(s) \/ HandshakeDone(s) \/ Close(s)
       \/ \E t \in Tasks, s \in Socks : Call(t, s)
       \/ \E t \in Tasks : Unblock(t)
       \/ TermCall

Sys == \/ \E s \in Socks : Attach(s) \/ CoreOnTerm(s) \/ CoreLingerDone(s) \/ CoreExit(s) \/ ListenerStop(s) \/ ConnecterStop(s) \/ SessionStop(s)
       \/ WgCheckUnarmed \/ WgArmLate \/ WgCheck \/ WgWake

Next == Env \/ Sys

\* every actor and the waiter keep running; the environment owes nothing
Fair == /\ \A s \in Socks : /\ WF_vars(Attach(s)) /\ WF_vars(CoreOnTerm(s)) /\ WF_vars(CoreLingerDone(s)) /\ WF_vars(CoreExit(s))
                            /\ WF_vars(ListenerStop(s)) /\ WF_vars(ConnecterStop(s)) /\ WF_vars(SessionStop(s))
        /\ WF_vars(WgCheckUnarmed) /\ WF_vars(WgArmLate) /\ WF_vars(WgCheck) /\ WF_vars(WgWake)

Spec == Init /\ [][Next]_vars /\ Fair

---------------------------------------------------------------------------
\* the wait group counts exactly the actors that are alive
WgExact == wg = SumLive(Socks)

\* an operation on a socket that is not running fails; it never blocks
AfterCloseErr == \A r \in results : r[2] = "stopped" => r[3] = "err"
NoBlockedOnStopped == \A t \in Tasks : blocked[t] # "none" => core[blocked[t]] = "Running"

\* once the socket's actors are gone its names are free
NamesFree == \A s \in Socks : (core[s] = "Exited" /\ lis[s] # "up") => ~bound[s]

\* term() only returns when nothing is left
TermMeansAllGone == term = "done" => wg = 0

\* term() returns, and everything it waited for is gone - without help from any peer
Terminates == (term # "no") ~> (term = "done")
\* close() of a socket gets all of that socket's actors to stop
CloseCleans == \A s \in Socks : (core[s] # "Running") ~> (Live(s) = 0)
=============================================================================
