\* exhaustive with MAXMSGSIZE = 256: lengths at limit-1, limit, limit+1
CONSTANTS
  Lens = {0, 255, 256, 257, 300}
  MaxFrames = 2
  MaxMsg = 256
INIT Init
NEXT Next
VIEW view
CHECK_DEADLOCK FALSE
INVARIANTS TypeOK RoundTrip AllDecodedAtEnd LimitExact AccBound
