------------------------------ MODULE Balancer ------------------------------
(***************************************************************************)
(* PUSH / DEALER send-side load balancing                                  *)
(* (core/src/socket/patterns/load_balancer.rs, outgoing_orchestrator.rs).   *)
(* A list of peers and a cursor; a send sweeps the peers from the cursor    *)
(* with a non-blocking try and takes the first whose pipe has room, the     *)
(* cursor moving past every peer it looked at.  Peers come and go;          *)
(* a sender that finds no peer at all waits for one (wait_for_connection:   *)
(* check under the lock, then wait on a tokio Notify).                      *)
(***************************************************************************)
EXTENDS Integers, Sequences, FiniteSets, TLC

CONSTANTS PeerIds,      \* possible peers
          MaxOps,       \* environment + send operations in one history
          Waiters       \* tasks that may call wait_for_connection

VARIABLES peers,        \* sequence of peer ids (insertion order)
          idx,          \* cursor (next_idx)
          full,         \* peer id -> its pipe is full right now (environment)
          got,          \* peer id -> number of messages it accepted
          wpc,          \* waiter -> "idle" | "checked" | "waiting" | "done"
          registered,   \* waiters whose Notified future exists (will be woken by notify_waiters)
          nops, hist

vars == <<peers, idx, full, got, wpc, registered, nops, hist>>
view == <<peers, idx, full, got, wpc, registered, nops>>

Init == /\ peers = <<>> /\ idx = 0 /\ full = [p \in PeerIds |-> FALSE] /\ got = [p \in PeerIds |-> 0]
        /\ wpc = [w \in Waiters |-> "idle"] /\ registered = {} /\ nops = 0 /\ hist = <<>>

InList(p) == \E i \in 1..Len(peers) : peers[i] = p
Pos(p) == CHOOSE i \in 1..Len(peers) : peers[i] = p

\* add_connection: append, notify_waiters() wakes every *registered* waiter
Add(p) ==
  /\ nops < MaxOps /\ ~InList(p)
  /\ peers' = Append(peers, p)
  /\ wpc' = [w \in Waiters |-> IF w \in registered THEN "done" ELSE wpc[w]]
  /\ registered' = {}
  /\ nops' = nops + 1
  /\ hist' = Append(hist, [op |-> "add", p |-> p])
  /\ UNCHANGED <<idx, full, got>>

\* remove_connection with the cursor repair
Remove(p) ==
  /\ nops < MaxOps /\ InList(p)
  /\ LET pos == Pos(p) - 1                       \* 0-based
         np == SelectSeq(peers, LAMBDA x : x # p)
     IN /\ peers' = np
        /\ idx' = IF pos < idx /\ idx > 0 THEN idx - 1 ELSE IF idx >= Len(np) THEN 0 ELSE idx
  /\ nops' = nops + 1
  /\ hist' = Append(hist, [op |-> "remove", p |-> p])
  /\ UNCHANGED <<full, got, wpc, registered>>

SetFull(p, f) ==
  /\ nops < MaxOps /\ InList(p) /\ full[p] # f
  /\ full' = [full EXCEPT ![p] = f]
  /\ nops' = nops + 1
  /\ hist' = Append(hist, [op |-> "full", p |-> p, f |-> f])
  /\ UNCHANGED <<peers, idx, got, wpc, registered>>

\* try_route_sync / the sweep of route_message: up to Len(peers) non-blocking attempts
RECURSIVE Sweep(_, _)
Sweep(i, k) ==      \* i: 0-based cursor, k: attempts left -> <<chosen or "none", new cursor>>
  IF k = 0 THEN <<"none", i>>
  ELSE LET j == IF i >= Len(peers) THEN 0 ELSE i
           p == peers[j + 1]
           nxt == (j + 1) % Len(peers)
       IN IF ~full[p] THEN <<p, nxt>> ELSE Sweep(nxt, k - 1)

\* kind "sync": try_route_sync - exactly Len(peers) non-blocking attempts.
\* kind "async": route_message(.., wait_for_peer = FALSE) - the same sweep, and when every peer was
\* full it takes the next peer in rotation for a blocking send (which a full scripted peer refuses)
Route(kind) ==
  /\ nops < MaxOps /\ peers # <<>>
  /\ LET r == Sweep(idx, Len(peers))
         r2 == IF kind = "async" /\ r[1] = "none" THEN Sweep(r[2], 1) ELSE r
     IN
       /\ idx' = r2[2]
       /\ got' = IF r2[1] = "none" THEN got ELSE [got EXCEPT ![r2[1]] = @ + 1]
       /\ hist' = Append(hist, [op |-> "route", kind |-> kind, to |-> r2[1]])
  /\ nops' = nops + 1
  /\ UNCHANGED <<peers, full, wpc, registered>>

\* wait_for_connection: the Notified future is created (registered) BEFORE the emptiness check,
\* so an add_connection between check and await cannot be missed
WaitRegister(w) ==
  /\ wpc[w] = "idle"
  /\ registered' = registered \cup {w}
  /\ wpc' = [wpc EXCEPT ![w] = "checked"]
  /\ hist' = Append(hist, [op |-> "wait.register", w |-> w])
  /\ UNCHANGED <<peers, idx, full, got, nops>>
WaitCheck(w) ==
  /\ wpc[w] = "checked"
  /\ IF peers # <<>> THEN wpc' = [wpc EXCEPT ![w] = "done"] /\ registered' = registered \ {w}
     ELSE wpc' = [wpc EXCEPT ![w] = "waiting"] /\ UNCHANGED registered
  /\ hist' = Append(hist, [op |-> "wait.check", w |-> w])
  /\ UNCHANGED <<peers, idx, full, got, nops>>

Next == \/ \E p \in PeerIds : Add(p) \/ Remove(p) \/ \E f \in BOOLEAN : SetFull(p, f)
        \/ \E k \in {"sync", "async"} : Route(k)
        \/ \E w \in Waiters : WaitRegister(w) \/ WaitCheck(w)
Spec == Init /\ [][Next]_vars /\ \A w \in Waiters : WF_vars(WaitRegister(w) \/ WaitCheck(w))

---------------------------------------------------------------------------
\* C13: a message goes to exactly one peer, never a full one, and only "none" if all are full
LastRoute == hist[Len(hist)]
RouteOk == (hist # <<>> /\ LastRoute.op = "route") =>
   IF LastRoute.to = "none" THEN \A i \in 1..Len(peers) : full[peers[i]]
   ELSE InList(LastRoute.to) /\ ~full[LastRoute.to]
CursorInRange == idx >= 0 /\ (peers = <<>> \/ idx <= Len(peers))
\* C13: a sender waiting for its first peer proceeds once one has connected - no waiter sleeps
\* while the peer list is non-empty
WaiterWakes == \A w \in Waiters : ~(wpc[w] = "waiting" /\ peers # <<>>)
\* a waiting task is always registered with the Notify (otherwise nothing would ever wake it)
WaitingIsRegistered == \A w \in Waiters : wpc[w] = "waiting" => w \in registered

Terminal == nops = MaxOps
=============================================================================
