------------------------------- MODULE Inproc -------------------------------
(***************************************************************************)
(* The inproc transport: names in the context's registry, connect() as a    *)
(* request over the context's event bus, the binder's answer over a one-    *)
(* shot channel, both halves of the connection attached by their own        *)
(* sockets, and sockets closing at any moment.                              *)
(*                                                                         *)
(* Transcribed from transport/inproc/mod.rs (bind_inproc, connect_inproc),  *)
(* socket/core/pipe_manager.rs (process_inproc_binding_request_event),      *)
(* context.rs (register / lookup / unregister) and command_loop.rs (the     *)
(* names of a socket are unregistered after its loop has ended).            *)
(*                                                                         *)
(* The request travels in a broadcast slot: it exists until every           *)
(* subscriber that was subscribed when it was published has read it (or     *)
(* has gone).  The one-shot reply sender lives inside the request, so a     *)
(* request nobody answers is noticed by the connector only when the slot    *)
(* is released - that is what makes connect() return when the binder is     *)
(* closing, and it is why every live subscriber must keep reading the bus.  *)
(***************************************************************************)
EXTENDS Integers, FiniteSets, TLC

CONSTANTS Socks,          \* sockets of one context
          Names,          \* inproc names
          Type,           \* [Socks -> socket type]
          Compatible,     \* set of <<connector type, binder type>> pairs (inproc/handshake.rs)
          MaxConnects,
          Deaf            \* subscribers that hold their bus receiver without reading it (as-is switch: the
                          \* pinned revision's handshaking sessions; {} on the repaired tree)

VARIABLES reg,       \* [Names -> Socks \cup {"-"}]           the context's registry
          phase,     \* [Socks -> "running" | "closing" | "ended" | "closed"]
          bound,     \* [Socks -> SUBSET Names]               names a socket has registered
          req,       \* set of requests in flight: [id, name, from, unread (subscribers still to read it), taken]
          reply,     \* [ids -> "none" | "ok" | "refused" | "dropped"]
          call,      \* [ids -> "lookup" | "waiting" | "done"]  connect() calls
          result,    \* [ids -> "-" | "ok" | "refused" | "gone" | "corefailed"]
          half,      \* set of <<socket, id, role>>: the connection halves attached at a socket
          who,       \* [ids -> the socket that called connect()]
          typ,       \* [ids -> <<connector type, binder type>> of an accepted request]
          nconn
vars == <<reg, phase, bound, req, reply, call, result, half, who, typ, nconn>>

Ids == 1..MaxConnects
Live(s) == phase[s] \in {"running", "closing"}       \* its command loop still reads the bus

Init == /\ reg = [n \in Names |-> "-"] /\ phase = [s \in Socks |-> "running"] /\ bound = [s \in Socks |-> {}]
        /\ req = {} /\ reply = [i \in Ids |-> "none"] /\ call = [i \in Ids |-> "done"] /\ result = [i \in Ids |-> "-"]
        /\ half = {} /\ who = [i \in Ids |-> "-"] /\ typ = [i \in Ids |-> <<>>] /\ nconn = 0

\* bind(): AddrInUse when the name is taken
Bind(s, n) == /\ phase[s] = "running" /\ reg[n] = "-"
              /\ reg' = [reg EXCEPT ![n] = s] /\ bound' = [bound EXCEPT ![s] = @ \cup {n}]
              /\ UNCHANGED <<phase, req, reply, call, result, half, who, typ, nconn>>

\* connect(): look the name up; not there -> refused at once; else publish the request
ConnectStart(c, n) ==
  /\ phase[c] = "running" /\ nconn < MaxConnects
  /\ LET i == nconn + 1 IN
     /\ nconn' = i /\ who' = [who EXCEPT ![i] = c]
     /\ IF reg[n] = "-"
          THEN /\ call' = [call EXCEPT ![i] = "done"] /\ result' = [result EXCEPT ![i] = "refused"]
               /\ UNCHANGED req
          ELSE /\ call' = [call EXCEPT ![i] = "waiting"] /\ UNCHANGED result
               /\ req' = req \cup {[id |-> i, name |-> n, from |-> c, unread |-> {s \in Socks : Live(s)}, taken |-> FALSE]}
  /\ UNCHANGED <<reg, phase, bound, reply, half, typ>>

\* a subscriber reads the slot.  The running socket that has bound the name takes the request and
\* answers; everybody else just lets go of it.
Reads(s, r) ==
  /\ r \in req /\ s \in r.unread /\ Live(s) /\ s \notin Deaf
  /\ LET mine == phase[s] = "running" /\ r.name \in bound[s] /\ ~r.taken
         r2 == [r EXCEPT !.unread = @ \ {s}, !.taken = r.taken \/ mine] IN
     /\ req' = (req \ {r}) \cup {r2}
     /\ IF mine
          THEN IF <<Type[r.from], Type[s]>> \in Compatible
                 THEN /\ reply' = [reply EXCEPT ![r.id] = "ok"]
                      /\ half' = half \cup {<<s, r.id, "binder">>}
                      /\ typ' = [typ EXCEPT ![r.id] = <<Type[r.from], Type[s]>>]
                 ELSE /\ reply' = [reply EXCEPT ![r.id] = "refused"] /\ UNCHANGED <<half, typ>>
          ELSE UNCHANGED <<reply, half, typ>>
  /\ UNCHANGED <<reg, phase, bound, call, result, who, nconn>>

\* the slot is released when nobody is left to read it: an untaken request drops its reply sender
Release(r) ==
  /\ r \in req /\ r.unread = {}
  /\ req' = req \ {r}
  /\ reply' = IF ~r.taken /\ reply[r.id] = "none" THEN [reply EXCEPT ![r.id] = "dropped"] ELSE reply
  /\ UNCHANGED <<reg, phase, bound, call, result, half, who, typ, nconn>>

\* the connector's task sees the reply
ConnectFinish(i) ==
  /\ call[i] = "waiting" /\ reply[i] # "none"
  /\ call' = [call EXCEPT ![i] = "done"]
  /\ LET c == who[i] IN
     CASE reply[i] = "ok" ->
            IF Live(c)
              THEN /\ half' = half \cup {<<c, i, "connector">>} /\ result' = [result EXCEPT ![i] = "ok"]
              ELSE /\ result' = [result EXCEPT ![i] = "corefailed"] /\ UNCHANGED half
       [] reply[i] = "refused" -> result' = [result EXCEPT ![i] = "refused"] /\ UNCHANGED half
       [] OTHER -> result' = [result EXCEPT ![i] = "gone"] /\ UNCHANGED half
  /\ UNCHANGED <<reg, phase, bound, req, reply, who, typ, nconn>>

\* close(): the loop winds down, stops reading the bus, then the names are unregistered
Close(s) == /\ phase[s] = "running" /\ phase' = [phase EXCEPT ![s] = "closing"]
            /\ UNCHANGED <<reg, bound, req, reply, call, result, half, who, typ, nconn>>
LoopEnds(s) == /\ phase[s] = "closing" /\ phase' = [phase EXCEPT ![s] = "ended"]
               \* its bus receiver is dropped: it no longer holds any slot
               /\ req' = {[r EXCEPT !.unread = @ \ {s}] : r \in req}
               \* its halves go; the peers' halves are told through the closed channel
               /\ half' = {h \in half : h[1] # s}
               /\ UNCHANGED <<reg, bound, reply, call, result, who, typ, nconn>>
Unregister(s) == /\ phase[s] = "ended"
                 /\ reg' = [n \in Names |-> IF reg[n] = s THEN "-" ELSE reg[n]]
                 /\ bound' = [bound EXCEPT ![s] = {}] /\ phase' = [phase EXCEPT ![s] = "closed"]
                 /\ UNCHANGED <<req, reply, call, result, half, who, typ, nconn>>
\* a half whose other half is gone (or never came) is detached when its socket notices the closed channel
PeerGone(h) == /\ h \in half
               /\ ~(\E g \in half : g[2] = h[2] /\ g[3] # h[3])
               /\ call[h[2]] = "done"
               /\ half' = half \ {h}
               /\ UNCHANGED <<reg, phase, bound, req, reply, call, result, who, typ, nconn>>

Next == \/ \E s \in Socks, n \in Names : Bind(s, n) \/ ConnectStart(s, n)
        \/ \E s \in Socks, r \in req : Reads(s, r)
        \/ \E r \in req : Release(r)
        \/ \E i \in Ids : ConnectFinish(i)
        \/ \E s \in Socks : Close(s) \/ LoopEnds(s) \/ Unregister(s)
        \/ \E h \in half : PeerGone(h)
Fair == /\ \A s \in Socks : WF_vars(LoopEnds(s)) /\ WF_vars(Unregister(s))
        /\ \A s \in Socks : WF_vars(\E r \in req : Reads(s, r))
        /\ WF_vars(\E r \in req : Release(r))
        /\ \A i \in Ids : WF_vars(ConnectFinish(i))
        /\ WF_vars(\E h \in half : PeerGone(h))
Spec == Init /\ [][Next]_vars /\ Fair

---------------------------------------------------------------------------
\* a name belongs to at most one socket, and to one that has not finished closing
RegistrySound == \A n \in Names : reg[n] # "-" => (n \in bound[reg[n]] /\ phase[reg[n]] # "closed")
\* once a socket is closed its names are free (C16)
NamesFree == \A s \in Socks : phase[s] = "closed" => \A n \in Names : reg[n] # s
\* only compatible pairs are ever connected (C05, inproc table)
OnlyCompatible == \A h \in half : typ[h[2]] \in Compatible
\* connect() reported Ok only for a request the binder accepted
OkMeansAccepted == \A i \in Ids : result[i] = "ok" => reply[i] = "ok"
\* at most one socket answers a request
AnsweredOnce == \A r \in req : r.taken => reply[r.id] \in {"ok", "refused"}
\* every connect() returns (C16: no call hangs), whatever the binder does
ConnectReturns == \A i \in Ids : (call[i] = "waiting") ~> (call[i] = "done")
\* a half without its other half does not stay for ever
NoHalfOpenForever == \A s \in Socks, i \in Ids : (<<s, i, "binder">> \in half) ~>
                        (<<s, i, "binder">> \notin half \/ \E c \in Socks : <<c, i, "connector">> \in half)
=============================================================================
