CONSTANTS
  Bufs = {b1, b2, b3}
  Slots = {s1, s2}
  Fds = {5, 6, 7}
  MaxOps = 12
INIT Init
NEXT Next
CHECK_DEADLOCK FALSE
INVARIANTS PoolConservation NoOrphanBuffers RingFull QuiescentClean
