CONSTANTS
  Slack = 2000
  EarlyTolerance = 2
SPECIFICATION TSpec
CHECK_DEADLOCK FALSE
POSTCONDITION Accepted
