---------------------------- MODULE Trace_Monitor ----------------------------
(***************************************************************************)
(* Event streams read from the monitor channel of real sockets, judged by   *)
(* the observer of Monitor.tla (Step / ObsClean): every event must be one   *)
(* the contract allows in the state the earlier events have led to, and     *)
(* once close() has returned and the channel is drained nothing announced   *)
(* may be left.                                                             *)
(* Records:                                                                 *)
(*   reset  {lis: [..], con: [..], tgt: [..]}   the endpoints of one socket *)
(*   ev     {k, e, c}                            one monitor event          *)
(*   closed {}                                   close() returned, drained  *)
(***************************************************************************)
EXTENDS MonitorObs, TLC, Json, IOUtils

VARIABLES l, o
tvars == <<l, o>>
Rec == ndJsonDeserialize(IOEnv.TRACE)
R == Rec[l]
SetOf(s) == {s[i] : i \in 1..Len(s)}

TraceInit == l = 1 /\ o = ObsInit({}, {}, {})

Reset == /\ R.t = "reset" /\ o' = ObsInit(SetOf(R.lis), SetOf(R.con), SetOf(R.tgt))
Event == /\ R.t = "ev"
         /\ LET n == Step(o, [k |-> R.k, e |-> R.e, c |-> R.c]) IN n.ok /\ o' = n
Closed == /\ R.t = "closed" /\ ObsClean(o) /\ o' = o

TraceNext == /\ l <= Len(Rec) /\ l' = l + 1 /\ (Reset \/ Event \/ Closed)
TraceSpec == TraceInit /\ [][TraceNext]_tvars
TraceAccepted == LET d == TLCGet("stats").diameter IN
   \/ d - 1 = Len(Rec)
   \/ PrintT(<<"REJECTED", 1, d - 1, Len(Rec)>>) /\ FALSE
=============================================================================
