------------------------- MODULE MC_SecureChannel -------------------------
EXTENDS SecureChannel, Json
AllSizes == {"s", "m", "edge", "over", "big"}
Big == {"over", "big"}
Export == Terminal => PrintT(<<"REPLAY", ToJson([steps |-> hist])>>)
=============================================================================
