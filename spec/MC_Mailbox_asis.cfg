CONSTANTS
  Callers = {c1, c2}
  KeepQueue = TRUE
SPECIFICATION Spec
INVARIANTS OkMeansServed
PROPERTIES AllReturn
CHECK_DEADLOCK FALSE
