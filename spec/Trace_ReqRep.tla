---------------------------- MODULE Trace_ReqRep ----------------------------
(***************************************************************************)
(* Validates sequential API histories of a real REQ or REP socket against   *)
(* the state machines of ReqRep.tla.  One record per completed call:        *)
(*   {"op": "req.send"|"req.recv"|"rep.recv"|"rep.send", "res": "ok"|"invalid"|"fail"} *)
(* with {"op":"reset"} between histories.  For a single caller a call is    *)
(* the sequence Call . Enter . Check . (ActOk | ActFail) of ReqRep; the      *)
(* composed effect on the two state variables is spelled out below.         *)
(***************************************************************************)
EXTENDS Integers, Sequences, TLC, Json, IOUtils

Rec == ndJsonDeserialize(IOEnv.TRACE)

VARIABLES reqState, repState, pos
tvars == <<reqState, repState, pos>>

TInit == reqState = "Ready" /\ repState = "Ready" /\ pos = 1

CheckOk(op) == CASE op = "req.send" -> reqState = "Ready"
                 [] op = "req.recv" -> reqState = "Expecting"
                 [] op = "rep.recv" -> repState = "Ready"
                 [] op = "rep.send" -> repState = "Received"

Step(op, res) ==
  CASE res = "ok" ->
         /\ CheckOk(op)
         /\ reqState' = (IF op = "req.send" THEN "Expecting" ELSE IF op = "req.recv" THEN "Ready" ELSE reqState)
         /\ repState' = (IF op = "rep.recv" THEN "Received" ELSE IF op = "rep.send" THEN "Ready" ELSE repState)
    [] res = "invalid" ->            \* InvalidState: allowed exactly when the check fails; changes nothing
         /\ ~CheckOk(op) /\ UNCHANGED <<reqState, repState>>
    [] res = "fail" ->               \* timeout / unreachable / cancelled after a passed check
         /\ CheckOk(op)
         /\ reqState' = reqState
         /\ repState' = (IF op = "rep.send" THEN "Ready" ELSE repState)   \* rep.send consumed the request
    [] OTHER -> FALSE

TNext ==
  /\ pos <= Len(Rec) /\ pos' = pos + 1
  /\ IF Rec[pos].op = "reset" THEN reqState' = "Ready" /\ repState' = "Ready"
     ELSE Step(Rec[pos].op, Rec[pos].res)

TSpec == TInit /\ [][TNext]_tvars
Accepted == LET d == TLCGet("stats").diameter IN
   \/ d - 1 = Len(Rec)
   \/ PrintT(<<"REJECTED", 1, d - 1, Len(Rec)>>) /\ FALSE
=============================================================================
