---------------------------- MODULE MC_Session ----------------------------
EXTENDS Session, Json
Export == Terminal => PrintT(<<"REPLAY", ToJson([sizes |-> size, steps |-> hist])>>)
=============================================================================
