------------------------------ MODULE MC_Rpq ------------------------------
EXTENDS Rpq, Json

ScriptsQuick == { <<"send", "send">>, <<"try", "send">>, <<"batch", "send">> }
ScriptsSend  == { <<"send", "send", "send">> }
ScriptsAll   == { <<"send", "send", "send">>, <<"try", "send", "try">>, <<"batch", "send">>, <<"send", "batch">>, <<"try", "try">> }
ModesPop == {"pop"}
ModesAll == {"pop", "trypop"}

Export == Terminal => PrintT(<<"REPLAY", ToJson([pipes |-> Pipes, cons |-> Cons, cap |-> Cap, readycap |-> ReadyCap, batchn |-> BatchN, steps |-> hist])>>)
=============================================================================
