----------------------------- MODULE MC_Peer -----------------------------
EXTENDS Peer, Json

C(srv, st, id, mech, good) == [srv |-> srv, st |-> st, id |-> id, mech |-> mech, good |-> good, allowV2 |-> TRUE]

\* quick: representative socket pairs x mechanisms x credentials, every schedule
QA == { C(FALSE, "PUSH", "", "NULL", TRUE), C(FALSE, "DEALER", "x", "PLAIN", TRUE),
        C(FALSE, "DEALER", "x", "PLAIN", FALSE), C(FALSE, "REQ", "", "ENC", TRUE),
        C(FALSE, "PUB", "", "NULL", TRUE) }
QB == { C(TRUE, "PULL", "", "NULL", TRUE), C(TRUE, "ROUTER", "y", "PLAIN", TRUE),
        C(TRUE, "REP", "", "ENC", TRUE), C(TRUE, "REP", "", "ENC", FALSE) }

\* verdict table: all 11 x 11 socket types over NULL (schedules restricted by the cfg's constants)
AllA == { C(FALSE, st, "", "NULL", TRUE) : st \in SocketTypes }
AllB == { C(TRUE, st, "", "NULL", TRUE) : st \in SocketTypes }

Export == Terminal => PrintT(<<"REPLAY", ToJson([cfgA |-> ea.cfg, cfgB |-> eb.cfg, steps |-> hist])>>)
=============================================================================
