CONSTANTS
  Ivl = 2
  Timeout = 3
  MaxTime = 7
  V2 = TRUE
  Ctxs = {"c0", "c17"}
  MaxChunks = 2
  MaxRecv = 4
INIT Init
NEXT Next
CHECK_DEADLOCK FALSE
INVARIANTS ClosedOnlyWhenDead Export
