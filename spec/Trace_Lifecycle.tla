--------------------------- MODULE Trace_Lifecycle ---------------------------
(***************************************************************************)
(* Recorded API histories of real sockets around close() and term(),        *)
(* checked against the application-visible part of Lifecycle.tla:           *)
(*   AfterCloseErr / NoBlockedOnStopped  - an operation on a socket that is *)
(*        closed fails, promptly; one that was in flight when the socket    *)
(*        (or its context) was shut down returns in bounded time;           *)
(*   Terminates / CloseCleans            - close() and term() return in     *)
(*        bounded time (LINGER + Bound) and never through term()'s          *)
(*        straggler timeout;                                                *)
(*   TermMeansAllGone                    - after term() the context counts  *)
(*        no live actor;                                                    *)
(*   NamesFree                           - the port / path / inproc name    *)
(*        can be bound again.                                               *)
(* Records (one JSON object per line, times in ms):                         *)
(*   reset  {socks: [[name, ctx, linger_ms], ...]}                          *)
(*   call   {task, sock, op, t}            ret {task, sock, op, res, dur, t}*)
(*   term   {ctx, t} / termret {ctx, dur, t}                                *)
(*   live   {ctx, n, t}                    rebind {res, t}                  *)
(*   hung   {task, what}                   panic {what}                     *)
(***************************************************************************)
EXTENDS Integers, Sequences, FiniteSets, TLC, Json, IOUtils

CONSTANTS Bound,     \* ms allowed on top of LINGER for close(), term() and calls in flight
          Prompt     \* ms within which an operation on a closed socket must fail

Rec == ndJsonDeserialize(IOEnv.TRACE)

VARIABLES l,
          socks,     \* name -> [ctx, linger, st ("open" | "closing" | "closed"), since]
          termSt,    \* ctx -> "no" | "called" | "returned"
          termAt,    \* ctx -> time of the term() call
          pend       \* set of [task, sock, op, t, closedAtCall]
vars == <<l, socks, termSt, termAt, pend>>

NoSocks == [x \in {} |-> 0]
TraceInit == l = 1 /\ socks = NoSocks /\ termSt = NoSocks /\ termAt = NoSocks /\ pend = {}

R == Rec[l]
Lingering(s) == IF socks[s].linger > 0 THEN socks[s].linger ELSE 0

Reset ==
  /\ R.e = "reset"
  /\ socks' = [i \in {R.socks[k][1] : k \in 1..Len(R.socks)} |->
                 LET k == CHOOSE j \in 1..Len(R.socks) : R.socks[j][1] = i IN
                 [ctx |-> R.socks[k][2], linger |-> R.socks[k][3], st |-> "open", since |-> 0]]
  /\ termSt' = [c \in {R.socks[k][2] : k \in 1..Len(R.socks)} |-> "no"]
  /\ termAt' = [c \in {R.socks[k][2] : k \in 1..Len(R.socks)} |-> 0]
  /\ pend' = {}

Call ==
  /\ R.e = "call" /\ R.sock \in DOMAIN socks
  /\ pend' = pend \cup {[task |-> R.task, sock |-> R.sock, op |-> R.op, t |-> R.t,
                         closedAtCall |-> (socks[R.sock].st = "closed")]}
  /\ socks' = IF R.op = "close" /\ socks[R.sock].st = "open"
                THEN [socks EXCEPT ![R.sock].st = "closing", ![R.sock].since = R.t] ELSE socks
  /\ UNCHANGED <<termSt, termAt>>

Ret ==
  /\ R.e = "ret" /\ R.sock \in DOMAIN socks
  /\ \E p \in pend :
       /\ p.task = R.task /\ p.sock = R.sock /\ p.op = R.op
       /\ pend' = pend \ {p}
       \* AfterCloseErr: issued on a closed socket -> an error, promptly
       /\ p.closedAtCall => (R.res # "ok" /\ R.dur <= Prompt) \/ R.op = "close"
       \* in flight when the shutdown began -> back within LINGER + Bound of its beginning
       /\ (socks[R.sock].st # "open" /\ ~p.closedAtCall) =>
             R.t <= (IF p.t > socks[R.sock].since THEN p.t ELSE socks[R.sock].since) + Lingering(R.sock) + Bound
       \* close() itself is bounded
       /\ R.op = "close" => R.dur <= Lingering(R.sock) + Bound
  /\ socks' = IF R.op = "close" /\ R.res = "ok"
                THEN [socks EXCEPT ![R.sock].st = "closed"] ELSE socks
  /\ UNCHANGED <<termSt, termAt>>

MaxLinger(c) == LET S == {s \in DOMAIN socks : socks[s].ctx = c} IN
                IF S = {} THEN 0 ELSE LET m == CHOOSE s \in S : \A u \in S : Lingering(u) <= Lingering(s) IN Lingering(m)

TermCall ==
  /\ R.e = "term" /\ R.ctx \in DOMAIN termSt
  /\ termSt' = [termSt EXCEPT ![R.ctx] = "called"] /\ termAt' = [termAt EXCEPT ![R.ctx] = R.t]
  /\ socks' = [s \in DOMAIN socks |-> IF socks[s].ctx = R.ctx /\ socks[s].st = "open"
                                        THEN [socks[s] EXCEPT !.st = "closing", !.since = R.t] ELSE socks[s]]
  /\ UNCHANGED pend

TermRet ==
  /\ R.e = "termret" /\ R.ctx \in DOMAIN termSt
  \* Terminates, and not through the 10 s straggler timeout
  /\ R.dur <= MaxLinger(R.ctx) + Bound
  /\ termSt' = [termSt EXCEPT ![R.ctx] = "returned"]
  /\ socks' = [s \in DOMAIN socks |-> IF socks[s].ctx = R.ctx THEN [socks[s] EXCEPT !.st = "closed"] ELSE socks[s]]
  /\ UNCHANGED <<termAt, pend>>

\* TermMeansAllGone
Live ==
  /\ R.e = "live" /\ R.ctx \in DOMAIN termSt
  /\ termSt[R.ctx] = "returned" => R.n = 0
  /\ UNCHANGED <<socks, termSt, termAt, pend>>

\* NamesFree
Rebind == /\ R.e = "rebind" /\ R.res = "ok" /\ UNCHANGED <<socks, termSt, termAt, pend>>

\* "hung" and "panic" records are never matched
TraceNext == /\ l <= Len(Rec) /\ l' = l + 1
             /\ (Reset \/ Call \/ Ret \/ TermCall \/ TermRet \/ Live \/ Rebind)

TraceSpec == TraceInit /\ [][TraceNext]_vars

TraceAccepted == LET d == TLCGet("stats").diameter IN
   \/ d - 1 = Len(Rec)
   \/ PrintT(<<"REJECTED", 1, d - 1, Len(Rec)>>) /\ FALSE
=============================================================================
