\* C02/C07: long runs of MORE-flagged frames against the frame cap (NULL endpoint, lean grammar)
CONSTANTS
  Cfgs <- OpenOne
  Depth = 7
  MaxPending = 2
  AllowCuts = FALSE
  Grammar <- MoreRuns
INIT Init
NEXT Next
CHECK_DEADLOCK FALSE
INVARIANTS NoDataBeforeHc PartialBounded Export
