--------------------------- MODULE Trace_Delivery ---------------------------
(***************************************************************************)
(* Validates recorded API histories of real sockets against Delivery.tla.  *)
(* IOEnv.TRACE: ndjson, one record per event, several runs separated by    *)
(* {"e":"reset"} records:                                                   *)
(*   {"e":"offer","s":..,"k":..} {"e":"ok","s":..,"k":..} {"e":"refuse",...} *)
(*   {"e":"deliver","r":..,"s":..,"k":..,"intact":true} {"e":"quiesce"}      *)
(* A history is accepted iff every record is an enabled step of Delivery.   *)
(***************************************************************************)
EXTENDS Delivery, Json, IOUtils, TLCExt

Rec == ndJsonDeserialize(IOEnv.TRACE)

VARIABLE pos
tvars == <<dvars, pos>>

TInit == DInit /\ pos = 1

Ev == Rec[pos]

TNext ==
  /\ pos <= Len(Rec)
  /\ pos' = pos + 1
  /\ CASE Ev.e = "offer"   -> Offer(Ev.s, Ev.k)
       [] Ev.e = "ok"      -> Accept(Ev.s, Ev.k)
       [] Ev.e = "refuse"  -> Refuse(Ev.s, Ev.k)
       [] Ev.e = "deliver" -> Ev.intact /\ Deliver(Ev.r, Ev.s, Ev.k)
       [] Ev.e = "quiesce" -> Quiesce
       [] Ev.e = "reset"   -> st' = <<>> /\ at' = <<>> /\ last' = <<>>
       [] OTHER -> FALSE

TSpec == TInit /\ [][TNext]_tvars

Accepted ==
  LET d == TLCGet("stats").diameter IN
    \/ d - 1 = Len(Rec)
    \/ PrintT(<<"REJECTED", 1, d - 1, Len(Rec)>>) /\ FALSE
=============================================================================
