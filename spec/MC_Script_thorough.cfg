\* C06 thorough: full grammar, depth 7, three unread tokens, mid-token cuts
CONSTANTS
  Cfgs <- Secured
  Depth = 7
  MaxPending = 3
  AllowCuts = TRUE
  Grammar <- Attack
INIT Init
NEXT Next
VIEW view
CHECK_DEADLOCK FALSE
INVARIANTS NoBypass PlainClientPath NoDataBeforeHc NoV2WhenRefused PartialBounded
PROPERTIES ClosedStays
