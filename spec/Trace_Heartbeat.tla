--------------------------- MODULE Trace_Heartbeat ---------------------------
(***************************************************************************)
(* What a raw peer observes of a real rzmq connection with heartbeats on,   *)
(* checked against the clauses of Heartbeat.tla (times in ms, with a        *)
(* tolerance for timer granularity and scheduling):                          *)
(*   PingAfterIdle / NotOverdue  a PING comes no sooner than HEARTBEAT_IVL   *)
(*        after the last traffic in either direction that the peer knows of *)
(*        and, while the connection is idle, before 2 x IVL;                 *)
(*   DeadDetected          a PING that nothing answers closes the connection *)
(*        by PING + TIMEOUT;                                                 *)
(*   ClosedOnlyWhenDead    a peer that answers, or keeps sending data, is    *)
(*        not disconnected;                                                  *)
(*   NoHbOnV2              no PING on a ZMTP/2.0 connection;                 *)
(*   PongEcho              a PONG echoes the context of the PING it answers. *)
(* Records: reset {ivl, timeout, v2, mode} | act {t} (the peer sent a frame) *)
(*   | ping {t} | pong {ctx, want} | eof {t} | end {t}                       *)
(***************************************************************************)
EXTENDS Integers, Sequences, TLC, Json, IOUtils
CONSTANTS Early,   \* ms a PING may come early (timer granularity)
          Late     \* ms allowed on top of an upper bound

Rec == ndJsonDeserialize(IOEnv.TRACE)
VARIABLES l, ivl, tmo, v2, mode, lastAct, lastPing, answered, closed
vars == <<l, ivl, tmo, v2, mode, lastAct, lastPing, answered, closed>>
R == Rec[l]

TraceInit == l = 1 /\ ivl = 0 /\ tmo = 0 /\ v2 = FALSE /\ mode = "" /\ lastAct = 0 /\ lastPing = -1 /\ answered = TRUE /\ closed = FALSE

Reset == /\ R.e = "reset" /\ ivl' = R.ivl /\ tmo' = R.timeout /\ v2' = R.v2 /\ mode' = R.mode
         /\ lastAct' = R.t /\ lastPing' = -1 /\ answered' = TRUE /\ closed' = FALSE

Act == /\ R.e = "act" /\ lastAct' = R.t /\ answered' = TRUE
       /\ UNCHANGED <<ivl, tmo, v2, mode, lastPing, closed>>

Ping == /\ R.e = "ping"
        /\ ~v2                                             \* NoHbOnV2
        \* PingAfterIdle - judged on quiet connections only: with a peer that streams data, whether the
        \* session had already processed the last frame when its timer fired is a matter of scheduling
        /\ mode = "data" \/ R.t + Early >= lastAct + ivl
        /\ lastPing' = R.t /\ answered' = FALSE /\ lastAct' = R.t
        /\ UNCHANGED <<ivl, tmo, v2, mode, closed>>

Pong == /\ R.e = "pong" /\ R.ctx = R.want                   \* PongEcho
        /\ UNCHANGED <<ivl, tmo, v2, mode, lastAct, lastPing, answered, closed>>

\* the connection was closed by rzmq: only when a PING went unanswered for TIMEOUT
Eof == /\ R.e = "eof"
       /\ lastPing >= 0 /\ ~answered                        \* ClosedOnlyWhenDead
       /\ R.t + Early >= lastPing + tmo
       /\ R.t <= lastPing + tmo + Late                       \* DeadDetected
       /\ closed' = TRUE
       /\ UNCHANGED <<ivl, tmo, v2, mode, lastAct, lastPing, answered>>

\* end of the observation without a close
End == /\ R.e = "end"
       /\ ~closed =>
            /\ (~v2 /\ mode = "silent") => FALSE                                \* a silent peer must have been dropped
            /\ (~v2 /\ ~answered) => R.t <= lastPing + tmo + Late               \* no overdue unanswered PING
            /\ (~v2 /\ answered /\ mode # "data") => R.t <= lastAct + 2 * ivl + Late   \* NotOverdue
       /\ UNCHANGED <<ivl, tmo, v2, mode, lastAct, lastPing, answered, closed>>

TraceNext == /\ l <= Len(Rec) /\ l' = l + 1 /\ (Reset \/ Act \/ Ping \/ Pong \/ Eof \/ End)
TraceSpec == TraceInit /\ [][TraceNext]_vars
TraceAccepted == LET d == TLCGet("stats").diameter IN
   \/ d - 1 = Len(Rec)
   \/ PrintT(<<"REJECTED", 1, d - 1, Len(Rec)>>) /\ FALSE
=============================================================================
