CONSTANTS
  Cfgs <- OpenOne
  Depth = 8
  MaxPending = 8
  AllowCuts = TRUE
  Grammar <- Transcript
INIT Init
NEXT Next
CHECK_DEADLOCK FALSE
INVARIANTS NoDataBeforeHc Export
