CONSTANTS
  Cap = 1
  ReadyCap = 1
  MaxIn = 3
  MaxCalls = 4
  RearmAwaits = TRUE
INIT Init
NEXT Next
CHECK_DEADLOCK FALSE
INVARIANTS NoLoss NothingLost CancelledNotSent NoStranded
