------------------------------- MODULE Mailbox -------------------------------
(***************************************************************************)
(* API calls that travel through a socket's mailbox (bind, connect,         *)
(* set_option, monitor, close: the delegate_to_core! macro) against the     *)
(* end of the socket's command loop (socket/core/command_loop.rs).          *)
(*                                                                         *)
(* The caller enqueues a command that carries the sender of a one-shot      *)
(* reply channel and then waits for the reply.  The queue belongs to the    *)
(* channel, and the channel lives as long as any sender does - every socket *)
(* handle holds one.  Dropping the receiver therefore does not drop what is *)
(* queued: a command enqueued just before the loop ended keeps its reply    *)
(* sender alive and its caller waits for ever (KeepQueue = TRUE, the pinned *)
(* revision).  The repaired loop ends in three steps - mark the mailbox     *)
(* dead, drop what is queued, drop the receiver - and the caller looks at   *)
(* the mark after it has enqueued.  TLC checks that under every             *)
(* interleaving of those steps with the callers' two steps every call       *)
(* returns.                                                                 *)
(***************************************************************************)
EXTENDS Integers, FiniteSets, TLC

CONSTANTS Callers,
          KeepQueue       \* TRUE: the loop just ends (as-is); FALSE: mark, drain, drop

VARIABLES loop,     \* "running" | "closing" | "marked" | "drained" | "ended"
          queue,    \* callers whose command is in the mailbox
          call,     \* [Callers -> "idle" | "sent" | "waiting" | "ok" | "err"]
          dead      \* the mark callers look at (mailbox_closed)
vars == <<loop, queue, call, dead>>

Init == loop = "running" /\ queue = {} /\ call = [c \in Callers |-> "idle"] /\ dead = FALSE

\* the caller's send: fails at once when the receiver is gone
Send(c) == /\ call[c] = "idle"
           /\ IF loop = "ended"
                THEN call' = [call EXCEPT ![c] = "err"] /\ UNCHANGED queue
                ELSE call' = [call EXCEPT ![c] = "sent"] /\ queue' = queue \cup {c}
           /\ UNCHANGED <<loop, dead>>
\* ... then it looks at the mark (repaired macro), then it waits
Look(c) == /\ call[c] = "sent"
           /\ call' = [call EXCEPT ![c] = IF dead /\ ~KeepQueue THEN "err" ELSE "waiting"]
           /\ UNCHANGED <<loop, queue, dead>>

\* the loop serves commands while it runs, also during the shutdown phases
Serve(c) == /\ loop \in {"running", "closing"} /\ c \in queue
            /\ queue' = queue \ {c}
            /\ call' = [call EXCEPT ![c] = IF call[c] \in {"sent", "waiting"} THEN "ok" ELSE call[c]]
            /\ UNCHANGED <<loop, dead>>
StartClose == loop = "running" /\ loop' = "closing" /\ UNCHANGED <<queue, call, dead>>

\* the end of the loop
EndAsIs == KeepQueue /\ loop = "closing" /\ loop' = "ended" /\ UNCHANGED <<queue, call, dead>>
Mark == ~KeepQueue /\ loop = "closing" /\ loop' = "marked" /\ dead' = TRUE /\ UNCHANGED <<queue, call>>
Drain == /\ ~KeepQueue /\ loop = "marked" /\ loop' = "drained"
         \* dropping a queued command drops its reply sender: the caller's wait fails
         /\ call' = [c \in Callers |-> IF c \in queue /\ call[c] \in {"sent", "waiting"} THEN "err" ELSE call[c]]
         /\ queue' = {} /\ UNCHANGED dead
DropReceiver == ~KeepQueue /\ loop = "drained" /\ loop' = "ended" /\ UNCHANGED <<queue, call, dead>>

Next == \/ \E c \in Callers : Send(c) \/ Look(c) \/ Serve(c)
        \/ StartClose \/ EndAsIs \/ Mark \/ Drain \/ DropReceiver
Spec == Init /\ [][Next]_vars
        /\ \A c \in Callers : WF_vars(Look(c)) /\ WF_vars(Serve(c))
        /\ WF_vars(EndAsIs) /\ WF_vars(Mark) /\ WF_vars(Drain) /\ WF_vars(DropReceiver)

---------------------------------------------------------------------------
\* every call that was made returns, whatever the loop does meanwhile (C16: nothing hangs)
AllReturn == \A c \in Callers : (call[c] \in {"sent", "waiting"}) ~> (call[c] \in {"ok", "err"})
\* a call answered "ok" was served by the loop
OkMeansServed == \A c \in Callers : call[c] = "ok" => c \notin queue
=============================================================================
