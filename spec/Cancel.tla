------------------------------- MODULE Cancel -------------------------------
(***************************************************************************)
(* Dropping the future of a send() or recv() at an await point (C09).       *)
(*                                                                         *)
(* An API call is a straight line of steps; some of them are await points   *)
(* where the task may be parked - and where the caller may drop the future  *)
(* (explicitly, or through a timeout that fires).  Between two await points *)
(* the code runs to the next one without interruption.  The calls of rzmq   *)
(* are transcribed as step lists over a small shared state:                 *)
(*                                                                         *)
(*   queue   messages a peer has delivered to this socket's ingress queue   *)
(*   ready   the ready list of ReadyPipeQueue (tokens, bounded by ReadyCap)  *)
(*   out     what the socket handed to a connection (pipe, bounded by Cap)  *)
(*   fsm     REQ: "send" | "recv"                                           *)
(*   permit  ROUTER: a multi-frame send in progress holds the send permit   *)
(*                                                                         *)
(*  recv  (ready_pipe_queue.rs pop):  P1 await a ready token; take the item;*)
(*        P4 if more items remain, await putting the token back; return.    *)
(*  send  (iface.rs / orchestrator):  S1 await a connected peer; S2 await   *)
(*        room in the pipe; the push itself does not await.                 *)
(*  req   (req_socket.rs send):  check fsm; await peer; await room; push    *)
(*        and set fsm := "recv" with no await in between.                   *)
(*                                                                         *)
(* Switch RearmAwaits describes a variant in which the ready list can be    *)
(* full when pop() wants to put the token back (the await at P4 parks): TLC *)
(* shows the message taken at P2 is then lost by a cancellation.  With the   *)
(* list sized for every pipe (ReadyCap >= number of pipes, one token per    *)
(* pipe at most) P4 never parks and the property holds.                     *)
(***************************************************************************)
EXTENDS Integers, Sequences, FiniteSets, TLC

CONSTANTS Cap,            \* pipe capacity towards the peer
          ReadyCap,       \* capacity of the ready list
          MaxIn, MaxCalls,
          RearmAwaits     \* TRUE: one pipe may hold several tokens (the list can fill up)

VARIABLES queue, ready, out, fsm, peerUp,
          call,           \* "idle" or [op, pc, msg]
          got,            \* messages returned to the application by recv, in order
          sentOk,         \* ids whose send returned Ok
          cancelled,      \* ids whose send was dropped before it returned
          nin, ncalls, lost
vars == <<queue, ready, out, fsm, peerUp, call, got, sentOk, cancelled, nin, ncalls, lost>>

Idle == [op |-> "none", pc |-> "-", msg |-> 0]
Init == /\ queue = <<>> /\ ready = 0 /\ out = <<>> /\ fsm = "send" /\ peerUp = FALSE
        /\ call = Idle /\ got = <<>> /\ sentOk = {} /\ cancelled = {} /\ nin = 0 /\ ncalls = 0 /\ lost = {}

\* ---- environment ------------------------------------------------------------
\* a peer's session delivers a message: into the queue, and a token if the pipe had none
PeerDelivers == /\ nin < MaxIn
                /\ queue' = Append(queue, nin + 1) /\ nin' = nin + 1
                /\ ready' = IF RearmAwaits THEN (IF ready < ReadyCap THEN ready + 1 ELSE ready)
                            ELSE (IF queue = <<>> /\ ~(call.op = "recv" /\ call.pc = "P4") THEN 1 ELSE ready)
                /\ UNCHANGED <<out, fsm, peerUp, call, got, sentOk, cancelled, ncalls, lost>>

PeerConnects == /\ ~peerUp /\ peerUp' = TRUE
                /\ UNCHANGED <<queue, ready, out, fsm, call, got, sentOk, cancelled, nin, ncalls, lost>>
PeerDrains == /\ out # <<>> /\ out' = Tail(out)
              /\ UNCHANGED <<queue, ready, fsm, peerUp, call, got, sentOk, cancelled, nin, ncalls, lost>>

\* ---- the application starts a call -----------------------------------------------
Start(op) == /\ call = Idle /\ ncalls < MaxCalls
             /\ ncalls' = ncalls + 1
             /\ call' = [op |-> op, pc |-> IF op = "recv" THEN "P1" ELSE "S1", msg |-> ncalls + 1]
             /\ UNCHANGED <<queue, ready, out, fsm, peerUp, got, sentOk, cancelled, nin, lost>>

\* ---- recv ---------------------------------------------------------------------------
\* P1 -> P4: a token arrives; the item is taken (try_recv + counters: no await)
RecvTake == /\ call.op = "recv" /\ call.pc = "P1" /\ ready > 0 /\ queue # <<>>
            /\ ready' = ready - 1
            /\ queue' = Tail(queue)
            /\ call' = [call EXCEPT !.pc = "P4", !.msg = Head(queue)]
            /\ UNCHANGED <<out, fsm, peerUp, got, sentOk, cancelled, nin, ncalls, lost>>
\* P4: more items -> the token goes back (awaits room on the list); then the item is returned
RecvReturn == /\ call.op = "recv" /\ call.pc = "P4"
              /\ IF queue # <<>>
                   THEN /\ ready < ReadyCap /\ ready' = ready + 1
                   ELSE UNCHANGED ready
              /\ got' = Append(got, call.msg) /\ call' = Idle
              /\ UNCHANGED <<queue, out, fsm, peerUp, sentOk, cancelled, nin, ncalls, lost>>

\* ---- send / REQ send -----------------------------------------------------------------
SendPeer == /\ call.op \in {"send", "req"} /\ call.pc = "S1"
            /\ call.op = "req" => fsm = "send"
            /\ peerUp /\ call' = [call EXCEPT !.pc = "S2"]
            /\ UNCHANGED <<queue, ready, out, fsm, peerUp, got, sentOk, cancelled, nin, ncalls, lost>>
\* REQ in the wrong state: refused at once (no await)
ReqRefused == /\ call.op = "req" /\ call.pc = "S1" /\ fsm # "send" /\ call' = Idle
              /\ UNCHANGED <<queue, ready, out, fsm, peerUp, got, sentOk, cancelled, nin, ncalls, lost>>
SendPush == /\ call.op \in {"send", "req"} /\ call.pc = "S2" /\ Len(out) < Cap
            /\ out' = Append(out, call.msg) /\ sentOk' = sentOk \cup {call.msg}
            /\ fsm' = IF call.op = "req" THEN "recv" ELSE fsm
            /\ call' = Idle
            /\ UNCHANGED <<queue, ready, peerUp, got, cancelled, nin, ncalls, lost>>
\* the reply arrives and is read: REQ may send again (kept abstract)
ReqReply == /\ fsm = "recv" /\ call = Idle /\ fsm' = "send"
            /\ UNCHANGED <<queue, ready, out, peerUp, call, got, sentOk, cancelled, nin, ncalls, lost>>

\* ---- cancellation: only where the task can be parked -----------------------------------------
Parked == \/ call.op = "recv" /\ call.pc = "P1" /\ (ready = 0 \/ queue = <<>>)
          \/ call.op = "recv" /\ call.pc = "P4" /\ queue # <<>> /\ ready >= ReadyCap
          \/ call.op \in {"send", "req"} /\ call.pc = "S1" /\ ~peerUp /\ (call.op = "req" => fsm = "send")
          \/ call.op \in {"send", "req"} /\ call.pc = "S2" /\ Len(out) >= Cap

Cancel == /\ call # Idle /\ Parked
          /\ cancelled' = IF call.op = "recv" THEN cancelled ELSE cancelled \cup {call.msg}
          \* a recv dropped after the item left the queue takes the item with it
          /\ lost' = IF call.op = "recv" /\ call.pc = "P4" THEN lost \cup {call.msg} ELSE lost
          /\ call' = Idle
          /\ UNCHANGED <<queue, ready, out, fsm, peerUp, got, sentOk, nin, ncalls>>

Next == PeerDelivers \/ PeerConnects \/ PeerDrains
        \/ (\E op \in {"recv", "send", "req"} : Start(op))
        \/ RecvTake \/ RecvReturn \/ SendPeer \/ ReqRefused \/ SendPush \/ ReqReply \/ Cancel
Spec == Init /\ [][Next]_vars

---------------------------------------------------------------------------
\* nothing that was queued for the application disappears: what recv() has returned plus what is
\* still queued (plus the one item a running recv holds) is exactly what arrived, in order
Holding == IF call.op = "recv" /\ call.pc = "P4" THEN <<call.msg>> ELSE <<>>
NoLoss == got \o Holding \o queue = [i \in 1..nin |-> i]
NothingLost == lost = {}
\* a cancelled send is delivered whole or not at all - here: never half in the pipe, and a send that
\* was dropped before it pushed left nothing behind
CancelledNotSent == \A m \in cancelled : m \notin sentOk /\ \A i \in 1..Len(out) : out[i] # m
\* a dropped call leaves the REQ state machine where a valid next call is accepted
ReqNotStuck == (call = Idle /\ fsm = "recv") => \E m \in sentOk : TRUE
\* the token accounting never strands queued messages: something queued and nobody holding -> a token
NoStranded == (queue # <<>> /\ ~(call.op = "recv" /\ call.pc = "P4")) => ready > 0
=============================================================================
