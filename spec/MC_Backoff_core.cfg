CONSTANTS
  Ivls <- IvlSet
  Maxs <- MaxSet
  MaxSteps = 7
  Impl = "core"
INIT Init
NEXT Next
CHECK_DEADLOCK FALSE
INVARIANTS Starts NeverBelow Geometric Capped Inherit Export
