------------------------------- MODULE Linger -------------------------------
(***************************************************************************)
(* What happens to accepted messages when a socket is closed (C15).        *)
(*                                                                         *)
(* One sending socket, one connection, one reading peer, an integer clock. *)
(* The path of a message: send() puts it into the socket->session pipe     *)
(* (pipes_tx); the session takes it into its own buffers (core_carryover,  *)
(* egress_buffer, pending_vectored: `sbuf`); the session writes it, in two *)
(* units, to the kernel (`wire`, bounded: a slow reader exerts             *)
(* back-pressure); the peer's session reads units and hands whole messages *)
(* to its application.                                                     *)
(*                                                                         *)
(* close()/term(): command_processor.rs UserClose -> SocketClosing on the  *)
(* event bus (`ev`) and shutdown.rs initiate_core_shutdown: the core goes  *)
(* Lingering with a deadline; check_and_advance_linger (`CoreCheck`) ends  *)
(* the phase when all pipes are empty or the deadline passed, sends Stop   *)
(* to every session (`stop`) and drops the pipes.  The session             *)
(* (sessionx/actor.rs): on_parent_closing (`SessEvent`), Command::Stop     *)
(* (`SessStop`), the test at the top of the operational loop (`SessCheck`) *)
(* and the stream shutdown (`Shut`).                                       *)
(*                                                                         *)
(* The three switches describe the pinned revision, where the property     *)
(* does not hold; with all three FALSE the module describes the repaired   *)
(* code.  TLC must find the violation under each of them (the model can    *)
(* see the defects) and none with all of them off.                         *)
(***************************************************************************)
EXTENDS Integers, Sequences, FiniteSets, TLC

CONSTANTS Lingers,        \* LINGER values to try: -1 (no limit), 0, positive ticks
          MaxMsgs, MaxTime,
          PipeCap, SbufCap, WireCap,
          EventStops,     \* pinned: the session shuts down on SocketClosing whatever LINGER is
          StopDiscards,   \* pinned: Stop shuts the stream without writing the session's buffers
          GreedyEofDrops  \* pinned: a read that meets end-of-stream discards what it had read

VARIABLES now, linger, sock, closeT, deadline,
          pipe, sbuf, woff, wire,
          ev, stop,
          sess, lingerUntil, flush, shutT,
          dropped, dropT,
          rpart, delivered, rstate,
          accepted

vars == <<now, linger, sock, closeT, deadline, pipe, sbuf, woff, wire, ev, stop, sess, lingerUntil,
          flush, shutT, dropped, dropT, rpart, delivered, rstate, accepted>>

Unset == -2
Inf   == -1
FIN   == <<0, 0>>

Init == /\ now = 0 /\ linger \in Lingers /\ sock = "Running" /\ closeT = Unset /\ deadline = Unset
        /\ pipe = <<>> /\ sbuf = <<>> /\ woff = 0 /\ wire = <<>>
        /\ ev = FALSE /\ stop = FALSE
        /\ sess = "Op" /\ lingerUntil = Unset /\ flush = FALSE /\ shutT = Unset
        /\ dropped = 0 /\ dropT = Unset
        /\ rpart = 0 /\ delivered = <<>> /\ rstate = "Open"
        /\ accepted = 0

Expired(t) == t >= 0 /\ now >= t

\* ---- application ----------------------------------------------------------
Send == /\ sock = "Running" /\ accepted < MaxMsgs /\ Len(pipe) < PipeCap
        /\ accepted' = accepted + 1
        /\ pipe' = Append(pipe, accepted + 1)
        /\ UNCHANGED <<now, linger, sock, closeT, deadline, sbuf, woff, wire, ev, stop, sess, lingerUntil,
                       flush, shutT, dropped, dropT, rpart, delivered, rstate>>

\* close(), term() or the last handle dropped: the event goes out and the core starts lingering
Close == /\ sock = "Running"
         /\ sock' = "Lingering" /\ closeT' = now /\ ev' = TRUE
         /\ deadline' = IF linger = Inf THEN Inf ELSE now + linger
         /\ UNCHANGED <<now, linger, pipe, sbuf, woff, wire, stop, sess, lingerUntil, flush, shutT,
                        dropped, dropT, rpart, delivered, rstate, accepted>>

\* ---- socket core ------------------------------------------------------------
\* is_linger_expired_or_queues_empty, then close_active_connections + perform_final_pipe_cleanup
CoreCheck == /\ sock = "Lingering"
             /\ pipe = <<>> \/ Expired(deadline)
             /\ sock' = "Finished" /\ stop' = TRUE
             /\ dropped' = dropped + Len(pipe)
             /\ dropT' = IF Len(pipe) > 0 THEN now ELSE dropT
             /\ pipe' = <<>>
             /\ UNCHANGED <<now, linger, closeT, deadline, sbuf, woff, wire, ev, sess, lingerUntil, flush,
                            shutT, rpart, delivered, rstate, accepted>>

\* ---- session ----------------------------------------------------------------
ShutEffect == /\ sess' = "Shut" /\ shutT' = now
              /\ wire' = Append(wire, FIN)
              /\ dropped' = dropped + Len(sbuf)
              /\ dropT' = IF Len(sbuf) > 0 THEN now ELSE dropT
              /\ sbuf' = <<>> /\ woff' = 0

SessTake == /\ sess = "Op" /\ ~flush /\ pipe # <<>> /\ Len(sbuf) < SbufCap
            /\ sbuf' = Append(sbuf, Head(pipe)) /\ pipe' = Tail(pipe)
            /\ UNCHANGED <<now, linger, sock, closeT, deadline, woff, wire, ev, stop, sess, lingerUntil, flush,
                           shutT, dropped, dropT, rpart, delivered, rstate, accepted>>

SessWrite == /\ sess = "Op" /\ sbuf # <<>> /\ Len(wire) < WireCap
             /\ wire' = Append(wire, <<Head(sbuf), woff + 1>>)
             /\ IF woff = 1 THEN sbuf' = Tail(sbuf) /\ woff' = 0 ELSE woff' = 1 /\ UNCHANGED sbuf
             /\ UNCHANGED <<now, linger, sock, closeT, deadline, pipe, ev, stop, sess, lingerUntil, flush, shutT,
                            dropped, dropT, rpart, delivered, rstate, accepted>>

\* on_parent_closing: LINGER 0 -> shut the stream now; otherwise remember when the period ends
Closing(lu) == IF linger = 0 \/ EventStops THEN Unset
               ELSE IF lu # Unset THEN lu
               ELSE IF linger = Inf THEN Inf ELSE now + linger

SessEvent == /\ ev /\ sess = "Op"
             /\ ev' = FALSE
             /\ IF linger = 0 \/ EventStops
                  THEN ShutEffect /\ UNCHANGED <<lingerUntil, flush>>
                  ELSE /\ lingerUntil' = Closing(lingerUntil)
                       /\ UNCHANGED <<sess, shutT, wire, dropped, dropT, sbuf, woff, flush>>
             /\ UNCHANGED <<now, linger, sock, closeT, deadline, pipe, stop, rpart, delivered, rstate, accepted>>

\* Command::Stop.  The closing event may still be unread: the session looks at the socket itself.
SessStop == /\ stop /\ sess = "Op"
            /\ stop' = FALSE
            /\ LET lu == IF lingerUntil = Unset /\ sock # "Running" THEN Closing(Unset) ELSE lingerUntil IN
               IF lu = Unset \/ StopDiscards
                 THEN ShutEffect /\ UNCHANGED <<lingerUntil, flush>>
                 ELSE /\ lingerUntil' = lu /\ flush' = TRUE
                      /\ UNCHANGED <<sess, shutT, wire, dropped, dropT, sbuf, woff>>
            /\ UNCHANGED <<now, linger, sock, closeT, deadline, pipe, ev, rpart, delivered, rstate, accepted>>

\* top of the operational loop
SessCheck == /\ sess = "Op" /\ lingerUntil # Unset
             /\ Expired(lingerUntil) \/ (flush /\ sbuf = <<>>)
             /\ ShutEffect
             /\ UNCHANGED <<now, linger, sock, closeT, deadline, pipe, ev, stop, lingerUntil, flush,
                            rpart, delivered, rstate, accepted>>

\* ---- the reading peer ---------------------------------------------------------
\* message_processor.rs read_and_process: one call reads k >= 1 units; if it then meets the end of
\* the stream in the same call (the greedy drain), the pinned code returns ConnectionClosed and the
\* k units are gone.
RECURSIVE Feed(_, _, _)
Feed(units, part, dl) ==
  IF units = <<>> THEN <<part, dl>>
  ELSE LET u == Head(units) IN
       IF u[2] = 1 THEN Feed(Tail(units), u[1], dl)
       ELSE Feed(Tail(units), 0, Append(dl, u[1]))

PeerRead(k) ==
  /\ rstate = "Open" /\ k >= 1 /\ k <= Len(wire)
  /\ \A i \in 1..k : wire[i] # FIN
  /\ LET got == SubSeq(wire, 1, k)
         rest == SubSeq(wire, k + 1, Len(wire))
         eofInCall == rest # <<>> /\ Head(rest) = FIN IN
     \/ /\ GreedyEofDrops /\ eofInCall
        /\ rstate' = "Eof" /\ wire' = Tail(rest) /\ UNCHANGED <<rpart, delivered>>
     \/ /\ LET r == Feed(got, rpart, delivered) IN rpart' = r[1] /\ delivered' = r[2]
        /\ wire' = rest /\ UNCHANGED rstate
  /\ UNCHANGED <<now, linger, sock, closeT, deadline, pipe, sbuf, woff, ev, stop, sess, lingerUntil, flush,
                 shutT, dropped, dropT, accepted>>

PeerEof == /\ rstate = "Open" /\ wire # <<>> /\ Head(wire) = FIN
           /\ rstate' = "Eof" /\ wire' = Tail(wire)
           /\ UNCHANGED <<now, linger, sock, closeT, deadline, pipe, sbuf, woff, ev, stop, sess, lingerUntil,
                          flush, shutT, dropped, dropT, rpart, delivered, accepted>>

\* ---- time ---------------------------------------------------------------------
\* Mailbox and bus deliveries and due timers are handled before time moves on.
Tick == /\ now < MaxTime
        /\ ~ev \/ sess # "Op"
        /\ ~stop \/ sess # "Op"
        /\ ~(sock = "Lingering" /\ (pipe = <<>> \/ Expired(deadline)))
        /\ ~(sess = "Op" /\ lingerUntil # Unset /\ (Expired(lingerUntil) \/ (flush /\ sbuf = <<>>)))
        /\ now' = now + 1
        /\ UNCHANGED <<linger, sock, closeT, deadline, pipe, sbuf, woff, wire, ev, stop, sess, lingerUntil,
                       flush, shutT, dropped, dropT, rpart, delivered, rstate, accepted>>

Next == Send \/ Close \/ CoreCheck \/ SessTake \/ SessWrite \/ SessEvent \/ SessStop \/ SessCheck
        \/ (\E k \in 1..WireCap : PeerRead(k)) \/ PeerEof \/ Tick

Spec == Init /\ [][Next]_vars

---------------------------------------------------------------------------
Closed   == closeT # Unset
PeriodEnd == closeT + linger          \* meaningful for linger >= 0

\* what the peer's application gets is always a prefix of what was accepted: whole, in order, once
DeliveredPrefix == /\ Len(delivered) <= accepted
                   /\ \A i \in 1..Len(delivered) : delivered[i] = i

\* nothing that was accepted is discarded before the linger period allows it
\* (tol: clock tolerance when the state comes from a recorded execution)
DropAllowed(tol) ==
  dropped > 0 => /\ Closed
                 /\ linger # Inf
                 /\ dropT + tol >= PeriodEnd
DropOnlyWhenAllowed == DropAllowed(0)

\* LINGER -1, and LINGER longer than the transfer needs: the reading peer gets everything
AllDeliveredT(tol) ==
  (Closed /\ sess = "Shut" /\ rstate = "Eof" /\ (linger = Inf \/ (linger > 0 /\ shutT + tol < PeriodEnd)))
     => Len(delivered) = accepted
AllDelivered == AllDeliveredT(0)

\* LINGER 0: close is prompt - nothing is left running once time moves on
Linger0Prompt == (Closed /\ linger = 0 /\ now > closeT) => (sock = "Finished" /\ sess = "Shut")

\* a bounded LINGER bounds the close
BoundedClose == (Closed /\ linger > 0 /\ now > PeriodEnd) => (sock = "Finished" /\ sess = "Shut")

\* the session never outlives its socket's linger period on its own clock either
SessionDeadline == (sess = "Op" /\ lingerUntil >= 0) => lingerUntil <= PeriodEnd

Terminal == rstate = "Eof" \/ now = MaxTime
=============================================================================
