CONSTANTS
  Lingers <- LingerSetWide
  MaxMsgs = 4
  MaxTime = 6
  PipeCap = 3
  SbufCap = 2
  WireCap = 4
  EventStops = FALSE
  StopDiscards = FALSE
  GreedyEofDrops = FALSE
INIT Init
NEXT Next
CHECK_DEADLOCK FALSE
INVARIANTS DeliveredPrefix DropOnlyWhenAllowed AllDelivered Linger0Prompt BoundedClose SessionDeadline
