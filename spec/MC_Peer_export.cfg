\* every schedule (hist is part of the state): one exported behaviour per distinct schedule
CONSTANTS
  CfgsA <- QA
  CfgsB <- QB
  MaxMsgs = 1
  MaxFrames = 2
  AllowCuts = TRUE
INIT Init
NEXT Next
CHECK_DEADLOCK FALSE
INVARIANTS InOrder Export
