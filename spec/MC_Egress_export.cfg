CONSTANTS
  ChunkBytes = {2, 3}
  ChunkMsgs = {1, 2}
  MaxOps = 5
INIT Init
NEXT Next
CHECK_DEADLOCK FALSE
INVARIANTS HeadStays CountExact Export
