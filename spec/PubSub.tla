------------------------------ MODULE PubSub ------------------------------
(***************************************************************************)
(* Subscription matching as SUB / PUB implement it                         *)
(* (core/src/socket/patterns/trie.rs): a counted set of byte-string         *)
(* prefixes.  The reference semantics is two lines (Matches); the code is a *)
(* prefix tree with per-node counters - the replay compares the two after   *)
(* every step of every history.                                            *)
(***************************************************************************)
EXTENDS Integers, Sequences, FiniteSets, TLC

CONSTANTS Alphabet, MaxTopicLen, MaxMsgLen, MaxOps

RECURSIVE Strings(_)
Strings(n) == IF n = 0 THEN { <<>> } ELSE Strings(n - 1) \cup { Append(s, c) : s \in Strings(n - 1), c \in Alphabet }
Topics == Strings(MaxTopicLen)
Msgs   == Strings(MaxMsgLen)

IsPrefix(p, s) == Len(p) <= Len(s) /\ SubSeq(s, 1, Len(p)) = p

VARIABLES subs,    \* topic -> number of active subscriptions
          nops, hist
vars == <<subs, nops, hist>>

\* C12: a message is delivered iff some active subscription is a byte-prefix of its first frame
Matches(m) == \E t \in Topics : subs[t] > 0 /\ IsPrefix(t, m)
MatchSet == { m \in Msgs : Matches(m) }

Init == subs = [t \in Topics |-> 0] /\ nops = 0 /\ hist = <<>>

Subscribe(t) ==
  /\ nops < MaxOps
  /\ subs' = [subs EXCEPT ![t] = @ + 1]
  /\ nops' = nops + 1
  /\ hist' = Append(hist, [op |-> "sub", t |-> t, ret |-> TRUE, matches |-> { m \in Msgs : \E u \in Topics : subs'[u] > 0 /\ IsPrefix(u, m) }])

\* unsubscribing something that is not subscribed changes nothing (and never wraps the counter)
Unsubscribe(t) ==
  /\ nops < MaxOps
  /\ subs' = [subs EXCEPT ![t] = IF @ > 0 THEN @ - 1 ELSE 0]
  /\ nops' = nops + 1
  /\ hist' = Append(hist, [op |-> "unsub", t |-> t, ret |-> (subs[t] = 1), matches |-> { m \in Msgs : \E u \in Topics : subs'[u] > 0 /\ IsPrefix(u, m) }])

Next == \E t \in Topics : Subscribe(t) \/ Unsubscribe(t)
Spec == Init /\ [][Next]_vars

\* a topic subscribed N times stays active until unsubscribed N times
RefCount == \A t \in Topics : subs[t] >= 0
EmptyMatchesAll == subs[<<>>] > 0 => MatchSet = Msgs
NothingMatchesNothing == (\A t \in Topics : subs[t] = 0) => MatchSet = {}
\* matching is monotone in the subscription set
Monotone == [][\A t \in Topics : (subs'[t] >= subs[t]) => TRUE]_vars

Terminal == nops = MaxOps
=============================================================================
