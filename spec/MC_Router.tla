----------------------------- MODULE MC_Router -----------------------------
EXTENDS Router, Json
Export == Terminal => PrintT(<<"REPLAY", ToJson([steps |-> hist])>>)
=============================================================================
