---------------------------- MODULE Trace_Linger ----------------------------
(***************************************************************************)
(* A recorded close of a real socket, checked against Linger.tla.          *)
(*                                                                         *)
(* The variables of Linger that an execution exposes - what was accepted,   *)
(* when close() was called and with which LINGER, when the socket core      *)
(* ended its linger phase and how much it dropped, when the session shut    *)
(* its stream and how much it had not written, what the peer's application  *)
(* received - are set from the recorded events (API call records of the     *)
(* harness, hook events core.linger* / sess.* from inside rzmq); Linger's   *)
(* own invariants are then evaluated on every state, with a clock           *)
(* tolerance.  Times are milliseconds.                                      *)
(***************************************************************************)
EXTENDS Linger, Json, IOUtils

CONSTANTS Tol,        \* ms: clock tolerance for "not before the period ends"
          Slack,      \* ms: allowance for "not later than the period end"
          Prompt      \* ms: what "promptly" means for LINGER 0

VARIABLES l, closeDur, bad
tvars == <<vars, l, closeDur, bad>>

Rec == ndJsonDeserialize(IOEnv.TRACE)

TraceInit ==
  /\ now = 0 /\ linger = 0 /\ sock = "Running" /\ closeT = Unset /\ deadline = Unset
  /\ pipe = <<>> /\ sbuf = <<>> /\ woff = 0 /\ wire = <<>> /\ ev = FALSE /\ stop = FALSE
  /\ sess = "Op" /\ lingerUntil = Unset /\ flush = FALSE /\ shutT = Unset
  /\ dropped = 0 /\ dropT = Unset /\ rpart = 0 /\ delivered = <<>> /\ rstate = "Open" /\ accepted = 0
  /\ l = 1 /\ closeDur = Unset /\ bad = FALSE

Keep == UNCHANGED <<pipe, sbuf, woff, wire, ev, stop, rpart, deadline>>

\* a new run starts
Reset ==
  /\ Rec[l].e = "reset"
  /\ now' = 0 /\ linger' = 0 /\ sock' = "Running" /\ closeT' = Unset
  /\ sess' = "Op" /\ lingerUntil' = Unset /\ flush' = FALSE /\ shutT' = Unset
  /\ dropped' = 0 /\ dropT' = Unset /\ delivered' = <<>> /\ rstate' = "Open" /\ accepted' = 0
  /\ closeDur' = Unset /\ bad' = FALSE /\ Keep

Accept ==
  /\ Rec[l].e = "accept"
  /\ accepted' = accepted + 1
  \* the harness numbers what it sends 1, 2, ...; an accepted message carries the next number
  /\ bad' = (bad \/ Rec[l].k # accepted + 1)
  /\ UNCHANGED <<now, linger, sock, closeT, sess, lingerUntil, flush, shutT, dropped, dropT, delivered, rstate, closeDur>> /\ Keep

CloseCall ==
  /\ Rec[l].e = "close"
  /\ closeT' = Rec[l].t /\ linger' = Rec[l].linger /\ now' = Rec[l].t /\ sock' = "Lingering"
  \* inproc: no session, the pipe is the connection
  /\ sess' = IF Rec[l].session THEN sess ELSE "None"
  /\ UNCHANGED <<lingerUntil, flush, shutT, dropped, dropT, delivered, rstate, accepted, closeDur, bad>> /\ Keep

CloseRet ==
  /\ Rec[l].e = "closeret"
  /\ closeDur' = Rec[l].dur /\ now' = Rec[l].t
  /\ UNCHANGED <<linger, sock, closeT, sess, lingerUntil, flush, shutT, dropped, dropT, delivered, rstate, accepted, bad>> /\ Keep

\* core.lingerdone: the socket core ended its linger phase and dropped `residue` queued messages
CoreDone ==
  /\ Rec[l].e = "coredone"
  /\ sock' = "Finished" /\ now' = Rec[l].t
  /\ dropped' = dropped + Rec[l].residue
  /\ dropT' = IF Rec[l].residue > 0 THEN Rec[l].t ELSE dropT
  /\ IF sess = "None" THEN sess' = "Shut" /\ shutT' = Rec[l].t ELSE UNCHANGED <<sess, shutT>>
  /\ UNCHANGED <<linger, closeT, lingerUntil, flush, delivered, rstate, accepted, closeDur, bad>> /\ Keep

\* sess.closing: the session learnt that its socket closes, with the LINGER it read
SessClosing ==
  /\ Rec[l].e = "sessclosing"
  /\ now' = Rec[l].t
  /\ lingerUntil' = IF Rec[l].linger = 0 THEN lingerUntil
                    ELSE IF lingerUntil # Unset THEN lingerUntil
                    ELSE IF Rec[l].linger = Inf THEN Inf ELSE Rec[l].t + Rec[l].linger
  \* the session and the socket agree on the option
  /\ bad' = (bad \/ (closeT # Unset /\ Rec[l].linger # linger))
  /\ UNCHANGED <<linger, sock, closeT, sess, flush, shutT, dropped, dropT, delivered, rstate, accepted, closeDur>> /\ Keep

SessStopEv ==
  /\ Rec[l].e = "sessstop"
  /\ now' = Rec[l].t /\ flush' = Rec[l].lingering
  /\ UNCHANGED <<linger, sock, closeT, sess, lingerUntil, shutT, dropped, dropT, delivered, rstate, accepted, closeDur, bad>> /\ Keep

\* sess.opend: the session left its operational loop with `unsent` messages not written
SessEnd ==
  /\ Rec[l].e = "sessend"
  /\ sess' = "Shut" /\ shutT' = Rec[l].t /\ now' = Rec[l].t
  /\ dropped' = dropped + Rec[l].unsent
  /\ dropT' = IF Rec[l].unsent > 0 THEN Rec[l].t ELSE dropT
  /\ UNCHANGED <<linger, sock, closeT, lingerUntil, flush, delivered, rstate, accepted, closeDur, bad>> /\ Keep

Deliver ==
  /\ Rec[l].e = "deliver"
  /\ delivered' = Append(delivered, IF Rec[l].intact THEN Rec[l].k ELSE 0 - Rec[l].k)
  /\ UNCHANGED <<now, linger, sock, closeT, sess, lingerUntil, flush, shutT, dropped, dropT, rstate, accepted, closeDur, bad>> /\ Keep

\* the peer read until nothing more came
End ==
  /\ Rec[l].e = "end"
  /\ rstate' = "Eof" /\ now' = Rec[l].t
  /\ UNCHANGED <<linger, sock, closeT, sess, lingerUntil, flush, shutT, dropped, dropT, delivered, accepted, closeDur, bad>> /\ Keep

TraceNext == /\ l <= Len(Rec) /\ l' = l + 1
             /\ (Reset \/ Accept \/ CloseCall \/ CloseRet \/ CoreDone \/ SessClosing \/ SessStopEv \/ SessEnd \/ Deliver \/ End)

\* every clause is a constraint on the next state: a record whose state breaks one is not matched
Ok == /\ ~bad
      /\ DeliveredPrefix
      /\ DropAllowed(Tol)
      /\ AllDeliveredT(Tol)
      \* LINGER 0: close() returns promptly and the session is gone promptly
      /\ (linger = 0 /\ closeDur # Unset) => closeDur <= Prompt
      /\ (Closed /\ linger = 0 /\ sess = "Shut") => shutT <= closeT + Prompt
      /\ (Closed /\ linger = 0 /\ rstate = "Eof") => sess = "Shut"
      \* a bounded LINGER bounds the close
      /\ (Closed /\ linger > 0 /\ sess = "Shut") => shutT <= PeriodEnd + Slack
      /\ (Closed /\ linger > 0 /\ rstate = "Eof") => sess = "Shut"
      /\ (Closed /\ linger > 0 /\ closeDur # Unset) => closeDur <= linger + Slack
      \* the session's own deadline is the socket's
      /\ (Closed /\ linger > 0 /\ lingerUntil >= 0) => lingerUntil <= PeriodEnd + Slack

TraceSpec == TraceInit /\ [][TraceNext /\ Ok']_tvars

TraceAccepted == LET d == TLCGet("stats").diameter IN
   \/ d - 1 = Len(Rec)
   \/ PrintT(<<"REJECTED", 1, d - 1, Len(Rec)>>) /\ FALSE
=============================================================================
