CONSTANTS
  Pipes = {"p1", "p2"}
  Cons = {"c1", "c2"}
  Cap = 1
  ReadyCap = 2
  Scripts <- ScriptsAll
  ConsModes <- ModesAll
  BatchN = 2
  MaxCancel = 1
  MaxDereg = 0
INIT Init
NEXT Next
CHECK_DEADLOCK FALSE
INVARIANTS AtMostOneToken NoLostToken Export
