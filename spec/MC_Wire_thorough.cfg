\* exhaustive: every stream of <= 3 frames over the boundary lengths, every segmentation
CONSTANTS
  Lens = {0, 1, 255, 256, 65535, 65536}
  MaxFrames = 3
  MaxMsg <- Unlimited
INIT Init
NEXT Next
VIEW view
CHECK_DEADLOCK FALSE
INVARIANTS TypeOK RoundTrip DecodersAgree AllDecodedAtEnd LimitExact AccBound HeaderShape
