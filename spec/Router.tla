------------------------------- MODULE Router -------------------------------
(***************************************************************************)
(* ROUTER addressing state (core/src/socket/patterns/router.rs RouterMap):  *)
(* a forward map identity -> connection and a reverse map read-pipe ->      *)
(* identity, updated when a connection attaches (placeholder identity),     *)
(* announces its identity (update_peer_identity), detaches, or is removed   *)
(* by identity.  Transcribed operation by operation.                        *)
(***************************************************************************)
EXTENDS Integers, Sequences, FiniteSets, TLC

CONSTANTS Pipes,       \* connection ids (read pipe ids; the uri is "uri" \o pipe)
          Ids,         \* identities peers may announce
          MaxOps

None == "none"
Placeholder(p) == "auto-" \o p       \* identity the ROUTER invents for a connection on attach

VARIABLES fwd,     \* identity -> pipe (the uri it would route to), None if absent
          rev,     \* pipe -> identity, None if absent
          live,    \* pipes currently attached
          announced, \* pipe -> identity the peer announced (None before / if anonymous)
          tainted,   \* identities that two live connections claimed at the same time at some point
          nops, hist
vars == <<fwd, rev, live, announced, tainted, nops, hist>>

AllIds == Ids \cup { Placeholder(p) : p \in Pipes }

Init == /\ fwd = [i \in AllIds |-> None] /\ rev = [p \in Pipes |-> None]
        /\ live = {} /\ announced = [p \in Pipes |-> None] /\ tainted = {} /\ nops = 0 /\ hist = <<>>

Snapshot(f, r) == [fwd |-> f, rev |-> r]

\* add_peer(identity, pipe, uri)
AddPeerEffect(f, r, i, p) ==
  LET f1 == [f EXCEPT ![i] = p]
      old == r[p]
      f2 == IF old # None /\ old # i THEN [f1 EXCEPT ![old] = None] ELSE f1
  IN <<f2, [r EXCEPT ![p] = i]>>

Attach(p) ==
  /\ nops < MaxOps /\ p \notin live
  /\ LET e == AddPeerEffect(fwd, rev, Placeholder(p), p) IN fwd' = e[1] /\ rev' = e[2]
  /\ live' = live \cup {p} /\ announced' = [announced EXCEPT ![p] = None]
  /\ nops' = nops + 1
  /\ hist' = Append(hist, [op |-> "attach", p |-> p, st |-> Snapshot(fwd', rev')])
  /\ UNCHANGED tainted

\* update_peer_identity(pipe, new_identity, uri, type)
Identify(p, i) ==
  /\ nops < MaxOps /\ p \in live /\ announced[p] = None
  /\ LET old == rev[p]
         f1 == IF old # None /\ old # i THEN [fwd EXCEPT ![old] = None] ELSE fwd
     IN fwd' = [f1 EXCEPT ![i] = p] /\ rev' = [rev EXCEPT ![p] = i]
  /\ announced' = [announced EXCEPT ![p] = i]
  /\ nops' = nops + 1
  /\ hist' = Append(hist, [op |-> "identify", p |-> p, i |-> i, st |-> Snapshot(fwd', rev')])
  /\ tainted' = IF \E q \in live : q # p /\ announced[q] = i THEN tainted \cup {i} ELSE tainted
  /\ UNCHANGED live

\* remove_peer_by_read_pipe(pipe): drops the reverse entry and the forward entry of that identity
\* (as the code does - also when another connection has meanwhile claimed the same identity)
Detach(p) ==
  /\ nops < MaxOps /\ p \in live
  /\ LET i == rev[p] IN
       /\ rev' = [rev EXCEPT ![p] = None]
       /\ fwd' = IF i # None THEN [fwd EXCEPT ![i] = None] ELSE fwd
  /\ live' = live \ {p} /\ announced' = [announced EXCEPT ![p] = None]
  /\ nops' = nops + 1
  /\ hist' = Append(hist, [op |-> "detach", p |-> p, st |-> Snapshot(fwd', rev')])
  /\ UNCHANGED tainted

Next == \E p \in Pipes : Attach(p) \/ Detach(p) \/ \E i \in Ids : Identify(p, i)
Spec == Init /\ [][Next]_vars

\* C11: a message addressed to identity I goes only to a live connection whose peer announced I
\* (or whose placeholder is I)
IdOf(p) == IF announced[p] # None THEN announced[p] ELSE Placeholder(p)
SendGoesToAnnouncer == \A i \in AllIds : fwd[i] # None => (fwd[i] \in live /\ IdOf(fwd[i]) = i)
\* C11: every received message is prefixed with the identity of the connection it came from
PrefixIsTruth == \A p \in live : rev[p] = IdOf(p)
\* a live connection whose identity was never claimed by two connections at once is routable
\* (after a collision rzmq keeps the newer claimant; when that one leaves, the identity is
\* unroutable until re-announced - outside what the property demands)
Routable == \A p \in live : IdOf(p) \notin tainted => fwd[IdOf(p)] = p

Terminal == nops = MaxOps
=============================================================================
