\* C06/C07 quick: every secured role and NULL against the full attacker grammar, depth 5
CONSTANTS
  Cfgs <- Secured
  Depth = 6
  MaxPending = 2
  AllowCuts = FALSE
  Grammar <- Attack
INIT Init
NEXT Next
VIEW view
CHECK_DEADLOCK FALSE
INVARIANTS NoBypass PlainClientPath NoDataBeforeHc NoV2WhenRefused PartialBounded
PROPERTIES ClosedStays
