----------------------------- MODULE MC_Inproc -----------------------------
EXTENDS Inproc
TypeOf == [A |-> "PUSH", B |-> "PULL", C |-> "PUB"]
Compat == {<<"PUSH", "PULL">>, <<"PULL", "PUSH">>, <<"PUB", "SUB">>, <<"SUB", "PUB">>,
           <<"REQ", "REP">>, <<"REP", "REQ">>, <<"DEALER", "ROUTER">>, <<"ROUTER", "DEALER">>}
=============================================================================
