-------------------------------- MODULE Rpq --------------------------------
(***************************************************************************)
(* ReadyPipeQueue (core/src/socket/patterns/ready_pipe_queue.rs): the      *)
(* receive-side fan-in of every socket.  Each connection ("pipe") owns a   *)
(* bounded SPSC channel plus two counters; a shared bounded "ready list"   *)
(* carries at most one token per pipe that has committed items.  Producers *)
(* (session actors) enqueue with send / try_send / try_send_batch,         *)
(* consumers (recv calls) dequeue with pop / try_pop.                      *)
(*                                                                         *)
(* One action per atomic operation of the code, in the code's order; the   *)
(* label names are the names of the verif_point!() hooks that separate     *)
(* them, so a TLC behaviour is a schedule the controlled scheduler can     *)
(* replay on the real ReadyPipeQueue step by step.                         *)
(***************************************************************************)
EXTENDS Integers, Sequences, FiniteSets, TLC

CONSTANTS Pipes,       \* pipe ids (one producer each)
          Cons,        \* consumer ids
          Cap,         \* per-pipe channel capacity
          ReadyCap,    \* capacity of the ready list (>= number of pipes in the code's contract)
          Scripts,     \* set of producer scripts: sequences over {"send","try","batch"}
          ConsModes,   \* set of consumer modes: "pop" | "trypop"
          BatchN,      \* items per try_send_batch call
          MaxCancel,   \* cancellations the environment may inject
          MaxDereg     \* deregistrations the environment may inject

VARIABLES chan, queued, reserved, registered, ready,
          script, ppc, pitem, pprev, pb,     \* producer: remaining script, label, next item no, prev, batch record
          cmode, cpc, cslot, cprev, cgot,    \* consumer: mode, label, held slot, prev, item in hand
          got,                               \* items dequeued for the application, per pipe, in dequeue order
          lost,                              \* items whose enqueue was refused / cancelled (never accepted)
          ncancel, ndereg, hist

vars == <<chan, queued, reserved, registered, ready, script, ppc, pitem, pprev, pb,
          cmode, cpc, cslot, cprev, cgot, got, lost, ncancel, ndereg, hist>>
view == <<chan, queued, reserved, registered, ready, script, ppc, pitem, pprev, pb,
          cmode, cpc, cslot, cprev, cgot, got, lost, ncancel, ndereg>>

None == "none"

Init == /\ chan = [p \in Pipes |-> <<>>]
        /\ queued = [p \in Pipes |-> 0] /\ reserved = [p \in Pipes |-> 0]
        /\ registered = [p \in Pipes |-> TRUE]
        /\ ready = <<>>
        /\ script \in [Pipes -> Scripts]
        /\ ppc = [p \in Pipes |-> "idle"] /\ pitem = [p \in Pipes |-> 1]
        /\ pprev = [p \in Pipes |-> 0] /\ pb = [p \in Pipes |-> [n |-> 0, sent |-> 0, zero |-> FALSE]]
        /\ cmode \in [Cons -> ConsModes]
        /\ cpc = [c \in Cons |-> "idle"] /\ cslot = [c \in Cons |-> None]
        /\ cprev = [c \in Cons |-> 0] /\ cgot = [c \in Cons |-> 0]
        /\ got = [p \in Pipes |-> <<>>] /\ lost = [p \in Pipes |-> {}]
        /\ ncancel = 0 /\ ndereg = 0 /\ hist = <<>>

\* History record of one step, with the projection the replay compares against the real queue.
Log(who, lbl) == hist' = Append(hist, [t |-> who, l |-> lbl, q |-> queued', r |-> reserved',
                                        cl |-> [p \in Pipes |-> Len(chan'[p])], rl |-> Len(ready')])

\* Strong references to a slot: the map entry, tokens in the ready list, consumers and
\* producers in the middle of an operation.  upgrade() of the producer's Weak succeeds iff > 0.
Holders(p) == (IF registered[p] THEN 1 ELSE 0)
              + Cardinality({ i \in 1..Len(ready) : ready[i] = p })
              + Cardinality({ c \in Cons : cslot[c] = p })
              + (IF ppc[p] \notin {"idle", "done"} THEN 1 ELSE 0)

UNCH_P == UNCHANGED <<cmode, cpc, cslot, cprev, cgot, got, ncancel, ndereg>>
UNCH_C == UNCHANGED <<script, ppc, pitem, pprev, pb, lost, ncancel, ndereg>>

---------------------------------------------------------------------------
(* Producer: ReadyPipeSender::send  (S1 reserve, S2 channel write, S3 count, S4 arm) *)

Op(p) == Head(script[p])
Finish(p) == /\ script' = [script EXCEPT ![p] = Tail(@)]
             /\ ppc' = [ppc EXCEPT ![p] = IF Len(script[p]) = 1 THEN "done" ELSE "idle"]

SendS1(p) ==   \* upgrade + SendReservation::new
  /\ ppc[p] = "idle" /\ script[p] # <<>> /\ Op(p) = "send"
  /\ IF Holders(p) = 0
       THEN /\ Finish(p) /\ lost' = [lost EXCEPT ![p] = @ \cup {pitem[p]}]     \* Err(ConnectionClosed)
            /\ pitem' = [pitem EXCEPT ![p] = @ + 1]
            /\ UNCHANGED reserved
       ELSE /\ reserved' = [reserved EXCEPT ![p] = @ + 1]
            /\ ppc' = [ppc EXCEPT ![p] = "send.reserved"]
            /\ UNCHANGED <<script, lost, pitem>>
  /\ UNCH_P /\ UNCHANGED <<chan, queued, registered, ready, pprev, pb>>

SendS2(p) ==   \* slot.tx.try_send, or the blocking tx.send(..).await when full
  /\ ppc[p] = "send.reserved" /\ Len(chan[p]) < Cap
  /\ chan' = [chan EXCEPT ![p] = Append(@, pitem[p])]
  /\ ppc' = [ppc EXCEPT ![p] = "send.written"]
  /\ UNCH_P /\ UNCHANGED <<queued, reserved, registered, ready, script, pitem, pprev, pb, lost>>

SendS3(p) ==   \* queued_count.fetch_add(1); reservation.commit()
  /\ ppc[p] = "send.written"
  /\ pprev' = [pprev EXCEPT ![p] = queued[p]]
  /\ queued' = [queued EXCEPT ![p] = @ + 1]
  /\ ppc' = [ppc EXCEPT ![p] = "send.counted"]
  /\ UNCH_P /\ UNCHANGED <<chan, reserved, registered, ready, script, pitem, pb, lost>>

SendS4(p) ==   \* if prev == 0 { ready_tx.send(slot).await }
  /\ ppc[p] = "send.counted"
  /\ IF pprev[p] = 0 THEN Len(ready) < ReadyCap /\ ready' = Append(ready, p) ELSE ready' = ready
  /\ Finish(p) /\ pitem' = [pitem EXCEPT ![p] = @ + 1]
  /\ UNCH_P /\ UNCHANGED <<chan, queued, reserved, registered, pprev, pb, lost>>

(* Producer: try_send  (T1 reserve, T2 channel try_send or roll back, T3 count, T4 arm) *)
TryT1(p) ==
  /\ ppc[p] = "idle" /\ script[p] # <<>> /\ Op(p) = "try"
  /\ IF Holders(p) = 0
       THEN /\ Finish(p) /\ lost' = [lost EXCEPT ![p] = @ \cup {pitem[p]}]
            /\ pitem' = [pitem EXCEPT ![p] = @ + 1] /\ UNCHANGED reserved
       ELSE /\ reserved' = [reserved EXCEPT ![p] = @ + 1]
            /\ ppc' = [ppc EXCEPT ![p] = "try.reserved"]
            /\ UNCHANGED <<script, lost, pitem>>
  /\ UNCH_P /\ UNCHANGED <<chan, queued, registered, ready, pprev, pb>>

TryT2(p) ==
  /\ ppc[p] = "try.reserved"
  /\ IF Len(chan[p]) < Cap
       THEN /\ chan' = [chan EXCEPT ![p] = Append(@, pitem[p])]
            /\ ppc' = [ppc EXCEPT ![p] = "try.written"]
            /\ UNCHANGED <<reserved, script, lost, pitem>>
       ELSE /\ reserved' = [reserved EXCEPT ![p] = @ - 1]          \* Full: reservation dropped, item refused
            /\ lost' = [lost EXCEPT ![p] = @ \cup {pitem[p]}]
            /\ pitem' = [pitem EXCEPT ![p] = @ + 1]
            /\ Finish(p) /\ UNCHANGED chan
  /\ UNCH_P /\ UNCHANGED <<queued, registered, ready, pprev, pb>>

TryT3(p) ==
  /\ ppc[p] = "try.written"
  /\ pprev' = [pprev EXCEPT ![p] = queued[p]]
  /\ queued' = [queued EXCEPT ![p] = @ + 1]
  /\ ppc' = [ppc EXCEPT ![p] = "try.counted"]
  /\ UNCH_P /\ UNCHANGED <<chan, reserved, registered, ready, script, pitem, pb, lost>>

TryT4(p) ==    \* spin on ready_tx.try_send: enabled only when there is room
  /\ ppc[p] = "try.counted"
  /\ IF pprev[p] = 0 THEN Len(ready) < ReadyCap /\ ready' = Append(ready, p) ELSE ready' = ready
  /\ Finish(p) /\ pitem' = [pitem EXCEPT ![p] = @ + 1]
  /\ UNCH_P /\ UNCHANGED <<chan, queued, reserved, registered, pprev, pb, lost>>

(* Producer: try_send_batch of BatchN items
   (B1 bulk reserve, then per item B2 write + B3 count, B4 roll back the rest, B5 arm once) *)
BatB1(p) ==
  /\ ppc[p] = "idle" /\ script[p] # <<>> /\ Op(p) = "batch"
  /\ IF Holders(p) = 0
       THEN /\ Finish(p) /\ lost' = [lost EXCEPT ![p] = @ \cup (pitem[p]..(pitem[p] + BatchN - 1))]
            /\ pitem' = [pitem EXCEPT ![p] = @ + BatchN] /\ UNCHANGED <<reserved, pb>>
       ELSE /\ reserved' = [reserved EXCEPT ![p] = @ + BatchN]
            /\ pb' = [pb EXCEPT ![p] = [n |-> BatchN, sent |-> 0, zero |-> FALSE]]
            /\ ppc' = [ppc EXCEPT ![p] = "batch.reserved"]
            /\ UNCHANGED <<script, lost, pitem>>
  /\ UNCH_P /\ UNCHANGED <<chan, queued, registered, ready, pprev>>

BatB2(p) ==    \* one try_send of the loop; Full ends the loop
  /\ ppc[p] = "batch.reserved"
  /\ IF pb[p].sent < pb[p].n /\ Len(chan[p]) < Cap
       THEN /\ chan' = [chan EXCEPT ![p] = Append(@, pitem[p] + pb[p].sent)]
            /\ ppc' = [ppc EXCEPT ![p] = "batch.written"]
       ELSE /\ ppc' = [ppc EXCEPT ![p] = "batch.loopdone"] /\ UNCHANGED chan
  /\ UNCH_P /\ UNCHANGED <<queued, reserved, registered, ready, script, pitem, pprev, pb, lost>>

BatB3(p) ==    \* inline queued_count.fetch_add(1)
  /\ ppc[p] = "batch.written"
  /\ queued' = [queued EXCEPT ![p] = @ + 1]
  /\ pb' = [pb EXCEPT ![p] = [@ EXCEPT !.sent = @ + 1, !.zero = @ \/ (queued[p] = 0)]]
  \* the loop ends without another try_send once the input deque is empty
  /\ ppc' = [ppc EXCEPT ![p] = IF pb[p].sent + 1 = pb[p].n THEN "batch.loopdone" ELSE "batch.reserved"]
  /\ UNCH_P /\ UNCHANGED <<chan, reserved, registered, ready, script, pitem, pprev, lost>>

BatB4(p) ==    \* roll back reservations of the items that were not pushed
  /\ ppc[p] = "batch.loopdone"
  /\ reserved' = [reserved EXCEPT ![p] = @ - (pb[p].n - pb[p].sent)]
  /\ lost' = [lost EXCEPT ![p] = @ \cup ((pitem[p] + pb[p].sent)..(pitem[p] + pb[p].n - 1))]
  /\ ppc' = [ppc EXCEPT ![p] = "batch.rolledback"]
  /\ UNCH_P /\ UNCHANGED <<chan, queued, registered, ready, script, pitem, pprev, pb>>

BatB5(p) ==
  /\ ppc[p] = "batch.rolledback"
  /\ IF pb[p].zero THEN Len(ready) < ReadyCap /\ ready' = Append(ready, p) ELSE ready' = ready
  /\ Finish(p) /\ pitem' = [pitem EXCEPT ![p] = @ + pb[p].n]
  /\ UNCH_P /\ UNCHANGED <<chan, queued, reserved, registered, pprev, pb, lost>>

---------------------------------------------------------------------------
(* Consumer: pop  (P1 take a token, P2 try_recv, P3 counters, P4 re-arm) *)

PopP1(c) ==
  /\ cmode[c] = "pop" /\ cpc[c] = "idle" /\ ready # <<>>
  /\ cslot' = [cslot EXCEPT ![c] = Head(ready)] /\ ready' = Tail(ready)
  /\ cpc' = [cpc EXCEPT ![c] = "pop.token"]
  /\ UNCH_C /\ UNCHANGED <<chan, queued, reserved, registered, cmode, cprev, cgot, got>>

PopP2(c) ==
  /\ cpc[c] = "pop.token"
  /\ LET p == cslot[c] IN
     IF chan[p] = <<>>
       THEN /\ cpc' = [cpc EXCEPT ![c] = "idle"] /\ cslot' = [cslot EXCEPT ![c] = None]   \* stale token: continue
            /\ UNCHANGED <<chan, cgot, got>>
       ELSE /\ cgot' = [cgot EXCEPT ![c] = Head(chan[p])]
            /\ chan' = [chan EXCEPT ![p] = Tail(@)]
            /\ got' = [got EXCEPT ![p] = Append(@, Head(chan[p]))]    \* linearisation point of the dequeue
            /\ cpc' = [cpc EXCEPT ![c] = "pop.item"] /\ UNCHANGED cslot
  /\ UNCH_C /\ UNCHANGED <<queued, reserved, registered, ready, cmode, cprev>>

PopP3(c) ==
  /\ cpc[c] = "pop.item"
  /\ LET p == cslot[c] IN
       /\ cprev' = [cprev EXCEPT ![c] = queued[p]]
       /\ queued' = [queued EXCEPT ![p] = @ - 1]
       /\ reserved' = [reserved EXCEPT ![p] = @ - 1]
  /\ cpc' = [cpc EXCEPT ![c] = "pop.counted"]
  /\ UNCH_C /\ UNCHANGED <<chan, registered, ready, cmode, cslot, cgot, got>>

PopP4(c) ==    \* if prev > 1 { ready_tx.send(slot).await }; return (pipe, item)
  /\ cpc[c] = "pop.counted"
  /\ LET p == cslot[c] IN
       /\ IF cprev[c] > 1 THEN Len(ready) < ReadyCap /\ ready' = Append(ready, p) ELSE ready' = ready
  /\ cpc' = [cpc EXCEPT ![c] = "idle"] /\ cslot' = [cslot EXCEPT ![c] = None]
  /\ UNCH_C /\ UNCHANGED <<chan, queued, reserved, registered, cmode, cprev, cgot, got>>

(* Consumer: try_pop  (Q1 try to take a token, Q2 try_recv, Q3 counters, Q4 re-arm) *)
TpopQ1(c) ==
  /\ cmode[c] = "trypop" /\ cpc[c] = "idle" /\ ready # <<>>
  \* (on an empty ready list try_pop returns None: a stuttering step, not modelled)
  /\ cslot' = [cslot EXCEPT ![c] = Head(ready)] /\ ready' = Tail(ready)
  /\ cpc' = [cpc EXCEPT ![c] = "trypop.token"]
  /\ UNCH_C /\ UNCHANGED <<chan, queued, reserved, registered, cmode, cprev, cgot, got>>

TpopQ2(c) ==
  /\ cpc[c] = "trypop.token"
  /\ LET p == cslot[c] IN
     IF chan[p] = <<>>
       THEN /\ cpc' = [cpc EXCEPT ![c] = "idle"] /\ cslot' = [cslot EXCEPT ![c] = None]   \* stale: return None
            /\ UNCHANGED <<chan, cgot, got>>
       ELSE /\ cgot' = [cgot EXCEPT ![c] = Head(chan[p])]
            /\ chan' = [chan EXCEPT ![p] = Tail(@)]
            /\ got' = [got EXCEPT ![p] = Append(@, Head(chan[p]))]
            /\ cpc' = [cpc EXCEPT ![c] = "trypop.item"] /\ UNCHANGED cslot
  /\ UNCH_C /\ UNCHANGED <<queued, reserved, registered, ready, cmode, cprev>>

TpopQ3(c) ==
  /\ cpc[c] = "trypop.item"
  /\ LET p == cslot[c] IN
       /\ cprev' = [cprev EXCEPT ![c] = queued[p]]
       /\ queued' = [queued EXCEPT ![p] = @ - 1]
       /\ reserved' = [reserved EXCEPT ![p] = @ - 1]
  /\ cpc' = [cpc EXCEPT ![c] = "trypop.counted"]
  /\ UNCH_C /\ UNCHANGED <<chan, registered, ready, cmode, cslot, cgot, got>>

TpopQ4(c) ==   \* if prev > 1 { let _ = ready_tx.try_send(slot) }  - dropped silently if the list is full
  /\ cpc[c] = "trypop.counted"
  /\ LET p == cslot[c] IN
       /\ IF cprev[c] > 1 /\ Len(ready) < ReadyCap THEN ready' = Append(ready, p) ELSE ready' = ready
  /\ cpc' = [cpc EXCEPT ![c] = "idle"] /\ cslot' = [cslot EXCEPT ![c] = None]
  /\ UNCH_C /\ UNCHANGED <<chan, queued, reserved, registered, cmode, cprev, cgot, got>>

---------------------------------------------------------------------------
(* Environment: cancellation of a blocked future, deregistration of a pipe *)

\* send() dropped while blocked on the full channel: the reservation guard rolls back; the item
\* is gone with the future (never accepted).
CancelSend(p) ==
  /\ ncancel < MaxCancel /\ ppc[p] = "send.reserved" /\ Len(chan[p]) >= Cap
  /\ reserved' = [reserved EXCEPT ![p] = @ - 1]
  /\ lost' = [lost EXCEPT ![p] = @ \cup {pitem[p]}]
  /\ pitem' = [pitem EXCEPT ![p] = @ + 1]
  /\ Finish(p) /\ ncancel' = ncancel + 1
  /\ UNCHANGED <<chan, queued, registered, ready, pprev, pb, cmode, cpc, cslot, cprev, cgot, got, ndereg>>

\* pop() dropped while blocked on the empty ready list holds nothing: it is a no-op on the
\* shared state (the consumer simply calls again) - represented by the absence of a step.

Deregister(p) ==
  /\ ndereg < MaxDereg /\ registered[p]
  /\ registered' = [registered EXCEPT ![p] = FALSE]
  /\ ndereg' = ndereg + 1
  /\ UNCHANGED <<chan, queued, reserved, ready, script, ppc, pitem, pprev, pb,
                 cmode, cpc, cslot, cprev, cgot, got, lost, ncancel>>

ProdStep(p) == \/ (SendS1(p) /\ Log(p, "send.S1")) \/ (SendS2(p) /\ Log(p, "send.S2"))
               \/ (SendS3(p) /\ Log(p, "send.S3")) \/ (SendS4(p) /\ Log(p, "send.S4"))
               \/ (TryT1(p) /\ Log(p, "try.T1")) \/ (TryT2(p) /\ Log(p, "try.T2"))
               \/ (TryT3(p) /\ Log(p, "try.T3")) \/ (TryT4(p) /\ Log(p, "try.T4"))
               \/ (BatB1(p) /\ Log(p, "batch.B1")) \/ (BatB2(p) /\ Log(p, "batch.B2"))
               \/ (BatB3(p) /\ Log(p, "batch.B3")) \/ (BatB4(p) /\ Log(p, "batch.B4"))
               \/ (BatB5(p) /\ Log(p, "batch.B5"))
ConsStep(c) == \/ (PopP1(c) /\ Log(c, "pop.P1")) \/ (PopP2(c) /\ Log(c, "pop.P2"))
               \/ (PopP3(c) /\ Log(c, "pop.P3")) \/ (PopP4(c) /\ Log(c, "pop.P4"))
               \/ (TpopQ1(c) /\ Log(c, "trypop.Q1")) \/ (TpopQ2(c) /\ Log(c, "trypop.Q2"))
               \/ (TpopQ3(c) /\ Log(c, "trypop.Q3")) \/ (TpopQ4(c) /\ Log(c, "trypop.Q4"))

Next == \/ \E p \in Pipes : ProdStep(p) \/ (CancelSend(p) /\ Log(p, "cancel.send")) \/ (Deregister(p) /\ Log(p, "dereg"))
        \/ \E c \in Cons : ConsStep(c)

Fair == /\ \A p \in Pipes : WF_vars(ProdStep(p))
        /\ \A c \in Cons : WF_vars(ConsStep(c))
Spec == Init /\ [][Next]_vars /\ Fair

---------------------------------------------------------------------------
(* Properties *)

TokensInReady(p) == Cardinality({ i \in 1..Len(ready) : ready[i] = p })
\* a consumer that holds the pipe's token (and will either find the channel empty or re-arm)
ConsHolds(c, p) == cslot[c] = p /\ (cpc[c] \in {"pop.token", "pop.item", "trypop.token", "trypop.item"}
                                    \/ (cpc[c] \in {"pop.counted", "trypop.counted"} /\ cprev[c] > 1))
\* a producer that has decided to arm the pipe and has not done it yet
ProdArms(p) == \/ (ppc[p] \in {"send.counted", "try.counted"} /\ pprev[p] = 0)
               \/ (ppc[p] \in {"batch.reserved", "batch.written", "batch.loopdone", "batch.rolledback"} /\ pb[p].zero)
Tokens(p) == TokensInReady(p) + Cardinality({ c \in Cons : ConsHolds(c, p) }) + (IF ProdArms(p) THEN 1 ELSE 0)

TypeOK == /\ \A p \in Pipes : queued[p] >= 0 /\ reserved[p] >= 0 /\ Len(chan[p]) <= Cap
          /\ Len(ready) <= ReadyCap

\* each pipe is represented at most once among tokens-in-flight
AtMostOneToken == \A p \in Pipes : Tokens(p) <= 1
\* C08, the heart of it: a pipe with a committed item always has a token somewhere
\* (otherwise every consumer can go to sleep while the item sits there: a lost wake-up).
\* try_pop may drop its re-arm when the ready list is full; ReadyCap >= |Pipes| excludes that.
NoLostToken == \A p \in Pipes : queued[p] > 0 => Tokens(p) >= 1
\* counters never go below what they count
NoUnderflow == \A p \in Pipes : queued[p] <= Len(chan[p]) + Cardinality({ c \in Cons : cslot[c] = p /\ cpc[c] \in {"pop.item", "trypop.item"} })
ReservedCovers == \A p \in Pipes : reserved[p] >= queued[p]
\* per-pipe FIFO, exactly once: what came out is a strictly increasing run of accepted items
Fifo == \A p \in Pipes : \A i \in 1..Len(got[p]) :
           /\ got[p][i] \notin lost[p]
           /\ (i > 1 => got[p][i - 1] < got[p][i])
\* nothing accepted is skipped: the items out are exactly the accepted items below the last one out
NoGap == \A p \in Pipes : \A i \in 1..Len(got[p]) :
           Cardinality({ x \in 1..got[p][i] : x \notin lost[p] }) = i

ProdDone == \A p \in Pipes : ppc[p] = "done" \/ script[p] = <<>>
Accepted(p) == { x \in 1..(pitem[p] - 1) : x \notin lost[p] }
AllOut == \A p \in Pipes : Cardinality(Accepted(p)) = Len(got[p])
\* C08 liveness: with consumers that keep calling, everything accepted comes out.
\* (try_pop-only consumers are retried by their caller: modelled by fairness on ConsStep.)
Live == <>[](ProdDone => AllOut)
\* safety form of "no lost wake-up": when nothing can move, nothing is left behind
NoStuck == (~ENABLED Next) => (ProdDone => AllOut)

Terminal == ~ENABLED Next
=============================================================================
