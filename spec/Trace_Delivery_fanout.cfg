CONSTANTS
  Fanout = TRUE
SPECIFICATION TSpec
CHECK_DEADLOCK FALSE
INVARIANTS AtMostOnce
POSTCONDITION Accepted
