\* C06: exhaustive export of the role-confusion family (see RoleAttack): 6 tokens written blindly,
\* then read one token at a time or all at once
CONSTANTS
  Cfgs <- Secured
  Depth = 6
  MaxPending = 6
  AllowCuts = FALSE
  Grammar <- RoleAttack
INIT Init
NEXT Next
ACTION_CONSTRAINT BlindSchedule
CHECK_DEADLOCK FALSE
INVARIANTS NoBypass PlainClientPath NoDataBeforeHc Export
