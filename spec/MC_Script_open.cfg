\* C04/C07: NULL endpoints (v3 and v2 peers), data in any read, cuts allowed
CONSTANTS
  Cfgs <- Open
  Depth = 6
  MaxPending = 3
  AllowCuts = TRUE
  Grammar <- Attack
INIT Init
NEXT Next
VIEW view
CHECK_DEADLOCK FALSE
INVARIANTS NoBypass NoDataBeforeHc NoV2WhenRefused PartialBounded
