----------------------------- MODULE MC_Wire -----------------------------
EXTENDS Wire, Json

Unlimited == -1

\* Behaviour export: one line per terminal state reached (see tools/vlib.py).
Export == Terminal => PrintT(<<"REPLAY", ToJson([frames |-> sent, reads |-> hist, maxmsg |-> MaxMsg])>>)
=============================================================================
