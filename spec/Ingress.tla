------------------------------- MODULE Ingress -------------------------------
(***************************************************************************)
(* The receive side of PULL / SUB (core/src/socket/patterns/                *)
(* anonymous_ingress.rs): whole multipart messages arrive from several       *)
(* connections into one queue; the application reads them frame by frame     *)
(* (recv) or whole (recv_multipart), in any mix, while connections detach.   *)
(* A message that recv() has started to hand out is kept in a local cache.   *)
(***************************************************************************)
EXTENDS Integers, Sequences, FiniteSets, TLC

CONSTANTS Pipes, MaxMsgs, MaxFrames, MaxOps

VARIABLES queue,    \* per connection: messages waiting, sequence of [id, n] (n frames); the order
                    \* in which connections are served is not specified (ready-list order)
          cache,    \* frames of the message being read that recv() has not handed out yet: [id, from, n] (id 0 = none)
          live,     \* attached pipes
          nmsgs, nops,
          out,      \* frames handed to the application, in order: [id, k, n, more]
          hist
vars == <<queue, cache, live, nmsgs, nops, out, hist>>

NoCache == [id |-> 0, from |-> 0, n |-> 0, p |-> ""]

Init == /\ queue = [p \in Pipes |-> <<>>] /\ cache = NoCache /\ live = Pipes /\ nmsgs = 0 /\ nops = 0 /\ out = <<>> /\ hist = <<>>

Frames(id, from, n) == [k \in 1..(n - from + 1) |-> [id |-> id, k |-> from + k - 1, n |-> n, more |-> (from + k - 1 < n)]]

\* a connection delivers a whole message of n frames
Arrive(p, n) ==
  /\ nops < MaxOps /\ nmsgs < MaxMsgs /\ p \in live
  /\ queue' = [queue EXCEPT ![p] = Append(@, [id |-> nmsgs + 1, n |-> n, p |-> p])]
  /\ nmsgs' = nmsgs + 1 /\ nops' = nops + 1
  /\ hist' = Append(hist, [op |-> "arrive", p |-> p, n |-> n, id |-> nmsgs + 1])
  /\ UNCHANGED <<cache, live, out>>

NonEmpty == { p \in Pipes : queue[p] # <<>> }

\* recv(): one frame
Recv ==
  /\ nops < MaxOps
  /\ IF cache # NoCache
       THEN /\ out' = Append(out, [id |-> cache.id, k |-> cache.from, n |-> cache.n, more |-> (cache.from < cache.n), p |-> cache.p])
            /\ cache' = IF cache.from = cache.n THEN NoCache ELSE [cache EXCEPT !.from = @ + 1]
            /\ UNCHANGED queue
            /\ hist' = Append(hist, [op |-> "recv", got |-> [id |-> cache.id, k |-> cache.from, more |-> (cache.from < cache.n)]])
       ELSE IF NonEmpty # {}
         THEN \E p \in NonEmpty : LET m == Head(queue[p]) IN
              /\ out' = Append(out, [id |-> m.id, k |-> 1, n |-> m.n, more |-> (1 < m.n), p |-> p])
              /\ cache' = IF m.n = 1 THEN NoCache ELSE [id |-> m.id, from |-> 2, n |-> m.n, p |-> p]
              /\ queue' = [queue EXCEPT ![p] = Tail(@)]
              /\ hist' = Append(hist, [op |-> "recv", got |-> [id |-> m.id, k |-> 1, more |-> (1 < m.n)]])
         ELSE /\ UNCHANGED <<out, cache, queue>>
              /\ hist' = Append(hist, [op |-> "recv", got |-> [id |-> 0]])
  /\ nops' = nops + 1
  /\ UNCHANGED <<live, nmsgs>>

FramesP(id, from, n, p) == [k \in 1..(n - from + 1) |-> [id |-> id, k |-> from + k - 1, n |-> n, more |-> (from + k - 1 < n), p |-> p]]

\* recv_multipart(): the rest of the message being read, or the next whole message
RecvMp ==
  /\ nops < MaxOps
  /\ IF cache # NoCache
       THEN /\ out' = out \o FramesP(cache.id, cache.from, cache.n, cache.p)
            /\ cache' = NoCache /\ UNCHANGED queue
            /\ hist' = Append(hist, [op |-> "recvmp", got |-> [id |-> cache.id, from |-> cache.from, n |-> cache.n]])
       ELSE IF NonEmpty # {}
         THEN \E p \in NonEmpty : LET m == Head(queue[p]) IN
              /\ out' = out \o FramesP(m.id, 1, m.n, p)
              /\ queue' = [queue EXCEPT ![p] = Tail(@)] /\ UNCHANGED cache
              /\ hist' = Append(hist, [op |-> "recvmp", got |-> [id |-> m.id, from |-> 1, n |-> m.n]])
         ELSE /\ UNCHANGED <<out, cache, queue>>
              /\ hist' = Append(hist, [op |-> "recvmp", got |-> [id |-> 0]])
  /\ nops' = nops + 1
  /\ UNCHANGED <<live, nmsgs>>

\* a connection goes away: messages it already handed over stay readable - in particular the
\* one the application is in the middle of reading
Detach(p) ==
  /\ nops < MaxOps /\ p \in live
  /\ live' = live \ {p}
  /\ nops' = nops + 1
  /\ hist' = Append(hist, [op |-> "detach", p |-> p])
  /\ UNCHANGED <<queue, cache, nmsgs, out>>

Next == \/ \E p \in Pipes : (\E n \in 1..MaxFrames : Arrive(p, n)) \/ Detach(p)
        \/ Recv \/ RecvMp
Spec == Init /\ [][Next]_vars

\* C02: what the application is handed is a sequence of whole messages (the last one possibly
\* still being read): frame k of message id follows frame k-1 of the same message, a new message
\* starts only after the previous one's last frame, MORE is set on all but the last frame
Whole == \A i \in 1..Len(out) :
   /\ out[i].more = (out[i].k < out[i].n)
   /\ IF out[i].k = 1 THEN (i = 1 \/ ~out[i - 1].more)
      ELSE (i > 1 /\ out[i - 1].id = out[i].id /\ out[i - 1].k = out[i].k - 1)
\* messages of one connection come out in arrival order, each once (C08's per-connection order)
InOrderOnce == \A i, j \in 1..Len(out) : (i < j /\ out[i].k = 1 /\ out[j].k = 1 /\ out[i].p = out[j].p) => out[i].id < out[j].id

Terminal == nops = MaxOps
=============================================================================
