\* C05 verdict table over ZMTP/3.x: all 11 x 11 socket-type pairs (NULL), token-granular schedules
CONSTANTS
  CfgsA <- AllA
  CfgsB <- AllB
  MaxMsgs = 0
  MaxFrames = 1
  AllowCuts = FALSE
SPECIFICATION Spec
VIEW view
CHECK_DEADLOCK FALSE
INVARIANTS NoStall IncompatibleNeverUp CompatibleNeverFails Agree
PROPERTIES Converge BothFail
