------------------------------ MODULE SubSync ------------------------------
(***************************************************************************)
(* What a SUB socket puts on the wire towards each publisher               *)
(* (core/src/socket/sub_socket.rs: set_pattern_option, pipe_attached,       *)
(* send_subscription_command_to_all).  rzmq's own PUB does not filter, so   *)
(* none of this is visible between two rzmq sockets; a publisher that       *)
(* filters at its own end (libzmq's PUB / XPUB does) only sends what the    *)
(* subscriptions it was TOLD about match.  The contract towards such a      *)
(* publisher: on every live connection, the SUBSCRIBE / CANCEL messages     *)
(* sent so far, folded the way a publisher folds them (a set per            *)
(* connection), give exactly the topics that are active in the SUB socket - *)
(* for subscriptions made before connect(), for connections that came back  *)
(* after a loss, and for topics subscribed more than once.                  *)
(*                                                                         *)
(* One action per step of the code:                                        *)
(*   Subscribe(t)   trie.subscribe; one SUBSCRIBE to every attached peer    *)
(*                  (also when t was active already)                        *)
(*   Unsubscribe(t) trie.unsubscribe; a CANCEL to every attached peer only  *)
(*                  when the last reference went                            *)
(*   Attach(p)      pipe_attached: one SUBSCRIBE per active topic to p      *)
(*                  (in no particular order: `sync` is a set)               *)
(*   Drop(p)        the connection is lost (the peer's view starts empty    *)
(*                  again at the next Attach)                               *)
(***************************************************************************)
EXTENDS Integers, Sequences, FiniteSets, TLC

CONSTANTS Topics, Peers, MaxOps, MaxCount

VARIABLES subs,   \* topic -> reference count in the SUB socket
          up,     \* peer -> BOOLEAN: a connection to it is attached
          wire,   \* peer -> [sync : set of topics sent at attach, cmds : sequence of <<kind, topic>> sent since]
          nops, hist
vars == <<subs, up, wire, nops, hist>>

Active == { t \in Topics : subs[t] > 0 }

\* how a filtering publisher folds what it was sent on one connection
RECURSIVE FoldCmds(_, _)
FoldCmds(s, cs) == IF cs = <<>> THEN s
                   ELSE FoldCmds(IF Head(cs)[1] = "sub" THEN s \cup {Head(cs)[2]} ELSE s \ {Head(cs)[2]}, Tail(cs))
View(p) == FoldCmds(wire[p].sync, wire[p].cmds)

Empty == [sync |-> {}, cmds |-> <<>>]

Init == /\ subs = [t \in Topics |-> 0]
        /\ up = [p \in Peers |-> FALSE]
        /\ wire = [p \in Peers |-> Empty]
        /\ nops = 0 /\ hist = <<>>

Exp(u, w) == [p \in Peers |-> [up |-> u[p], sync |-> w[p].sync, cmds |-> w[p].cmds]]

Subscribe(t) ==
  /\ nops < MaxOps /\ subs[t] < MaxCount
  /\ subs' = [subs EXCEPT ![t] = @ + 1]
  /\ wire' = [p \in Peers |-> IF up[p] THEN [wire[p] EXCEPT !.cmds = Append(@, <<"sub", t>>)] ELSE wire[p]]
  /\ UNCHANGED up
  /\ nops' = nops + 1
  /\ hist' = Append(hist, [op |-> "sub", t |-> t, p |-> "", exp |-> Exp(up', wire')])

Unsubscribe(t) ==
  /\ nops < MaxOps
  /\ subs' = [subs EXCEPT ![t] = IF @ > 0 THEN @ - 1 ELSE 0]
  /\ wire' = [p \in Peers |-> IF up[p] /\ subs[t] = 1 THEN [wire[p] EXCEPT !.cmds = Append(@, <<"cancel", t>>)] ELSE wire[p]]
  /\ UNCHANGED up
  /\ nops' = nops + 1
  /\ hist' = Append(hist, [op |-> "unsub", t |-> t, p |-> "", exp |-> Exp(up', wire')])

Attach(p) ==
  /\ nops < MaxOps /\ ~up[p]
  /\ up' = [up EXCEPT ![p] = TRUE]
  /\ wire' = [wire EXCEPT ![p] = [sync |-> Active, cmds |-> <<>>]]
  /\ UNCHANGED subs
  /\ nops' = nops + 1
  /\ hist' = Append(hist, [op |-> "attach", t |-> "", p |-> p, exp |-> Exp(up', wire')])

Drop(p) ==
  /\ nops < MaxOps /\ up[p]
  /\ up' = [up EXCEPT ![p] = FALSE]
  /\ wire' = [wire EXCEPT ![p] = Empty]
  /\ UNCHANGED subs
  /\ nops' = nops + 1
  /\ hist' = Append(hist, [op |-> "drop", t |-> "", p |-> p, exp |-> Exp(up', wire')])

Next == (\E t \in Topics : Subscribe(t) \/ Unsubscribe(t)) \/ (\E p \in Peers : Attach(p) \/ Drop(p))
Spec == Init /\ [][Next]_vars

\* the contract: every attached publisher has been told exactly the active topics
Synced == \A p \in Peers : up[p] => View(p) = Active
\* nothing is sent on a connection that is not there
SilentWhenDown == \A p \in Peers : ~up[p] => wire[p] = Empty
\* a CANCEL is only ever sent for a topic the publisher had been told about
RECURSIVE CancelsKnown(_, _)
CancelsKnown(s, cs) == IF cs = <<>> THEN TRUE
                       ELSE /\ (Head(cs)[1] = "cancel" => Head(cs)[2] \in s)
                            /\ CancelsKnown(IF Head(cs)[1] = "sub" THEN s \cup {Head(cs)[2]} ELSE s \ {Head(cs)[2]}, Tail(cs))
NoBlindCancel == \A p \in Peers : CancelsKnown(wire[p].sync, wire[p].cmds)

Terminal == nops = MaxOps
StateView == <<subs, up, wire, nops>>
=============================================================================
