CONSTANTS
  Lingers = {0}
  MaxMsgs = 0
  MaxTime = 0
  PipeCap = 0
  SbufCap = 0
  WireCap = 0
  EventStops = FALSE
  StopDiscards = FALSE
  GreedyEofDrops = FALSE
  Tol = 25
  Slack = 2000
  Prompt = 1000
SPECIFICATION TraceSpec
POSTCONDITION TraceAccepted
CHECK_DEADLOCK FALSE
