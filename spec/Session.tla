------------------------------ MODULE Session ------------------------------
(***************************************************************************)
(* The egress side of the session actor (core/src/sessionx/actor.rs): how   *)
(* messages move from the socket's pipe into framed batches.  Two branches  *)
(* assemble a batch - "pull from core" (select! arm, taken only when the    *)
(* carry-over is empty) and "carry-over drain" (top of the loop) - under    *)
(* four limits: SNDBATCH_COUNT, the logical byte limit SNDBATCH_BYTES, the   *)
(* physical byte limit (page-rounded slot size) and the HWM budget.         *)
(* Overflowing messages go to the carry-over queue.  Transcribed branch by  *)
(* branch; sizes are wire sizes (payload + 9) in abstract units.            *)
(***************************************************************************)
EXTENDS Integers, Sequences, FiniteSets, TLC

CONSTANTS N,          \* messages the application sends (ids 1..N, in order)
          Sizes,      \* abstract wire sizes a message may have
          PipeCap,    \* capacity of the core->session pipe (SNDHWM)
          MaxCount,   \* SNDBATCH_COUNT
          LogMax,     \* SNDBATCH_BYTES (logical limit)
          PhysMax,    \* physical limit
          SndHwm,     \* SNDHWM as used for the egress budget
          TopUpOnlyWhenCarryEmpty   \* TRUE: the carry-over branch tops up from the pipe only once the
                                    \* carry-over queue is empty (FALSE reproduces the overtaking)

VARIABLES size,       \* id -> wire size (chosen when the message is produced)
          produced,   \* number of messages handed to the pipe so far
          pipe, carry,\* sequences of ids
          egress,     \* sequence of batches (each a sequence of ids) framed and not yet written
          wire,       \* ids in the order they were framed (= order on the wire)
          hist

vars == <<size, produced, pipe, carry, egress, wire, hist>>
view == <<size, produced, pipe, carry, egress, wire>>

Min(a, b) == IF a < b THEN a ELSE b
Max(a, b) == IF a > b THEN a ELSE b
Pending == LET RECURSIVE Sum(_) Sum(s) == IF s = <<>> THEN 0 ELSE Len(Head(s)) + Sum(Tail(s)) IN Sum(egress)

Init == /\ size = <<>> /\ produced = 0 /\ pipe = <<>> /\ carry = <<>> /\ egress = <<>> /\ wire = <<>> /\ hist = <<>>

Produce(sz) ==
  /\ produced < N /\ Len(pipe) < PipeCap
  /\ produced' = produced + 1
  /\ size' = Append(size, sz)
  /\ pipe' = Append(pipe, produced + 1)
  /\ hist' = Append(hist, [a |-> "produce", sz |-> sz])
  /\ UNCHANGED <<carry, egress, wire>>

\* actor.rs 335-344: move messages from the carry-over into the batch while they fit
RECURSIVE DrainCarry(_, _, _, _)
DrainCarry(c, b, tot, maxCnt) ==
  IF c = <<>> \/ Len(b) >= maxCnt THEN <<c, b, tot>>
  ELSE LET m == Head(c) IN
       IF tot + size[m] > PhysMax /\ b # <<>> THEN <<c, b, tot>>
       ELSE DrainCarry(Tail(c), Append(b, m), tot + size[m], maxCnt)

\* actor.rs 370-381 / 626-637: scan what was pulled from the pipe; the first message that does
\* not fit the physical limit and everything after it go to the carry-over
RECURSIVE Scan(_, _, _)
Scan(b, i, tot) ==
  IF i > Len(b) THEN <<b, <<>>>>
  ELSE IF tot + size[b[i]] > PhysMax /\ i > 1 THEN <<SubSeq(b, 1, i - 1), SubSeq(b, i, Len(b))>>
  ELSE Scan(b, i + 1, tot + size[b[i]])

\* actor.rs 347-384 / 612-640: top the batch up from the pipe
TopUp(b, tot, maxCnt, p, dfltAvg) ==
  LET start == Len(b) IN
  IF start < maxCnt /\ tot < LogMax THEN
    LET avg  == IF start > 0 THEN tot \div start ELSE dfltAvg
        rem  == IF PhysMax > tot THEN PhysMax - tot ELSE 0
        need == Min(maxCnt - start, IF avg > 0 THEN rem \div avg ELSE 0)
        take == Min(need, Len(p))
        sc   == Scan(b \o SubSeq(p, 1, take), start + 1, tot)
    IN <<sc[1], sc[2], SubSeq(p, take + 1, Len(p))>>       \* <<batch, overflow, rest of pipe>>
  ELSE <<b, <<>>, p>>

\* top of the operational loop: drain the carry-over (taken whenever it is non-empty)
CarryBranch ==
  /\ carry # <<>> /\ Pending < SndHwm
  /\ LET maxCnt == Min(MaxCount, Max(SndHwm - Pending, 1))
         d == DrainCarry(carry, <<>>, 0, maxCnt)
         t == IF TopUpOnlyWhenCarryEmpty /\ d[1] # <<>> THEN <<d[2], <<>>, pipe>>
              ELSE TopUp(d[2], d[3], maxCnt, pipe, PhysMax)
     IN /\ carry' = d[1] \o t[2]
        /\ pipe' = t[3]
        /\ egress' = Append(egress, t[1])
        /\ wire' = wire \o t[1]
        /\ hist' = Append(hist, [a |-> "carry", batch |-> t[1]])
  /\ UNCHANGED <<size, produced>>

\* select! arm "Outgoing from SocketCore" (guard: carry-over empty, budget left)
PullFromCore ==
  /\ carry = <<>> /\ pipe # <<>> /\ Pending < SndHwm
  /\ LET f == Head(pipe)
         maxCnt == Min(MaxCount, Max(SndHwm - Pending, 1))
         t == TopUp(<<f>>, size[f], maxCnt, Tail(pipe), 1)
     IN /\ carry' = t[2]
        /\ pipe' = t[3]
        /\ egress' = Append(egress, t[1])
        /\ wire' = wire \o t[1]
        /\ hist' = Append(hist, [a |-> "pull", batch |-> t[1]])
  /\ UNCHANGED <<size, produced>>

\* the socket takes the oldest framed batch
Written ==
  /\ egress # <<>>
  /\ egress' = Tail(egress)
  /\ hist' = Append(hist, [a |-> "written"])
  /\ UNCHANGED <<size, produced, pipe, carry, wire>>

Next == (\E sz \in Sizes : Produce(sz)) \/ CarryBranch \/ PullFromCore \/ Written
Spec == Init /\ [][Next]_vars /\ WF_vars(CarryBranch) /\ WF_vars(PullFromCore) /\ WF_vars(Written)

\* C01: messages reach the wire in the order they were accepted, each once
InOrder == \A i \in 1..Len(wire) : wire[i] = i
\* nothing is dropped on the way: every produced message is in exactly one place
Conserved == Len(wire) + Len(carry) + Len(pipe) = produced
\* the number of messages framed and not yet written stays within the HWM plus one batch (C14)
EgressBound == Pending <= SndHwm + MaxCount
AllOut == <>[](produced = N => Len(wire) = N)

Terminal == produced = N /\ Len(wire) = N /\ egress = <<>>
=============================================================================
