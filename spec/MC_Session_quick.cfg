CONSTANTS
  N = 6
  Sizes = {1, 6}
  PipeCap = 5
  MaxCount = 5
  LogMax = 5
  PhysMax = 6
  SndHwm = 8
  TopUpOnlyWhenCarryEmpty = TRUE
SPECIFICATION Spec
VIEW view
CHECK_DEADLOCK FALSE
INVARIANTS InOrder Conserved EgressBound
PROPERTIES AllOut
