CONSTANTS
  PeerIds = {"a", "b", "c"}
  MaxOps = 14
  Waiters = {}
INIT Init
NEXT Next
CHECK_DEADLOCK FALSE
INVARIANTS RouteOk Export
