-------------------------------- MODULE Uring --------------------------------
(***************************************************************************)
(* The resources of the io_uring backend (C20): the registered send-buffer  *)
(* pool used for SEND_ZC, the provided-buffer ring the kernel fills on      *)
(* receive, and the table of connection handlers keyed by file descriptor.  *)
(*                                                                         *)
(*  send_buffer_pool.rs  acquire_lease / acquire_and_prep_buffer take an id *)
(*        off the free list; release_buffer puts it back - on the NOTIFY    *)
(*        completion of the send, when the submission fails, when a lease   *)
(*        is dropped unused, and for every send still in flight when its    *)
(*        connection is closed.                                             *)
(*  provided_buffer_ring.rs  a slot is always lent to the kernel except     *)
(*        inside take(): the filled buffer is handed to the application and *)
(*        a fresh one provided in the same step.                            *)
(*  worker/handler_manager.rs, cqe_processor.rs  a handler is added when a  *)
(*        connection is accepted / connected, a Close SQE is queued once,   *)
(*        its completion removes the handler; the kernel may then hand the  *)
(*        same fd number to a new connection.                               *)
(***************************************************************************)
EXTENDS Integers, FiniteSets, TLC

CONSTANTS Bufs,          \* ids of the send-buffer pool
          Slots,         \* buffer ids of the provided ring
          Fds,           \* fd numbers the kernel may hand out
          MaxOps

VARIABLES free,          \* subset of Bufs on the free list
          owner,         \* [Bufs -> Fds \cup {0}]  (0: none)  connection whose send holds the buffer
          lent,          \* subset of Slots currently lent to the kernel
          held,          \* number of filled buffers the application still holds
          fd,            \* [Fds -> "closed" | "open" | "closing"]
          ops
vars == <<free, owner, lent, held, fd, ops>>

Init == /\ free = Bufs /\ owner = [b \in Bufs |-> 0]
        /\ lent = Slots /\ held = 0
        /\ fd = [f \in Fds |-> "closed"] /\ ops = 0

Tick == ops < MaxOps /\ ops' = ops + 1

\* a connection is accepted or connected: the kernel picks any fd that is not open
Open(f) == /\ Tick /\ fd[f] = "closed" /\ fd' = [fd EXCEPT ![f] = "open"]
           /\ UNCHANGED <<free, owner, lent, held>>

\* a zero-copy send takes a buffer; with none free the data goes the copying way (no state)
Acquire(f, b) == /\ Tick /\ fd[f] = "open" /\ b \in free
                 /\ free' = free \ {b} /\ owner' = [owner EXCEPT ![b] = f]
                 /\ UNCHANGED <<lent, held, fd>>

\* NOTIFY completion, failed submission, or an unused lease dropped
Release(b) == /\ Tick /\ b \notin free /\ owner[b] # 0
              /\ free' = free \cup {b} /\ owner' = [owner EXCEPT ![b] = 0]
              /\ UNCHANGED <<lent, held, fd>>

\* the kernel filled slot s: take() hands it over and provides a fresh buffer in the same step
Take(s) == /\ Tick /\ s \in lent /\ held' = held + 1
           /\ UNCHANGED <<free, owner, lent, fd>>
\* the application drops the Bytes: the buffer goes back to the recycling pool
Drop == /\ Tick /\ held > 0 /\ held' = held - 1 /\ UNCHANGED <<free, owner, lent, fd>>

\* the handler asks for its fd to be closed: one Close SQE
QueueClose(f) == /\ Tick /\ fd[f] = "open" /\ fd' = [fd EXCEPT ![f] = "closing"]
                 /\ UNCHANGED <<free, owner, lent, held>>

\* the Close completes: handler removed, every send of that fd still in flight gives its buffer back
Closed(f) == /\ Tick /\ fd[f] = "closing"
             /\ fd' = [fd EXCEPT ![f] = "closed"]
             /\ free' = free \cup {b \in Bufs : owner[b] = f}
             /\ owner' = [b \in Bufs |-> IF owner[b] = f THEN 0 ELSE owner[b]]
             /\ UNCHANGED <<lent, held>>

Next == \/ \E f \in Fds : Open(f) \/ QueueClose(f) \/ Closed(f)
        \/ \E f \in Fds, b \in Bufs : Acquire(f, b)
        \/ \E b \in Bufs : Release(b)
        \/ \E s \in Slots : Take(s)
        \/ Drop
Spec == Init /\ [][Next]_vars

---------------------------------------------------------------------------
\* every buffer is either free or held by exactly one send of a connection that still has a handler
PoolConservation == \A b \in Bufs : (b \in free) <=> (owner[b] = 0)
NoOrphanBuffers  == \A b \in Bufs : owner[b] # 0 => fd[owner[b]] \in {"open", "closing"}
\* the ring never runs dry
RingFull == lent = Slots
\* once every connection is gone the whole pool is free again
QuiescentClean == (\A f \in Fds : fd[f] = "closed") => free = Bufs
=============================================================================
