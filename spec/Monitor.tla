------------------------------- MODULE Monitor -------------------------------
(***************************************************************************)
(* The socket monitor: what an application that keeps draining the monitor  *)
(* channel of one socket is told about that socket's endpoints.             *)
(*                                                                         *)
(* Two layers, deliberately separate:                                       *)
(*                                                                         *)
(*  - the OBSERVER (Obs*, Step): the contract an application can rely on,   *)
(*    as an automaton over the events.  A listener is Listening until it is *)
(*    Closed; a connection is announced (Accepted / Connected), may then    *)
(*    complete its handshake once, and is taken back by exactly one         *)
(*    Disconnected / HandshakeFailed; retries are reported only between a   *)
(*    ConnectDelayed and the next Connected.  The same operators judge the  *)
(*    event streams recorded from real sockets (Trace_Monitor.tla).         *)
(*                                                                         *)
(*  - the SYSTEM: listener, connecter, session and socket core as the       *)
(*    places where rzmq calls send_monitor_event / try_send on the monitor  *)
(*    channel (tcp.rs accept loop and connect loop, sessionx/actor.rs after *)
(*    the pipes are attached, pipe_manager.rs clean-up, shutdown.rs final   *)
(*    clean-up), with close() at any moment.  TLC checks that every event   *)
(*    the system can emit is accepted by the observer and that after close  *)
(*    everything that was announced has been taken back.                    *)
(***************************************************************************)
EXTENDS Integers, Sequences, FiniteSets, TLC, MonitorObs

CONSTANTS Listeners,      \* endpoints the socket binds
          Targets,        \* endpoints the socket connects to
          Peers,          \* remote peers that connect to a listener (connection = peer address)
          MaxSteps

Conns == Peers \cup Targets            \* a connection is named by the peer's address / the target

\* ------------------------------------------------------------------ system
VARIABLES lst,      \* listener actor: "none" | "up" | "gone"
          cnr,      \* connecter actor per target: "none" | "try" | "wait" | "done" | "gone"
          fails,    \* failed attempts of the running connecter
          ses,      \* session per connection: "none" | "hs" | "ready" | "stopping" (told the core) | "gone"
          kind,     \* per connection: "in" | "out"
          via,      \* per inbound connection: its listener
          phase,    \* socket core: "running" | "closing" | "closed"
          obs,      \* the observer's state after the events emitted so far
          steps
vars == <<lst, cnr, fails, ses, kind, via, phase, obs, steps>>

Emit(ev) == obs' = Step(obs, ev)
Tick == steps < MaxSteps /\ steps' = steps + 1     \* only the environment's steps are counted
NoTick == UNCHANGED steps

Init == /\ lst = [l \in Listeners |-> "none"] /\ cnr = [t \in Targets |-> "none"] /\ fails = [t \in Targets |-> 0]
        /\ ses = [c \in Conns |-> "none"] /\ kind = [c \in Conns |-> IF c \in Targets THEN "out" ELSE "in"]
        /\ via = [c \in Peers |-> "-"]
        /\ phase = "running" /\ obs = ObsInit(Listeners, Conns, Targets) /\ steps = 0

\* bind(): the core starts the listener and reports Listening (command_processor.rs)
Bind(l) == /\ NoTick /\ phase = "running" /\ lst[l] = "none"
           /\ lst' = [lst EXCEPT ![l] = "up"] /\ Emit([k |-> "Listening", e |-> l, c |-> "-"])
           /\ UNCHANGED <<cnr, fails, ses, kind, via, phase>>

\* accept loop: a peer connects; Accepted is sent by the listener, the session starts its handshake
Accept(l, p) == /\ Tick /\ lst[l] = "up" /\ ses[p] \in {"none", "gone"}
                /\ ses' = [ses EXCEPT ![p] = "hs"] /\ via' = [via EXCEPT ![p] = l]
                /\ Emit([k |-> "Accepted", e |-> l, c |-> p])
                /\ UNCHANGED <<lst, cnr, fails, kind, phase>>

\* connect(): the core spawns a connecter
Connect(t) == /\ NoTick /\ phase = "running" /\ cnr[t] = "none" /\ ses[t] \in {"none", "gone"}
              /\ cnr' = [cnr EXCEPT ![t] = "try"] /\ fails' = [fails EXCEPT ![t] = 0]
              /\ UNCHANGED <<lst, ses, kind, via, phase, obs>>

\* an attempt fails: the first failure reports ConnectDelayed, then the connecter waits
AttemptFails(t) == /\ Tick /\ cnr[t] = "try"
                   /\ cnr' = [cnr EXCEPT ![t] = "wait"] /\ fails' = [fails EXCEPT ![t] = @ + 1]
                   /\ IF fails[t] = 0 THEN Emit([k |-> "ConnectDelayed", e |-> t, c |-> "-"]) ELSE UNCHANGED obs
                   /\ UNCHANGED <<lst, ses, kind, via, phase>>
\* the delay is over: ConnectRetried, next attempt
Retry(t) == /\ NoTick /\ cnr[t] = "wait"
            /\ cnr' = [cnr EXCEPT ![t] = "try"] /\ Emit([k |-> "ConnectRetried", e |-> t, c |-> "-"])
            /\ UNCHANGED <<lst, fails, ses, kind, via, phase>>
\* an attempt succeeds: Connected, the session starts, the connecter is done
AttemptOk(t) == /\ Tick /\ cnr[t] = "try"
                /\ cnr' = [cnr EXCEPT ![t] = "done"] /\ ses' = [ses EXCEPT ![t] = "hs"]
                /\ Emit([k |-> "Connected", e |-> t, c |-> t])
                /\ UNCHANGED <<lst, fails, kind, via, phase>>

\* the session finished its handshake and got its pipes: HandshakeSucceeded (sessionx/actor.rs)
HsOk(c) == /\ NoTick /\ ses[c] = "hs"
           /\ ses' = [ses EXCEPT ![c] = "ready"] /\ Emit([k |-> "HandshakeSucceeded", e |-> c, c |-> c])
           /\ UNCHANGED <<lst, cnr, fails, kind, via, phase>>

\* the session ends (fault, peer gone, handshake failure, or the socket closing): it tells the core
SessionEnds(c) == /\ NoTick /\ ses[c] \in {"hs", "ready"}
                  /\ ses' = [ses EXCEPT ![c] = "stopping"]
                  /\ UNCHANGED <<lst, cnr, fails, kind, via, phase, obs>>
\* the core cleans up (pipe_manager.rs): Disconnected or HandshakeFailed; a lost outbound connection
\* is respawned as a connecter while the socket runs
CoreCleans(c, failed) ==
  /\ NoTick /\ ses[c] = "stopping"
  /\ ses' = [ses EXCEPT ![c] = "gone"]
  /\ Emit([k |-> IF failed /\ obs.con[c] = "raw" THEN "HandshakeFailed" ELSE "Disconnected", e |-> c, c |-> c])
  /\ IF kind[c] = "out" /\ phase = "running"
       THEN cnr' = [cnr EXCEPT ![c] = "try"] /\ fails' = [fails EXCEPT ![c] = 0]
       ELSE UNCHANGED <<cnr, fails>>
  /\ UNCHANGED <<lst, kind, via, phase>>

\* close(): listeners are stopped first (each reports Closed when it has stopped), connecters are
\* aborted, sessions are told to stop; the final clean-up reports what is still registered
Close == /\ NoTick /\ phase = "running" /\ phase' = "closing"
         /\ UNCHANGED <<lst, cnr, fails, ses, kind, via, obs>>
ListenerStops(l) == /\ NoTick /\ phase = "closing" /\ lst[l] = "up"
                    /\ lst' = [lst EXCEPT ![l] = "gone"] /\ Emit([k |-> "Closed", e |-> l, c |-> "-"])
                    /\ UNCHANGED <<cnr, fails, ses, kind, via, phase>>
ConnecterStops(t) == /\ NoTick /\ phase = "closing" /\ cnr[t] \in {"try", "wait"}
                     /\ cnr' = [cnr EXCEPT ![t] = "gone"]
                     /\ UNCHANGED <<lst, fails, ses, kind, via, phase, obs>>
Finish == /\ NoTick /\ phase = "closing"
          /\ \A l \in Listeners : lst[l] # "up"
          /\ \A t \in Targets : cnr[t] \notin {"try", "wait"}
          /\ \A c \in Conns : ses[c] \in {"none", "gone"}
          /\ phase' = "closed"
          /\ UNCHANGED <<lst, cnr, fails, ses, kind, via, obs>>

Next == \/ \E l \in Listeners : Bind(l) \/ ListenerStops(l) \/ \E p \in Peers : Accept(l, p)
        \/ \E t \in Targets : Connect(t) \/ AttemptFails(t) \/ Retry(t) \/ AttemptOk(t) \/ ConnecterStops(t)
        \/ \E c \in Conns : HsOk(c) \/ SessionEnds(c) \/ \E f \in BOOLEAN : CoreCleans(c, f)
        \/ Close \/ Finish
Spec == Init /\ [][Next]_vars
        /\ WF_vars(Finish) /\ \A l \in Listeners : WF_vars(ListenerStops(l))
        /\ \A t \in Targets : WF_vars(ConnecterStops(t))
        /\ \A c \in Conns : WF_vars(phase = "closing" /\ SessionEnds(c)) /\ WF_vars(\E f \in BOOLEAN : CoreCleans(c, f))

---------------------------------------------------------------------------
\* every event the system emits is one the contract allows
ObserverAccepts == obs.ok
\* once closed, everything announced has been taken back
CleanWhenClosed == phase = "closed" => ObsClean(obs)
\* the observer's picture is the system's (a refinement check in the other direction)
ObsMatches == /\ \A l \in Listeners : (obs.lis[l] = "listening") = (lst[l] = "up")
              /\ \A c \in Conns : (obs.con[c] = "ready") => ses[c] \in {"ready", "stopping"}
              /\ \A c \in Conns : (obs.con[c] = "none") = (ses[c] \in {"none", "gone"})
Bounded == steps <= MaxSteps
\* close() always gets there
Closes == (phase = "closing") ~> (phase = "closed")
=============================================================================
