CONSTANTS
  Alphabet = {"a", "b"}
  MaxTopicLen = 3
  MaxMsgLen = 4
  MaxOps = 10
INIT Init
NEXT Next
CHECK_DEADLOCK FALSE
INVARIANTS RefCount Export
