CONSTANTS
  PeerIds = {"a", "b", "c"}
  MaxOps = 9
  Waiters = {"w1"}
SPECIFICATION Spec
VIEW view
CHECK_DEADLOCK FALSE
INVARIANTS RouteOk CursorInRange WaiterWakes WaitingIsRegistered
