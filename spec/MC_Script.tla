---------------------------- MODULE MC_Script ----------------------------
EXTENDS Script, Json

C(srv, st, id, mech, allowV2) == [srv |-> srv, st |-> st, id |-> id, mech |-> mech, good |-> TRUE, allowV2 |-> allowV2]

\* engines under attack: every secured role, plus NULL with and without ZMTP/2.0
Secured == { C(TRUE, "PULL", "", "PLAIN", TRUE), C(FALSE, "PULL", "", "PLAIN", TRUE),
             C(TRUE, "PULL", "", "ENC", TRUE),   C(FALSE, "PULL", "", "ENC", TRUE),
             C(TRUE, "PULL", "", "PLAIN", FALSE), C(FALSE, "PULL", "", "ENC", FALSE) }
Open    == { C(TRUE, "PULL", "", "NULL", TRUE), C(TRUE, "PULL", "", "NULL", FALSE), C(FALSE, "ROUTER", "r", "NULL", TRUE) }

AllCfgs == Secured \cup Open

Partner(st) == IF st = "PULL" THEN "PUSH" ELSE "DEALER"

Ids(c) == IF c.mech = "ENC" THEN {""} ELSE {"", "z"}

Frames(c) ==
     { Fr(TRUE, FALSE, BReady(st, id)) : st \in {Partner(c.st), "PUB"}, id \in Ids(c) }
  \cup { Fr(TRUE, FALSE, BMech(i, FALSE)) : i \in 1..3 }
  \cup { Fr(FALSE, FALSE, BMech(1, FALSE)) }
  \cup { Fr(TRUE, FALSE, BError), Fr(TRUE, FALSE, BUnk), Fr(TRUE, FALSE, BPing("c")), Fr(TRUE, TRUE, BUnk) }
  \cup { Fr(FALSE, FALSE, BData("x")), Fr(FALSE, TRUE, BData("x")), Fr(FALSE, FALSE, BBad) }
  \cup (IF c.mech = "ENC" THEN { Rec(<< SealFr(Fr(FALSE, FALSE, BData("x"))) >>, FALSE) } ELSE {})

\* The attacker grammar of C06 / C07.  The greeting is positional (10 + 1 + 53 bytes, or
\* 10 + 1 + 1 for ZMTP/2.0), so the peer picks the *content* of each slot; after the greeting
\* it may send any frame in any order.
Attack(c, s) ==
  IF Len(s) = 0 THEN { Sig(TRUE), Sig(FALSE) }
  ELSE IF Len(s) = 1 THEN { Rev(r) : r \in {0, 1, 2, 3, 4} }
  ELSE IF Len(s) = 2 THEN
    IF s[2].r = 1 THEN { T2(st) : st \in {Partner(c.st), "PUB", "BOGUS"} }
    ELSE { GTail(m, sv, ok) : m \in {"NULL", "PLAIN", "ENC", "BOGUS"}, sv \in BOOLEAN, ok \in BOOLEAN }
  ELSE Frames(c)

OpenOne == { C(TRUE, "PULL", "", "NULL", TRUE) }
\* honest NULL greeting + READY, then only data frames with / without MORE
MoreRuns(c, s) ==
  IF Len(s) = 0 THEN { Sig(TRUE) }
  ELSE IF Len(s) = 1 THEN { Rev(3) }
  ELSE IF Len(s) = 2 THEN { GTail("NULL", ~c.srv, TRUE) }
  ELSE IF Len(s) = 3 THEN { Fr(TRUE, FALSE, BReady(Partner(c.st), "")) }
  ELSE { Fr(FALSE, FALSE, BData("x")), Fr(FALSE, TRUE, BData("x")) }

AllTypes == { C(TRUE, st, "", "NULL", TRUE) : st \in SocketTypes }
\* a legacy peer: signature, revision 1, any socket-type byte, an identity frame
V2Peer(c, s) ==
  IF Len(s) = 0 THEN { Sig(TRUE) }
  ELSE IF Len(s) = 1 THEN { Rev(1) }
  ELSE IF Len(s) = 2 THEN { T2(st) : st \in SocketTypes }
  ELSE { Fr(FALSE, FALSE, BData("")) }
\* the ZMTP/2.0 handshake completes exactly for the valid pairings
V2Verdict == (Len(sent) = 4 /\ ch = <<>>) => ((Hc # {}) <=> Compat(cfg.st, sent[3].st))

\* C04: honest transcripts written blindly - a ZMTP/3 NULL or a ZMTP/2.0 handshake, then data
Transcript(c, s) ==
  IF Len(s) = 0 THEN { Sig(TRUE) }
  ELSE IF Len(s) = 1 THEN { Rev(3), Rev(1) }
  ELSE IF Len(s) = 2 THEN (IF s[2].r = 1 THEN { T2(Partner(c.st)) } ELSE { GTail("NULL", ~c.srv, TRUE) })
  ELSE IF Len(s) = 3 THEN (IF s[2].r = 1 THEN { Fr(FALSE, FALSE, BData("")) , Fr(FALSE, FALSE, BData("id")) }
                           ELSE { Fr(TRUE, FALSE, BReady(Partner(c.st), "")), Fr(TRUE, FALSE, BReady(Partner(c.st), "z")) })
  ELSE { Fr(FALSE, FALSE, BData("m" \o ToString(Len(s)))), Fr(FALSE, TRUE, BData("m" \o ToString(Len(s)))) }
         \cup (IF s[2].r = 1 THEN {} ELSE { Fr(TRUE, FALSE, BPing("c")) })

\* C04: PLAIN needs no secret the peer could not write down in advance: a blind PLAIN transcript for
\* either role (as client: HELLO with the right password; as server: WELCOME), READY, then data
PlainBoth == { C(TRUE, "PULL", "", "PLAIN", TRUE), C(FALSE, "PULL", "", "PLAIN", TRUE) }
TranscriptPlain(c, s) ==
  IF Len(s) = 0 THEN { Sig(TRUE) }
  ELSE IF Len(s) = 1 THEN { Rev(3) }
  ELSE IF Len(s) = 2 THEN { GTail("PLAIN", ~c.srv, TRUE) }
  ELSE IF Len(s) = 3 THEN { Fr(TRUE, FALSE, BMech(IF c.srv THEN 1 ELSE 2, TRUE)) }
  ELSE IF Len(s) = 4 THEN { Fr(TRUE, FALSE, BReady(Partner(c.st), "")) }
  ELSE { Fr(FALSE, FALSE, BData("m" \o ToString(Len(s)))), Fr(FALSE, TRUE, BData("m" \o ToString(Len(s)))) }

\* C06: role confusion.  A well-formed ZMTP/3 greeting that names the mechanism the target is
\* configured with, with either value of the as-server bit (so also the one that claims the
\* target's own role), then every sequence of mechanism commands of either side (without a valid
\* secret), READY and data - exported exhaustively, because random simulation over the full
\* grammar picks one such sequence in about 10^5.
RoleFrames(c) == { Fr(TRUE, FALSE, BMech(i, FALSE)) : i \in 1..3 }
            \cup { Fr(TRUE, FALSE, BReady(Partner(c.st), "")), Fr(FALSE, FALSE, BData("x")) }
RoleAttack(c, s) ==
  IF Len(s) = 0 THEN { Sig(TRUE) }
  ELSE IF Len(s) = 1 THEN { Rev(3) }
  ELSE IF Len(s) = 2 THEN { GTail(c.mech, sv, TRUE) : sv \in BOOLEAN }
  ELSE RoleFrames(c)
\* the peer writes its whole script before anything is read (so the script does not depend on what
\* the model of the engine does with it), then the reads are "one token" or "all that is left"
BlindSchedule == (Len(hist') > Len(hist) /\ hist'[Len(hist')].a = "deliver") =>
                   (Len(sent) = Depth /\ hist'[Len(hist')].k \in {1, Len(ch)})

Export == Terminal => PrintT(<<"REPLAY", ToJson([cfg |-> e.cfg, steps |-> hist])>>)
=============================================================================
