------------------------------- MODULE Egress -------------------------------
(***************************************************************************)
(* The session's write queue (core/src/sessionx/egress_buffer.rs): chunks   *)
(* of framed bytes, each worth a number of logical messages (0 for a PING / *)
(* PONG pushed with priority), written out by vectored writes that may end  *)
(* anywhere - inside a chunk, at a chunk boundary, several chunks further.  *)
(*                                                                         *)
(* The count of pending messages is what the session compares with SNDHWM   *)
(* before it takes more from the socket's pipe (C14): it must be exactly    *)
(* the messages of the chunks not yet fully written, whatever the write     *)
(* sizes were.  Priority chunks go in front, but never into a chunk that is *)
(* partly written (C19: never inside another frame).                        *)
(***************************************************************************)
EXTENDS Integers, Sequences, TLC, Json

CONSTANTS ChunkBytes,     \* possible chunk sizes
          ChunkMsgs,      \* possible message counts of a data chunk
          MaxOps

VARIABLES chunks,         \* sequence of [b |-> bytes, m |-> messages, id |-> number]
          off,            \* bytes of the head chunk already written
          written,        \* ids of the chunks in the order their first byte went out
          nid, nops,
          hist            \* the operations so far, with the expected observations (exported)
vars == <<chunks, off, written, nid, nops, hist>>

RECURSIVE SumM(_)
SumM(s) == IF s = <<>> THEN 0 ELSE Head(s).m + SumM(Tail(s))
RECURSIVE SumB(_)
SumB(s) == IF s = <<>> THEN 0 ELSE Head(s).b + SumB(Tail(s))
Pending == SumM(chunks)
Bytes == SumB(chunks) - off

Init == chunks = <<>> /\ off = 0 /\ written = <<>> /\ nid = 0 /\ nops = 0 /\ hist = <<>>

Obs == [pending |-> SumM(chunks'), bytes |-> SumB(chunks') - off', head |-> IF chunks' = <<>> THEN 0 ELSE Head(chunks').id,
        headleft |-> IF chunks' = <<>> THEN 0 ELSE Head(chunks').b - off']

Push(b, m) == /\ nops < MaxOps /\ nops' = nops + 1 /\ nid' = nid + 1
              /\ chunks' = Append(chunks, [b |-> b, m |-> m, id |-> nid + 1]) /\ UNCHANGED <<off, written>>
              /\ hist' = Append(hist, [op |-> "push", b |-> b, m |-> m, id |-> nid + 1, obs |-> Obs])

\* a control frame: in front, but behind a head chunk that is partly on the wire
PushPriority(b) ==
  /\ nops < MaxOps /\ nops' = nops + 1 /\ nid' = nid + 1
  /\ LET c == [b |-> b, m |-> 0, id |-> nid + 1] IN
     chunks' = IF off > 0 THEN <<Head(chunks), c>> \o Tail(chunks) ELSE <<c>> \o chunks
  /\ UNCHANGED <<off, written>>
  /\ hist' = Append(hist, [op |-> "prio", b |-> b, m |-> 0, id |-> nid + 1, obs |-> Obs])

\* n bytes were written: every chunk that is now completely out is dropped
RECURSIVE Drop(_, _, _)
Drop(cs, o, n) == IF cs = <<>> \/ n = 0 THEN <<cs, o>>
                  ELSE LET left == Head(cs).b - o IN
                       IF n >= left THEN Drop(Tail(cs), 0, n - left) ELSE <<cs, o + n>>
Advance(n) ==
  /\ nops < MaxOps /\ nops' = nops + 1 /\ n >= 1 /\ n <= Bytes
  /\ LET r == Drop(chunks, off, n) IN chunks' = r[1] /\ off' = r[2]
  /\ UNCHANGED <<written, nid>>
  /\ hist' = Append(hist, [op |-> "adv", b |-> n, m |-> Pending - SumM(chunks'), id |-> 0, obs |-> Obs])

Next == \/ \E b \in ChunkBytes, m \in ChunkMsgs : Push(b, m)
        \/ \E b \in ChunkBytes : PushPriority(b)
        \/ \E n \in 1..(IF Bytes > 0 THEN Bytes ELSE 0) : Advance(n)
Spec == Init /\ [][Next]_vars

---------------------------------------------------------------------------
\* a partly written chunk stays at the head: nothing is ever put in front of it or into it
HeadStays == off > 0 => (chunks # <<>> /\ off < Head(chunks).b)
\* the count is exact (by construction here; the implementation keeps a running counter)
CountExact == Pending = SumM(chunks) /\ Pending >= 0
Terminal == nops = MaxOps
Export == Terminal => PrintT(<<"REPLAY", ToJson([steps |-> hist])>>)
=============================================================================
