---------------------------- MODULE Trace_Rpq ----------------------------
(***************************************************************************)
(* Trace validation for Rpq.tla: schedules that the controlled scheduler   *)
(* ran on the real ReadyPipeQueue (seeded random choices) are replayed     *)
(* against the actions of Rpq.  Each record names the task and the step it *)
(* completed and carries the counters read from the real queue after the   *)
(* step; the specification must be able to take that very step and arrive  *)
(* at those very counters.  All invariants of Rpq are evaluated on the way.*)
(*                                                                         *)
(* Input: IOEnv.TRACE = JSON array of {setup: {...}, trace: [{t,l,q,r,cl,rl}]}, *)
(* all with the same Cap / ReadyCap / BatchN (constants of this run).      *)
(***************************************************************************)
EXTENDS Rpq, Json, IOUtils, TLCExt

Traces == JsonDeserialize(IOEnv.TRACE)

VARIABLES tidx, pos
tvars == <<vars, tidx, pos>>

PipeSeq == <<"p1", "p2", "p3">>
ConsSeq == <<"c1", "c2">>
PipeIdx(p) == CHOOSE i \in 1..Len(PipeSeq) : PipeSeq[i] = p
ConsIdx(c) == CHOOSE i \in 1..Len(ConsSeq) : ConsSeq[i] = c

T(i) == Traces[i].trace
ScriptOf(i, p) == IF PipeIdx(p) <= Len(Traces[i].setup.scripts) THEN Traces[i].setup.scripts[PipeIdx(p)] ELSE <<>>
ModeOf(i, c) == IF ConsIdx(c) <= Len(Traces[i].setup.modes) THEN Traces[i].setup.modes[ConsIdx(c)] ELSE "pop"

TraceInit ==
  /\ \E i \in 1..Len(Traces) :
       /\ tidx = i
       /\ script = [p \in Pipes |-> ScriptOf(i, p)]
       /\ cmode = [c \in Cons |-> ModeOf(i, c)]
       /\ TLCSet(i + 10, 1)
  /\ pos = 1
  /\ chan = [p \in Pipes |-> <<>>]
  /\ queued = [p \in Pipes |-> 0] /\ reserved = [p \in Pipes |-> 0]
  /\ registered = [p \in Pipes |-> TRUE] /\ ready = <<>>
  /\ ppc = [p \in Pipes |-> "idle"] /\ pitem = [p \in Pipes |-> 1]
  /\ pprev = [p \in Pipes |-> 0] /\ pb = [p \in Pipes |-> [n |-> 0, sent |-> 0, zero |-> FALSE]]
  /\ cpc = [c \in Cons |-> "idle"] /\ cslot = [c \in Cons |-> None]
  /\ cprev = [c \in Cons |-> 0] /\ cgot = [c \in Cons |-> 0]
  /\ got = [p \in Pipes |-> <<>>] /\ lost = [p \in Pipes |-> {}]
  /\ ncancel = 0 /\ ndereg = 0 /\ hist = <<>>

StepFor(t, l) ==
  CASE l = "send.S1" -> SendS1(t)   [] l = "send.S2" -> SendS2(t)
    [] l = "send.S3" -> SendS3(t)   [] l = "send.S4" -> SendS4(t)
    [] l = "try.T1" -> TryT1(t)     [] l = "try.T2" -> TryT2(t)
    [] l = "try.T3" -> TryT3(t)     [] l = "try.T4" -> TryT4(t)
    [] l = "batch.B1" -> BatB1(t)   [] l = "batch.B2" -> BatB2(t)
    [] l = "batch.B3" -> BatB3(t)   [] l = "batch.B4" -> BatB4(t)
    [] l = "batch.B5" -> BatB5(t)
    [] l = "pop.P1" -> PopP1(t)     [] l = "pop.P2" -> PopP2(t)
    [] l = "pop.P3" -> PopP3(t)     [] l = "pop.P4" -> PopP4(t)
    [] l = "trypop.Q1" -> TpopQ1(t) [] l = "trypop.Q2" -> TpopQ2(t)
    [] l = "trypop.Q3" -> TpopQ3(t) [] l = "trypop.Q4" -> TpopQ4(t)
    [] OTHER -> FALSE

TraceNext ==
  /\ pos <= Len(T(tidx))
  /\ LET ev == T(tidx)[pos] IN
       /\ StepFor(ev.t, ev.l)
       /\ \A p \in Pipes : PipeIdx(p) <= Len(ev.q) =>
             /\ queued'[p] = ev.q[PipeIdx(p)]
             /\ reserved'[p] = ev.r[PipeIdx(p)]
             /\ Len(chan'[p]) = ev.cl[PipeIdx(p)]
       /\ Len(ready') = ev.rl
  /\ pos' = pos + 1 /\ tidx' = tidx
  /\ hist' = hist
  /\ TLCSet(tidx + 10, pos + 1)

TraceSpec == TraceInit /\ [][TraceNext]_tvars

\* every trace was consumed to its end
Matched(i) == TLCGet(i + 10) - 1
AllAccepted ==
  LET bad == { i \in 1..Len(Traces) : Matched(i) # Len(T(i)) } IN
    /\ \A i \in bad : PrintT(<<"REJECTED", i, Matched(i), Len(T(i))>>)
    /\ bad = {}
=============================================================================
