-------------------------------- MODULE Hwm --------------------------------
(***************************************************************************)
(* Back-pressure at the API: a bounded queue of capacity Cap between a      *)
(* sender and a consumer that drains when it pleases, and send() calls with *)
(* SNDTIMEO in {0, T > 0, -1} over a bounded integer clock (the same shape  *)
(* holds for recv() with RCVTIMEO on an empty queue).                       *)
(* (core/src/sessionx/iface.rs, push_socket.rs, dealer_socket.rs,            *)
(*  anonymous_ingress.rs, addressed_ingress.rs)                             *)
(***************************************************************************)
EXTENDS Integers, Sequences, TLC

CONSTANTS Cap,        \* messages the path buffers in total (HWMs + fixed allowance)
          Timeos,     \* SNDTIMEO values to try: -1, 0, or a positive number of ticks
          MaxTime, MaxCalls

VARIABLES now, queue, calling,   \* calling: [timeo, since, id] or NoCall
          ncalls, log, delivered, accepted
vars == <<now, queue, calling, ncalls, log, delivered, accepted>>

NoCall == [timeo |-> -2, since |-> 0, id |-> 0]
Init == now = 0 /\ queue = <<>> /\ calling = NoCall /\ ncalls = 0 /\ log = <<>> /\ delivered = <<>> /\ accepted = <<>>

Tick == /\ now < MaxTime
        \* a call with a positive timeout does not outlive its deadline
        /\ ~(calling # NoCall /\ calling.timeo > 0 /\ now + 1 > calling.since + calling.timeo)
        /\ ~(calling # NoCall /\ calling.timeo = 0)
        /\ now' = now + 1 /\ UNCHANGED <<queue, calling, ncalls, log, delivered, accepted>>

Call(t) == /\ calling = NoCall /\ ncalls < MaxCalls
           /\ calling' = [timeo |-> t, since |-> now, id |-> ncalls + 1]
           /\ ncalls' = ncalls + 1 /\ UNCHANGED <<now, queue, log, delivered, accepted>>

\* there is room: the call succeeds (whatever its timeout)
Succeed == /\ calling # NoCall /\ Len(queue) < Cap
           /\ queue' = Append(queue, calling.id) /\ accepted' = Append(accepted, calling.id)
           /\ log' = Append(log, [id |-> calling.id, timeo |-> calling.timeo, res |-> "ok", dur |-> now - calling.since])
           /\ calling' = NoCall /\ UNCHANGED <<now, ncalls, delivered>>

\* no room: SNDTIMEO = 0 fails at once, a positive one exactly when it expires, -1 never
Fail == /\ calling # NoCall /\ Len(queue) >= Cap
        /\ \/ calling.timeo = 0
           \/ (calling.timeo > 0 /\ now >= calling.since + calling.timeo)
        /\ log' = Append(log, [id |-> calling.id, timeo |-> calling.timeo, res |-> "err", dur |-> now - calling.since])
        /\ calling' = NoCall /\ UNCHANGED <<now, queue, ncalls, delivered, accepted>>

Drain == /\ queue # <<>> /\ delivered' = Append(delivered, Head(queue)) /\ queue' = Tail(queue)
         /\ UNCHANGED <<now, calling, ncalls, log, accepted>>

Next == Tick \/ (\E t \in Timeos : Call(t)) \/ Succeed \/ Fail \/ Drain
Spec == Init /\ [][Next]_vars

\* C14
Timeo0   == \A i \in 1..Len(log) : (log[i].timeo = 0 /\ log[i].res = "err") => log[i].dur = 0
TimeoPos == \A i \in 1..Len(log) : (log[i].timeo > 0 /\ log[i].res = "err") => log[i].dur >= log[i].timeo
TimeoInf == \A i \in 1..Len(log) : log[i].timeo = -1 => log[i].res = "ok"
Bound    == Len(queue) <= Cap
\* what was refused is not delivered, what was accepted is delivered in order
RefusedNotDelivered == \A i \in 1..Len(log) : log[i].res = "err" => \A j \in 1..Len(delivered) : delivered[j] # log[i].id
DeliveredPrefix == Len(delivered) <= Len(accepted) /\ SubSeq(accepted, 1, Len(delivered)) = delivered
=============================================================================
