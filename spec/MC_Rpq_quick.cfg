\* 2 pipes x capacity 1, 2 consumers (pop / try_pop), all three enqueue paths, one cancellation
CONSTANTS
  Pipes = {"p1", "p2"}
  Cons = {"c1", "c2"}
  Cap = 1
  ReadyCap = 2
  Scripts <- ScriptsQuick
  ConsModes <- ModesAll
  BatchN = 2
  MaxCancel = 1
  MaxDereg = 0
SPECIFICATION Spec
VIEW view
CHECK_DEADLOCK FALSE
INVARIANTS TypeOK AtMostOneToken NoLostToken NoUnderflow ReservedCovers Fifo NoGap NoStuck
PROPERTIES Live
