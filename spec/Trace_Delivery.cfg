CONSTANTS
  Fanout = FALSE
SPECIFICATION TSpec
CHECK_DEADLOCK FALSE
INVARIANTS AtMostOnce
POSTCONDITION Accepted
