------------------------------ MODULE Script ------------------------------
(***************************************************************************)
(* One rzmq engine facing a scripted peer: an attacker that may put any    *)
(* token of the grammar on the wire (C06, C07), or a legacy ZMTP/2.0 peer  *)
(* / an honest transcript written blindly (C04).  The scripted side never  *)
(* knows a password or a secret key: it cannot originate a mechanism round *)
(* that has to verify (ok = TRUE where NeedsOk).                           *)
(*                                                                         *)
(* The attacker chooses tokens one at a time (at most MaxPending unread    *)
(* tokens sit in the channel, so "data in the same read as the handshake"  *)
(* is covered); the scheduler chooses the read boundaries as in Peer.tla.  *)
(***************************************************************************)
EXTENDS Engine

CONSTANTS Cfgs,         \* engine configurations under attack
          Depth,        \* tokens the peer may send
          MaxPending,   \* unread tokens allowed in the channel
          AllowCuts,
          Grammar(_, _) \* operator: (cfg, tokens sent so far) -> tokens the peer may send next

VARIABLES e, ch, back, app, sent, hist
vars == <<e, ch, back, app, sent, hist>>
view == <<e, ch, app, sent>>

cfg == e.cfg

Init == /\ \E c \in Cfgs : e = EInit(c)
        /\ ch = <<>> /\ back = EStartOut /\ app = <<>> /\ sent = <<>> /\ hist = <<>>

Cuttable(p) == p.part = "w" /\ p.tok.k \in {"sig", "tail", "fr", "rec"}
Take(c, k, cut) == IF cut THEN SubSeq(c, 1, k) \o << HeadOf(c[k + 1].tok) >> ELSE SubSeq(c, 1, k)
Leave(c, k, cut) == IF cut THEN << RestOf(c[k + 1].tok) >> \o SubSeq(c, k + 2, Len(c)) ELSE SubSeq(c, k + 1, Len(c))

Emit(t) ==
  /\ Len(sent) < Depth /\ Len(ch) < MaxPending /\ e.phase # "Closed"
  /\ ch' = Append(ch, Whole(t))
  /\ sent' = Append(sent, t)
  /\ hist' = Append(hist, [a |-> "emit", tok |-> t])
  /\ UNCHANGED <<e, back, app>>

Deliver(k, cut) ==
  /\ k \in 0..Len(ch) /\ (k > 0 \/ cut)
  /\ cut => (AllowCuts /\ k < Len(ch) /\ Cuttable(ch[k + 1]))
  /\ LET r == EOnBytes(e, Take(ch, k, cut)) IN
       /\ e' = r.e
       /\ back' = back \o r.net
       /\ app' = app \o r.app
       /\ ch' = Leave(ch, k, cut)
       /\ hist' = Append(hist, [a |-> "deliver", k |-> k, cut |-> cut, net |-> r.net, app |-> r.app,
                                proj |-> Proj(r.e)])
  /\ UNCHANGED sent

Next == \/ \E t \in Grammar(cfg, sent) : Emit(t)
        \/ \E k \in 0..Len(ch), c \in BOOLEAN : Deliver(k, c)

Spec == Init /\ [][Next]_vars

---------------------------------------------------------------------------
Hc == { i \in 1..Len(app) : app[i].a = "hc" }
Dl == { i \in 1..Len(app) : app[i].a = "deliver" }

\* The configured mechanism demands a proof from *this* peer.
PeerMustProve == \/ (cfg.mech = "PLAIN" /\ cfg.srv)        \* PLAIN server: client must know the password
                 \/ cfg.mech = "ENC"                       \* CURVE / Noise_XX: both directions authenticated

\* C06: a peer that cannot prove anything never gets a completed handshake or a delivered message.
NoBypass == PeerMustProve => (Hc = {} /\ Dl = {})

\* C06: a PLAIN *client* may complete (the server proves nothing in PLAIN) - but only over
\* ZMTP/3 with the PLAIN greeting, a WELCOME and a READY, never over NULL or ZMTP/2.0.
PlainClientPath == (cfg.mech = "PLAIN" /\ ~cfg.srv /\ Hc # {}) =>
   /\ e.ver = 3 /\ e.negotiated = "PLAIN"
   /\ \E i, j, l \in 1..Len(sent) : /\ i < j /\ j < l
         /\ sent[i].k = "tail" /\ sent[i].mech = "PLAIN"
         /\ sent[j].k = "fr" /\ sent[j].b.b = "mech" /\ sent[j].b.i = 2
         /\ sent[l].k = "fr" /\ sent[l].b.b = "ready"

\* Any configured mechanism: no message before the handshake completed.
NoDataBeforeHc == Dl # {} => (Hc # {} /\ \A i \in Dl : \E h \in Hc : h < i)

\* A NULL endpoint that refuses ZMTP/2.0 never completes with a revision-1 peer.
NoV2WhenRefused == (~cfg.allowV2) => e.ver # 2

\* C07: the model is total - every token in every phase leads to a defined state (TLC would
\* report an evaluation error otherwise) - and a closed engine stays closed.
ClosedStays == [][e.phase = "Closed" => e'.phase = "Closed"]_vars
\* C07: the partially assembled message is bounded.
PartialBounded == Len(e.partial) <= FrameCap

Terminal == (e.phase = "Closed" /\ ch = <<>>) \/ (Len(sent) = Depth /\ ch = <<>>)
=============================================================================
