--------------------------- MODULE Trace_Isolation ---------------------------
(***************************************************************************)
(* Recorded fault-injection runs of real sockets, checked against           *)
(* Isolation.tla (OnlyUserStops, FaultLocal, ComesBack) and the delay        *)
(* clauses of Backoff.tla (Starts / NeverBelow, Geometric, Capped) with a    *)
(* clock tolerance.  The variables of Isolation are set from what was        *)
(* observed; its invariant is evaluated on every state.                      *)
(* Records:                                                                  *)
(*   reset   {socks: [name..], conns: [[name, owner, outbound]..]}           *)
(*   up      {conn}                 the connection carries traffic           *)
(*   fault   {conn, kind}           the harness injected a fault on it       *)
(*   deliver {conn, k, shared}      message k of that connection arrived     *)
(*   op      {sock, res}            an API call: "ok" | "err" | "stopped"    *)
(*   close   {sock}                 the application closed the socket        *)
(*   sent    {conn, n}              the peer of conn had n sends accepted    *)
(*   attempt {conn, gap, ivl, max, first}  a (re)connect attempt arrived gap *)
(*                                  ms after the previous one / the loss     *)
(*   end     {}                                                              *)
(***************************************************************************)
EXTENDS Isolation, Sequences, Json, IOUtils

CONSTANTS Tol,      \* ms a delay may fall short of its nominal value (clock granularity)
          Slack     \* ms a delay may exceed its bound (maintenance tick 100 ms, connect time, scheduling)

VARIABLES l, owner, outb, sentN, gotK, prevGap, bad
tvars == <<vars, l, owner, outb, sentN, gotK, prevGap, bad>>

Rec == ndJsonDeserialize(IOEnv.TRACE)
R == Rec[l]
Empty == [x \in {} |-> 0]

TraceInit == /\ sock = Empty /\ why = Empty /\ st = Empty /\ reach = Empty /\ attempts = Empty
             /\ delivered = Empty /\ lastFault = "-"
             /\ l = 1 /\ owner = Empty /\ outb = {} /\ sentN = Empty /\ gotK = Empty /\ prevGap = Empty /\ bad = FALSE

Reset ==
  /\ R.e = "reset"
  /\ LET S == {R.socks[i] : i \in 1..Len(R.socks)}
         C == {R.conns[i][1] : i \in 1..Len(R.conns)}
         row(c) == CHOOSE i \in 1..Len(R.conns) : R.conns[i][1] = c IN
     /\ sock' = [s \in S |-> "running"] /\ why' = [s \in S |-> "none"]
     /\ st' = [c \in C |-> "idle"] /\ reach' = [c \in C |-> TRUE] /\ attempts' = [c \in C |-> 0]
     /\ delivered' = [c \in C |-> 0]
     /\ owner' = [c \in C |-> R.conns[row(c)][2]]
     /\ outb' = {c \in C : R.conns[row(c)][3]}
     /\ sentN' = [c \in C |-> -1] /\ gotK' = [c \in C |-> 0] /\ prevGap' = [c \in C |-> -1]
  /\ lastFault' = "-" /\ bad' = FALSE

Same == UNCHANGED <<owner, outb>>

Up == /\ R.e = "up" /\ st' = [st EXCEPT ![R.conn] = "up"] /\ lastFault' = "-"
      /\ UNCHANGED <<sock, why, reach, attempts, delivered, sentN, gotK, prevGap, bad>> /\ Same

FaultEv == /\ R.e = "fault" /\ st' = [st EXCEPT ![R.conn] = "lost"] /\ lastFault' = R.conn
           /\ UNCHANGED <<sock, why, reach, attempts, delivered, sentN, gotK, prevGap, bad>> /\ Same

\* per connection, what arrives is 1, 2, 3, ... (a gap or a repeat is a healthy connection disturbed)
DeliverEv == /\ R.e = "deliver"
             /\ gotK' = [gotK EXCEPT ![R.conn] = R.k]
             \* "shared": the sender spreads its messages over several connections - this one sees an
             \* increasing subsequence
             /\ bad' = (bad \/ IF R.shared THEN R.k <= gotK[R.conn] ELSE R.k # gotK[R.conn] + 1)
             /\ delivered' = [delivered EXCEPT ![R.conn] = @ + 1] /\ lastFault' = "-"
             /\ UNCHANGED <<sock, why, st, reach, attempts, sentN, prevGap>> /\ Same

\* an API call on a socket: a result that says "this socket is shut down" while nobody closed it
\* is the socket having been stopped by something else
OpEv == /\ R.e = "op"
        /\ IF R.res = "stopped" /\ sock[R.sock] = "running"
             THEN sock' = [sock EXCEPT ![R.sock] = "stopped"] /\ why' = [why EXCEPT ![R.sock] = "peer"]
             ELSE UNCHANGED <<sock, why>>
        /\ lastFault' = "-"
        /\ UNCHANGED <<st, reach, attempts, delivered, sentN, gotK, prevGap, bad>> /\ Same

CloseEv == /\ R.e = "close"
           /\ sock' = [sock EXCEPT ![R.sock] = "stopped"] /\ why' = [why EXCEPT ![R.sock] = "user"] /\ lastFault' = "-"
           /\ UNCHANGED <<st, reach, attempts, delivered, sentN, gotK, prevGap, bad>> /\ Same

SentEv == /\ R.e = "sent" /\ sentN' = [sentN EXCEPT ![R.conn] = R.n] /\ lastFault' = "-"
          /\ UNCHANGED <<sock, why, st, reach, attempts, delivered, gotK, prevGap, bad>> /\ Same

Min2(a, b) == IF a < b THEN a ELSE b
\* Backoff.tla on a measured gap
AttemptOk(r, prev) ==
  LET floor == IF r.max > 0 THEN Min2(r.ivl, r.max) ELSE r.ivl IN
  /\ r.gap + Tol >= floor                                         \* NeverBelow
  /\ r.first => r.gap <= floor + Slack                            \* Starts
  /\ r.max > 0 => r.gap <= r.max + Slack                          \* Capped
  /\ (~r.first /\ prev >= 0) => r.gap <= 2 * prev + Slack         \* Geometric

AttemptEv == /\ R.e = "attempt"
             /\ bad' = (bad \/ ~AttemptOk(R, prevGap[R.conn]))
             /\ prevGap' = [prevGap EXCEPT ![R.conn] = R.gap]
             /\ attempts' = [attempts EXCEPT ![R.conn] = @ + 1] /\ lastFault' = "-"
             /\ UNCHANGED <<sock, why, st, reach, delivered, sentN, gotK>> /\ Same

\* FaultLocal / ComesBack at the end of a run: a connection that was not faulted delivered everything
\* its peer had accepted; an outbound connection whose peer is back is up again
EndEv == /\ R.e = "end"
         /\ bad' = (bad \/ \E c \in DOMAIN st : sentN[c] >= 0 /\ st[c] = "up" /\ delivered[c] # sentN[c])
         /\ lastFault' = "-"
         /\ UNCHANGED <<sock, why, st, reach, attempts, delivered, sentN, gotK, prevGap>> /\ Same

TraceNext == /\ l <= Len(Rec) /\ l' = l + 1
             /\ (Reset \/ Up \/ FaultEv \/ DeliverEv \/ OpEv \/ CloseEv \/ SentEv \/ AttemptEv \/ EndEv)

OnlyUserStopsT == \A s \in DOMAIN sock : sock[s] = "stopped" => why[s] = "user"
Ok == ~bad /\ OnlyUserStopsT
TraceSpec == TraceInit /\ [][TraceNext /\ Ok']_tvars

TraceAccepted == LET d == TLCGet("stats").diameter IN
   \/ d - 1 = Len(Rec)
   \/ PrintT(<<"REJECTED", 1, d - 1, Len(Rec)>>) /\ FALSE
=============================================================================
