CONSTANTS
  Callers = {c1, c2, c3}
  KeepQueue = FALSE
SPECIFICATION Spec
INVARIANTS OkMeansServed
PROPERTIES AllReturn
CHECK_DEADLOCK FALSE
