----------------------------- MODULE MonitorObs -----------------------------
(***************************************************************************)
(* The observer half of Monitor.tla: the monitor contract as an automaton   *)
(* over events.  Kept in a module of its own (no constants, no variables)   *)
(* so that Monitor.tla (the system that emits events) and Trace_Monitor.tla *)
(* (event streams of real sockets) judge with the very same operators.      *)
(***************************************************************************)
EXTENDS Integers, Sequences, FiniteSets

\* ---------------------------------------------------------------- observer
\* lis[l] \in {"none","listening"}; con[c] \in {"none","raw","ready"}; tgt[t] \in {"idle","delayed"}
ObsInit(L, C, T) == [lis |-> [l \in L |-> "none"], con |-> [c \in C |-> "none"], tgt |-> [t \in T |-> "idle"], ok |-> TRUE]

\* an event: [k |-> kind, e |-> endpoint, c |-> connection or "-"]
Step(o, ev) ==
  LET bad == [o EXCEPT !.ok = FALSE] IN
  CASE ev.k = "Listening"  -> IF o.lis[ev.e] = "none" THEN [o EXCEPT !.lis[ev.e] = "listening"] ELSE bad
    [] ev.k = "Closed"     -> IF o.lis[ev.e] = "listening" THEN [o EXCEPT !.lis[ev.e] = "none"] ELSE bad
    [] ev.k = "Accepted"   -> IF o.lis[ev.e] = "listening" /\ o.con[ev.c] = "none" THEN [o EXCEPT !.con[ev.c] = "raw"] ELSE bad
    [] ev.k = "Connected"  -> IF o.con[ev.c] = "none" THEN [o EXCEPT !.con[ev.c] = "raw", !.tgt[ev.e] = "idle"] ELSE bad
    [] ev.k = "HandshakeSucceeded" -> IF o.con[ev.c] = "raw" THEN [o EXCEPT !.con[ev.c] = "ready"] ELSE bad
    [] ev.k = "HandshakeFailed"    -> IF o.con[ev.c] = "raw" THEN [o EXCEPT !.con[ev.c] = "none"] ELSE bad
    [] ev.k = "Disconnected"       -> IF o.con[ev.c] # "none" THEN [o EXCEPT !.con[ev.c] = "none"] ELSE bad
    [] ev.k = "ConnectDelayed"     -> IF o.con[ev.e] = "none" THEN [o EXCEPT !.tgt[ev.e] = "delayed"] ELSE bad
    [] ev.k = "ConnectRetried"     -> IF o.con[ev.e] = "none" /\ o.tgt[ev.e] = "delayed" THEN o ELSE bad
    [] ev.k = "ConnectFailed"      -> IF o.con[ev.e] = "none" THEN [o EXCEPT !.tgt[ev.e] = "idle"] ELSE bad
    [] OTHER -> o

\* nothing announced is left: what the application may assume once close() has returned and the
\* channel is drained
ObsClean(o) == /\ \A l \in DOMAIN o.lis : o.lis[l] = "none"
               /\ \A c \in DOMAIN o.con : o.con[c] = "none"

=============================================================================
