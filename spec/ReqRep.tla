------------------------------ MODULE ReqRep ------------------------------
(***************************************************************************)
(* The REQ and REP state machines as multi-step API calls                  *)
(* (core/src/socket/req_socket.rs, rep_socket.rs).  Every call is a        *)
(* process: Enter (take the per-operation serialiser), Check (state under  *)
(* the lock), Act (the await: hand the request to a peer / wait for a       *)
(* request or reply - may fail, time out or be cancelled), Set (state        *)
(* update).  Several callers hold clones of one socket.                     *)
(***************************************************************************)
EXTENDS Integers, Sequences, FiniteSets, TLC

CONSTANTS Callers,      \* tasks issuing calls on the REQ socket and on the REP socket
          MaxCalls,     \* calls per caller
          Serialize     \* TRUE: send() on REQ and recv() on REP are serialised (as the code does)

VARIABLES reqState,     \* "Ready" | "Expecting"
          repState,     \* "Ready" | "Received"
          reqLock, repLock,      \* holder of the serialiser ("none")
          pc, op,       \* per caller: program counter and current operation
          ncalls,
          wire,         \* requests on their way to REP (ids)
          replies,      \* replies on their way to REQ
          stored,       \* request REP is answering
          nreq,
          log           \* successful operations in the order their state update happened

vars == <<reqState, repState, reqLock, repLock, pc, op, ncalls, wire, replies, stored, nreq, log>>

Ops == {"req.send", "req.recv", "rep.recv", "rep.send"}

Init == /\ reqState = "Ready" /\ repState = "Ready" /\ reqLock = "none" /\ repLock = "none"
        /\ pc = [c \in Callers |-> "idle"] /\ op = [c \in Callers |-> "none"]
        /\ ncalls = [c \in Callers |-> 0] /\ wire = <<>> /\ replies = <<>> /\ stored = 0 /\ nreq = 0 /\ log = <<>>

Call(c, o) ==
  /\ pc[c] = "idle" /\ ncalls[c] < MaxCalls
  /\ op' = [op EXCEPT ![c] = o] /\ pc' = [pc EXCEPT ![c] = "enter"]
  /\ ncalls' = [ncalls EXCEPT ![c] = @ + 1]
  /\ UNCHANGED <<reqState, repState, reqLock, repLock, wire, replies, stored, nreq, log>>

Finish(c) == pc' = [pc EXCEPT ![c] = "idle"] /\ op' = [op EXCEPT ![c] = "none"]

\* take the serialiser (only req.send and rep.recv use one)
Enter(c) ==
  /\ pc[c] = "enter"
  /\ IF Serialize /\ op[c] = "req.send" THEN reqLock = "none" /\ reqLock' = c /\ UNCHANGED repLock
     ELSE IF Serialize /\ op[c] = "rep.recv" THEN repLock = "none" /\ repLock' = c /\ UNCHANGED reqLock
     ELSE UNCHANGED <<reqLock, repLock>>
  /\ pc' = [pc EXCEPT ![c] = "check"]
  /\ UNCHANGED <<reqState, repState, op, ncalls, wire, replies, stored, nreq, log>>

Release(c) == /\ reqLock' = IF reqLock = c THEN "none" ELSE reqLock
              /\ repLock' = IF repLock = c THEN "none" ELSE repLock

\* state check under the state mutex; a wrong state fails with InvalidState and changes nothing
Check(c) ==
  /\ pc[c] = "check"
  /\ LET ok == CASE op[c] = "req.send" -> reqState = "Ready"
                 [] op[c] = "req.recv" -> reqState = "Expecting"
                 [] op[c] = "rep.recv" -> repState = "Ready"
                 [] op[c] = "rep.send" -> repState = "Received"
     IN IF ok
          THEN \* rep.send takes the stored request atomically at the check (mem::replace)
               /\ IF op[c] = "rep.send" THEN repState' = "Ready" ELSE UNCHANGED repState
               /\ pc' = [pc EXCEPT ![c] = "act"] /\ UNCHANGED <<op, reqLock, repLock>>
          ELSE Finish(c) /\ Release(c) /\ UNCHANGED repState
  /\ UNCHANGED <<reqState, ncalls, wire, replies, stored, nreq, log>>

\* the await of the call completes successfully and the state is updated
ActOk(c) ==
  /\ pc[c] = "act"
  /\ CASE op[c] = "req.send" -> /\ reqState' = "Expecting" /\ nreq' = nreq + 1
                                /\ wire' = Append(wire, nreq + 1)
                                /\ UNCHANGED <<repState, replies, stored>>
       [] op[c] = "req.recv" -> /\ replies # <<>> /\ replies' = Tail(replies)
                                /\ reqState' = "Ready" /\ UNCHANGED <<repState, wire, stored, nreq>>
       [] op[c] = "rep.recv" -> /\ wire # <<>> /\ stored' = Head(wire) /\ wire' = Tail(wire)
                                /\ repState' = "Received" /\ UNCHANGED <<reqState, replies, nreq>>
       [] op[c] = "rep.send" -> /\ replies' = Append(replies, stored)
                                /\ UNCHANGED <<reqState, repState, wire, stored, nreq>>
  /\ log' = Append(log, op[c])
  /\ Finish(c) /\ Release(c) /\ UNCHANGED ncalls

\* the await fails, times out or the future is dropped: nothing changes (rep.send has consumed the request)
ActFail(c) ==
  /\ pc[c] = "act"
  /\ Finish(c) /\ Release(c)
  /\ UNCHANGED <<reqState, repState, ncalls, wire, replies, stored, nreq, log>>

Next == \E c \in Callers : (\E o \in Ops : Call(c, o)) \/ Enter(c) \/ Check(c) \/ ActOk(c) \/ ActFail(c)
Spec == Init /\ [][Next]_vars

Proj(l, P) == SelectSeq(l, LAMBDA x : x \in P)
\* C10: on REQ the successful operations strictly alternate send, recv, send, ...
ReqAlternates == LET l == Proj(log, {"req.send", "req.recv"}) IN
  \A i \in 1..Len(l) : l[i] = IF i % 2 = 1 THEN "req.send" ELSE "req.recv"
\* C10: on REP they alternate recv, send, recv, ...
RepAlternates == LET l == Proj(log, {"rep.recv", "rep.send"}) IN
  \A i \in 1..Len(l) : l[i] = IF i % 2 = 1 THEN "rep.recv" ELSE "rep.send"
\* C10: every reply answers the request it was stored for: replies come back in request order
RepliesMatch == \A i \in 1..Len(replies) : i = 1 \/ replies[i - 1] < replies[i]
=============================================================================
