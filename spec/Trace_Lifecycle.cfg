CONSTANTS
  Bound = 3000
  Prompt = 1000
SPECIFICATION TraceSpec
POSTCONDITION TraceAccepted
CHECK_DEADLOCK FALSE
