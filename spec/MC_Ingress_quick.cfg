CONSTANTS
  Pipes = {"1", "2"}
  MaxMsgs = 3
  MaxFrames = 3
  MaxOps = 6
INIT Init
NEXT Next
CHECK_DEADLOCK FALSE
INVARIANTS Whole InOrderOnce
