CONSTANTS
  Lingers <- LingerSet
  MaxMsgs = 3
  MaxTime = 4
  PipeCap = 2
  SbufCap = 2
  WireCap = 3
  EventStops = FALSE
  StopDiscards = FALSE
  GreedyEofDrops = TRUE
INIT Init
NEXT Next
CHECK_DEADLOCK FALSE
INVARIANTS DeliveredPrefix DropOnlyWhenAllowed AllDelivered Linger0Prompt BoundedClose SessionDeadline
