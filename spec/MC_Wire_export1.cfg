\* export: every segmentation of every single-frame stream (hist is part of the state)
CONSTANTS
  Lens = {0, 1, 255, 256, 65535, 65536}
  MaxFrames = 1
  MaxMsg <- Unlimited
INIT Init
NEXT Next
CHECK_DEADLOCK FALSE
INVARIANTS RoundTrip Export
