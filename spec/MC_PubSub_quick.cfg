CONSTANTS
  Alphabet = {"a", "b"}
  MaxTopicLen = 2
  MaxMsgLen = 3
  MaxOps = 4
INIT Init
NEXT Next
CHECK_DEADLOCK FALSE
INVARIANTS RefCount EmptyMatchesAll NothingMatchesNothing Export
