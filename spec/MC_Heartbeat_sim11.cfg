CONSTANTS
  Ivl = 1
  Timeout = 1
  MaxTime = 5
  V2 = FALSE
  Ctxs = {"c0", "c17"}
  MaxChunks = 2
  MaxRecv = 4
INIT Init
NEXT Next
CHECK_DEADLOCK FALSE
INVARIANTS ClosedOnlyWhenDead Export
