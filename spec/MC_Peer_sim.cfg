\* simulation export: random configuration pair, random schedule
CONSTANTS
  CfgsA <- QA
  CfgsB <- QB
  MaxMsgs = 2
  MaxFrames = 3
  AllowCuts = TRUE
INIT Init
NEXT Next
CHECK_DEADLOCK FALSE
INVARIANTS InOrder Export
