CONSTANTS
  Listeners = {L1}
  Targets = {T1}
  Peers = {P1, P2}
  MaxSteps = 5
SPECIFICATION Spec
INVARIANTS ObserverAccepts CleanWhenClosed ObsMatches Bounded
PROPERTIES Closes
CHECK_DEADLOCK FALSE
