CONSTANTS
  Socks = {s1}
  Tasks = {t1}
  HandshakeDeaf = FALSE
  CheckThenWait = FALSE
  LateBlind = TRUE
SPECIFICATION Spec
CHECK_DEADLOCK FALSE
INVARIANTS WgExact AfterCloseErr NoBlockedOnStopped NamesFree TermMeansAllGone
PROPERTIES Terminates CloseCleans
