\* exhaustive: every stream of <= 2 frames over the boundary lengths, every segmentation
CONSTANTS
  Lens = {0, 1, 255, 256, 300}
  MaxFrames = 2
  MaxMsg <- Unlimited
INIT Init
NEXT Next
VIEW view
CHECK_DEADLOCK FALSE
INVARIANTS TypeOK RoundTrip DecodersAgree AllDecodedAtEnd LimitExact AccBound HeaderShape
